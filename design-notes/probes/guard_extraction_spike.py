# Feasibility spike for translator/guards.py: extract the guard expression of every py_* entry point
# and classify its atoms.
import re, glob, collections
ATOMS=[
 (r'^!PyArg_ParseTuple\(.*\)$','parse'),
 (r'^!numpy::are_arrays\(([\w, ]+)\)$','are_arrays'),
 (r'^!numpy::same_shape\((\w+), ?(\w+)\)$','same_shape'),
 (r'^!numpy::equiv_typenums\(([\w, ]+)\)$','equiv_typenums'),
 (r'^!numpy::check_type<([\w:<> ]+)>\((\w+)\)$','check_type'),
 (r'^!numpy::is_carray\((\w+)\)$','iscarray'),
 (r'^!numpy::arrays_of_same_shape_type\(([\w, ]+)\)$','same_shape_type'),
 (r'^PyArray_NDIM\((\w+)\) ?!= ?PyArray_NDIM\((\w+)\)$','ndim_eq'),
 (r'^PyArray_NDIM\((\w+)\) ?!= ?(\d+)$','ndim_const'),
 (r'^!PyArray_ISCARRAY(_RO)?\((\w+)\)$','iscarray'),
 (r'^!PyArray_ISCONTIGUOUS\((\w+)\)$','iscontig'),
 (r'^!PyArray_Check\((\w+)\)$','is_array'),
 (r'^PyArray_TYPE\((\w+)\) ?!= ?(NPY_\w+)$','type_is'),
 (r'^!PyArray_EquivTypenums\(PyArray_TYPE\((\w+)\), ?PyArray_TYPE\((\w+)\)\)$','equiv_typenums'),
 (r'^!PyArray_EquivTypenums\((NPY_\w+), ?PyArray_TYPE\((\w+)\)\)$','type_is'),
 (r'^!PyArray_EquivTypenums\(PyArray_TYPE\((\w+)\), ?(NPY_\w+)\)$','type_is'),
 (r'^PyArray_DIM\((\w+), ?(\d)\) ?!= ?PyArray_DIM\((\w+), ?(\d)\)$','dim_eq'),
 (r'^PyArray_DIM\((\w+), ?(\d)\) ?!= ?PyArray_NDIM\((\w+)\)$','dim_is_ndim'),
 (r'^PyArray_DIM\((\w+), ?0\) ?< ?nd\*2$','dim_ge'),
 (r'^(\w+) ?< ?0$','scalar_nonneg'),
 (r'^reinterpret_cast<PyObject\*>\((\w+)\) ?== ?Py_None$','is_none'),
]
def split_or(expr):
    parts=[];depth=0;cur=''
    i=0
    while i<len(expr):
        c=expr[i]
        if c in '(<' and not (c=='<' and expr[i-1]==' '): depth+=1 if c=='(' else 0
        if c==')': depth-=1
        if expr[i:i+2]=='||' and depth==0: parts.append(cur.strip()); cur=''; i+=2; continue
        cur+=c; i+=1
    parts.append(cur.strip()); return parts
stats=collections.Counter(); unknown=[]; entries=0
for fn in sorted(glob.glob('/repo/mahotas/*.cpp')+glob.glob('/repo/mahotas/features/*.cpp')):
    src=open(fn).read()
    # entry points
    for m in re.finditer(r'PyObject\*\s*\n?\s*(py_\w+|convexhull)\s*\(PyObject\* self, PyObject\* args\)\s*\{',src):
        name=m.group(1); body_start=m.end()
        # take text up to the first HANDLE/#define or 2500 chars
        body=src[body_start:body_start+3000]
        end=re.search(r'\n#define HANDLE|\n\s*holdref|\n\s*try \{|\n\s*\{ // DROP',body)
        head=body[:end.start()] if end else body[:1500]
        conds=re.findall(r'if \(((?:[^(){}]|\((?:[^(){}]|\((?:[^(){}]|\([^(){}]*\))*\))*\))*)\)\s*(?:\{[^{}]*?(?:PyErr_\w+\([^;]*;)?[^{}]*?return (?:NULL|0);|return (?:NULL|0);)',head,re.S)
        entries+=1; atoms=[]
        for c in conds:
            c=' '.join(c.split())
            for a in split_or(c):
                k=None
                for pat,kind in ATOMS:
                    if re.match(pat,a): k=kind;break
                stats[k or 'UNKNOWN']+=1
                if not k: unknown.append((fn.split('/')[-1],name,a))
                atoms.append(k or ('?'+a))
        print(f"{fn.split('/')[-1]:22s} {name:22s} {atoms}")
print(entries,'entry points;',dict(stats))
for u in unknown: print('UNKNOWN',u)
