import numpy as np, mahotas as mh, warnings
warnings.simplefilter('ignore')
np.random.seed(0)
def ref_erode_bool(A,Bc):
    H,W=A.shape; c0,c1=Bc.shape[0]//2,Bc.shape[1]//2
    out=np.ones_like(A)
    for y in range(H):
        for x in range(W):
            v=True
            for i in range(Bc.shape[0]):
                for j in range(Bc.shape[1]):
                    if Bc[i,j]:
                        yy=min(max(y+i-c0,0),H-1); xx=min(max(x+j-c1,0),W-1)
                        v&=A[yy,xx]
            out[y,x]=v
    return out
# 1. fast path erosion asymmetric
A=np.random.rand(5,6)>.3
Bc=np.zeros((3,3),bool); Bc[2,2]=1
print('erode fast vs ref equal:', np.array_equal(mh.erode(A,Bc), ref_erode_bool(A,Bc)))
Af=np.asfortranarray(A)
print('erode generic(F) vs ref equal:', np.array_equal(mh.erode(Af,Bc), ref_erode_bool(A,Bc)))
print(mh.erode(A,Bc).astype(int)); print(ref_erode_bool(A,Bc).astype(int))
# 3. locmax layout
f=np.random.randint(0,5,(5,7)).astype(np.uint8)
print('locmax C vs F equal:', np.array_equal(mh.locmax(f), mh.locmax(np.asfortranarray(f))))
print('regmax C vs F equal:', np.array_equal(mh.regmax(f), mh.regmax(np.asfortranarray(f))))
# 5. label w/ diagonal-only element
B=np.zeros((3,3),bool);B[0,2]=1;B[1,1]=1
im=np.array([[1,1,0],[0,0,0]],bool)
print('label diag-only:', mh.label(im,B))
# 6 labeled_max negative floats
arr=-np.random.rand(4,4)-1; lab=np.ones((4,4),int)
print('labeled_max neg:', mh.labeled.labeled_max(arr,lab), arr.max())
# 7 find flush
f=np.zeros((5,5),np.uint8); f[3:,3:]=7; t=np.full((2,2),7,np.uint8)
print('find flush:', mh.find(f,t))
print('find whole:', mh.find(t,t))
# 8 gaussian out
a=np.random.rand(6,6); o=np.zeros((6,6))
r=mh.gaussian_filter(a,1.,out=o)
print('gaussian out is r:', r is o, 'o==r', np.allclose(o,r), 'o==a', np.allclose(o,a))
o=np.zeros((6,6)); r=mh.gaussian_filter1d(a,1.,0,out=o); print('g1d out is r', r is o, np.allclose(o,r))
# 9 convolve1d negative axis
try:
    print('conv1d axis -1:', mh.convolve1d(a,np.array([1.,2,3]),-1).shape)
except Exception as e: print('conv1d -1 EXC', type(e), e)
try:
    print('g1d default axis:', mh.gaussian_filter1d(a,1.).shape)
except Exception as e: print('g1d EXC', type(e), e)
# 10 distance sentinel
bw=np.ones(20,bool); bw[0]=0
print('dist1d:', mh.distance(bw))
bw=np.ones((20,1,1),bool); bw[0]=0
print('dist3d:', mh.distance(bw).ravel())
# 12 gbernsen
f=np.array([[10,10,10,200,200,200]]*3,np.uint8)
print('gbernsen', mh.thresholding.gbernsen(f,np.ones((3,3),bool),50,128).astype(int))
