import numpy as np, mahotas as mh, warnings, collections
warnings.simplefilter('ignore')
rng=np.random.RandomState(8)
issues=collections.Counter(); ex={}
def note(k,e): issues[k]+=1; ex.setdefault(k,e)
def fx(mode,c,n):
    if mode=='nearest': return min(max(c,0),n-1)
    if mode=='wrap': return c%n
    if mode=='reflect':
        m=c%(2*n); return m if m<n else 2*n-1-m
    if mode=='mirror':
        if n==1: return 0
        m=c%(2*n-2); return m if m<n else 2*n-2-m
    return c if 0<=c<n else None
def samples(f,Bc,p,mode,keepzero=False):
    out=[]
    for k in np.ndindex(*Bc.shape):
        if not Bc[k] and not keepzero: continue
        q=[fx(mode,p[d]+k[d]-Bc.shape[d]//2,f.shape[d]) for d in range(f.ndim)]
        if None in q:
            if mode=='constant': out.append((k,0))
            continue
        out.append((k,f[tuple(q)]))
    return out
modes=['nearest','wrap','reflect','mirror','constant','ignore']
for trial in range(250):
    nd=rng.randint(1,4); shape=tuple(int(x) for x in rng.randint(1,6,nd))
    f=rng.randint(0,9,shape).astype(rng.choice([np.uint8,np.int32,np.float64]))
    Bc=(rng.rand(*tuple(int(x) for x in rng.randint(1,5,nd)))>.4)
    N2=int(Bc.sum())
    for mode in modes:
        if N2:
            rank=int(rng.randint(N2))
            try:
                r=mh.rank_filter(f,Bc,rank,mode=mode)
                for p in np.ndindex(*shape):
                    s=sorted(v for _,v in samples(f,Bc,p,mode))
                    if mode=='ignore' and len(s)!=N2:
                        if not s: continue
                        cr=int(len(s)*rank/float(N2))
                    else: cr=rank
                    if r[p]!=s[cr]: note(('rank',mode),(shape,Bc.shape,rank,p)); break
            except Exception as e: note(('exc rank',mode,type(e).__name__,str(e)[:40]),(shape,Bc.shape))
            try:
                r=mh.mean_filter(f,Bc,mode=mode)
                for p in np.ndindex(*shape):
                    s=[v for _,v in samples(f,Bc,p,mode)]
                    if not s: continue
                    if not np.isclose(r[p],np.mean(s)): note(('mean',mode),(shape,Bc.shape,p,r[p],np.mean(s))); break
            except Exception as e: note(('exc mean',mode,type(e).__name__,str(e)[:40]),(shape,Bc.shape))
        # median with odd full box
        try:
            r=mh.median_filter(f,mode=mode)
            B3=np.ones((3,)*nd,bool)
            for p in np.ndindex(*shape):
                s=sorted(v for _,v in samples(f,B3,p,mode))
                if mode=='ignore' and len(s)!=B3.size: cr=int(len(s)*(B3.size//2)/float(B3.size))
                else: cr=B3.size//2
                if r[p]!=s[cr]: note(('median',mode),(shape,p)); break
        except Exception as e: note(('exc median',mode,type(e).__name__,str(e)[:40]),(shape,))
        # template match
        t=rng.randint(0,4,Bc.shape).astype(f.dtype)
        try:
            r=mh.template_match(f,t,mode=mode)
            for p in np.ndindex(*shape):
                e=0
                for k,v in samples(f,np.ones(t.shape,bool),p,mode):
                    if mode=='constant' and False: pass
                    e+= (float(v)-float(t[k]))**2
                # constant mode in code: out-of-image samples are skipped (retrieve false)
                if r[p]!=e:
                    note(('tm',mode,f.dtype.name),(shape,t.shape,p,r[p],e)); break
        except Exception as e: note(('exc tm',mode,type(e).__name__,str(e)[:40]),(shape,))
# locmax/regmax reference (contiguous)
def comps_plateau(f,se):
    pass
for trial in range(300):
    nd=rng.randint(1,4); shape=tuple(int(x) for x in rng.randint(1,6,nd))
    f=rng.randint(0,4,shape).astype(rng.choice([np.uint8,np.int16,np.float32]))
    for Bc in ((1,2) if nd==2 else (1,)):
        se=mh.morph.get_structuring_elem(f,Bc).astype(bool); c=[s//2 for s in se.shape]
        offs=[tuple(k[d]-c[d] for d in range(nd)) for k in np.ndindex(*se.shape) if se[k] and any(k[d]!=c[d] for d in range(nd))]
        def nbrs(p):
            for o in offs:
                q=tuple(p[d]+o[d] for d in range(nd))
                if all(0<=q[d]<shape[d] for d in range(nd)): yield q
        for name,cmp_ in (('max',lambda a,b:a>b),('min',lambda a,b:a<b)):
            loc=np.zeros(shape,bool)
            for p in np.ndindex(*shape): loc[p]=not any(cmp_(f[q],f[p]) for q in nbrs(p))
            r=getattr(mh,'loc'+name)(f,Bc)
            if not np.array_equal(r,loc): note(('loc'+name,nd,Bc),(shape,f.tolist()))
            # regional: plateaus
            reg=np.zeros(shape,bool); seen=np.zeros(shape,bool)
            for p in np.ndindex(*shape):
                if seen[p]: continue
                comp=[p]; seen[p]=True; st=[p]; ok=True
                while st:
                    u=st.pop()
                    for q in nbrs(u):
                        if f[q]==f[u]:
                            if not seen[q]: seen[q]=True; st.append(q); comp.append(q)
                        elif cmp_(f[q],f[u]): ok=False
                if ok:
                    for u in comp: reg[u]=True
            r=getattr(mh,'reg'+name)(f,Bc)
            if not np.array_equal(r,reg): note(('reg'+name,nd,Bc),(shape,f.tolist()))
for k,v in sorted(issues.items(),key=str): print(k,v,ex[k])
print('done')
