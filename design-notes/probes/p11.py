import numpy as np, mahotas as mh, warnings, collections
import mahotas.features
from mahotas.features import texture, _lbp
import mahotas.features.lbp as lbp_mod
warnings.simplefilter('ignore')
rng=np.random.RandomState(9)
issues=collections.Counter(); ex={}
def note(k,e): issues[k]+=1; ex.setdefault(k,e)
# cooccurrence
for trial in range(200):
    nd=rng.choice([2,3]); shape=tuple(int(x) for x in rng.randint(1,6,nd))
    f=rng.randint(0,5,shape).astype(rng.choice([np.uint8,np.int32,np.int64]))
    deltas=texture._2d_deltas if nd==2 else texture._3d_deltas
    for di,d in enumerate(deltas):
        for dist in (1,2):
            for sym in (False,True):
                try: c=texture.cooccurence(f,di,symmetric=sym,distance=dist)
                except Exception as e: note(('exc cooc',type(e).__name__,str(e)[:40]),(shape,)); continue
                m=int(f.max())+1; e=np.zeros((m,m),int)
                for p in np.ndindex(*shape):
                    q=tuple(p[k]+dist*d[k] for k in range(nd))
                    if all(0<=q[k]<shape[k] for k in range(nd)): e[f[p],f[q]]+=1
                if sym: e=e+e.T
                if not np.array_equal(c,e): note(('cooc',nd,sym,dist),(shape,di))
# haralick invariances
for trial in range(60):
    f=rng.randint(0,6,(rng.randint(3,9),rng.randint(3,9))).astype(np.uint8)
    try:
        h=mh.features.haralick(f); h180=mh.features.haralick(f[::-1,::-1]); ht=mh.features.haralick(f.T)
        if not np.allclose(h,h180,rtol=1e-9,atol=1e-12): note(('har180',),(f.shape,))
        if not np.allclose(h[[2,1,0,3]],ht,rtol=1e-9,atol=1e-12): note(('harT',),(f.shape,np.abs(h[[2,1,0,3]]-ht).max()))
        if not np.array_equal(h,h180): note(('har180 notbitexact',),(f.shape,))
    except Exception as e: note(('exc har',type(e).__name__,str(e)[:50]),(f.shape,))
# lbp map
for P in range(1,13):
    codes=np.arange(2**P,dtype=np.uint32); m=_lbp.map(codes.copy(),P)
    def rotmin(v):
        best=v
        for i in range(P):
            v=(v>>1)|((v&1)<<(P-1)); best=min(best,v)
        return best
    e=np.array([rotmin(int(v)) for v in codes])
    if not np.array_equal(m,e): note(('lbpmap',P),())
for trial in range(30):
    f=rng.rand(rng.randint(4,12),rng.randint(4,12)); P=int(rng.choice([4,6,8])); R=float(rng.choice([1,1.5,2]))
    h=mh.features.lbp(f,R,P)
    # number of necklaces
    nb=len(set(int(x) for x in _lbp.map(np.arange(2**P,dtype=np.uint32),P)))
    if len(h)!=nb: note(('lbp bins',P),(len(h),nb))
    if h.sum()!=f.size: note(('lbp sum',P),(h.sum(),f.size))
# integral
from mahotas.features import surf
for trial in range(50):
    f=rng.randint(-5,6,(rng.randint(1,7),rng.randint(1,7))).astype(float)
    for ff in (f,np.asfortranarray(f),f[::-1],f[:,::2]):
        I=surf.integral(ff)
        if not np.array_equal(I,ff.cumsum(0).cumsum(1)): note(('integral',ff.flags.c_contiguous,ff.strides),(ff.shape,))
# moments
for trial in range(50):
    f=rng.randint(0,6,(rng.randint(1,7),rng.randint(1,7))).astype(float); p0,p1=int(rng.randint(0,4)),int(rng.randint(0,4)); cm=(float(rng.randint(0,3)),float(rng.randint(0,3)))
    m=mh.moments(f,p0,p1,cm)
    i,j=np.indices(f.shape); 
    with np.errstate(all='ignore'):
        e=(f*(i-cm[0])**p0*(j-cm[1])**p1).sum()
    if not np.isclose(m,e): note(('moments',),(f.shape,p0,p1,cm,m,e))
# zernike rot90 & scaling
for trial in range(30):
    n=int(rng.choice([9,11,13])); f=rng.rand(n,n); c=(n-1)/2.
    z=mh.features.zernike_moments(f,n/2.,8,cm=(c,c)); zr=mh.features.zernike_moments(np.rot90(f),n/2.,8,cm=(c,c)); zs=mh.features.zernike_moments(3.5*f,n/2.,8,cm=(c,c))
    if not np.allclose(z,zr,rtol=1e-8,atol=1e-10): note(('zern rot',),(n,np.abs(z-zr).max()))
    if not np.allclose(z,zs,rtol=1e-8,atol=1e-10): note(('zern scale',),(n,np.abs(z-zs).max()))
for k,v in sorted(issues.items(),key=str): print(k,v,ex[k])
print('done')
