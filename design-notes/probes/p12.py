import numpy as np, mahotas as mh, warnings, collections, itertools
from fractions import Fraction as F
import mahotas.polygon
warnings.simplefilter('ignore')
rng=np.random.RandomState(10)
issues=collections.Counter(); ex={}
def note(k,e): issues[k]+=1; ex.setdefault(k,e)
def otsu_spec(hist):
    n=len(hist); best=None;bestT=0
    tot=sum(hist)
    for T in range(n):
        nB=sum(hist[:T+1]); nO=tot-nB
        if nB==0 or nO==0: s=F(0)
        else:
            mB=F(sum(i*hist[i] for i in range(T+1)),nB); mO=F(sum(i*hist[i] for i in range(T+1,n)),nO)
            s=nB*nO*(mB-mO)**2
        if best is None or s>best: best=s;bestT=T
    return bestT,best
def sigma(hist,T):
    n=len(hist); tot=sum(hist); nB=sum(hist[:T+1]); nO=tot-nB
    if nB==0 or nO==0: return F(0)
    mB=F(sum(i*hist[i] for i in range(T+1)),nB); mO=F(sum(i*hist[i] for i in range(T+1,n)),nO)
    return nB*nO*(mB-mO)**2
def rc_spec(hist):
    N=len(hist); maxt=N-1
    while hist[maxt]==0: maxt-=1
    res=F(maxt); t=0
    while t<min(maxt,res):
        c=sum(hist[:t+1]); r=sum(hist[t+1:])
        if c and r:
            res=(F(sum(i*hist[i] for i in range(t+1)),c)+F(sum(i*hist[i] for i in range(t+1,N)),r))/2
        t+=1
    return res
for trial in range(400):
    L=int(rng.choice([1,2,3,5,8,40])); 
    img=rng.choice(np.arange(L)+rng.randint(0,3),size=(rng.randint(1,6),rng.randint(1,8))).astype(np.uint8)
    if rng.rand()<.3: img[rng.rand(*img.shape)<.6]=0
    for iz in (False,True):
        hist=[int(x) for x in mh.fullhistogram(img)]
        if iz: hist[0]=0
        T=mh.otsu(img,ignore_zeros=iz)
        if sum(hist)>0:
            bT,b=otsu_spec(hist)
            if sigma(hist,T)!=b: note(('otsu notmax',iz),(img.tolist(),T,bT))
        try:
            r=mh.rc(img,ignore_zeros=iz)
            if sum(hist)>0:
                e=rc_spec(hist)
                if abs(float(e)-float(r))>1e-9: note(('rc',iz),(img.tolist(),r,float(e)))
                occ=[i for i,h in enumerate(hist) if h]
                if not (occ[0]-1e-9<=r<=occ[-1]+1e-9): note(('rc range',iz),(img.tolist(),r))
        except Exception as e_: note(('exc rc',iz,type(e_).__name__,str(e_)[:40]),(img.tolist(),))
# thin: components and idempotence
def ncomp8(a):
    return mh.label(a,np.ones((3,3),bool))[1]
for trial in range(400):
    a=rng.rand(rng.randint(1,9),rng.randint(1,9))>rng.choice([.3,.5,.7])
    t=mh.thin(a)
    if (t&~a).any(): note(('thin notsubset',),(a.astype(int).tolist(),))
    if ncomp8(t)!=ncomp8(a): note(('thin comps',),(a.astype(int).tolist(),ncomp8(a),ncomp8(t)))
    if not np.array_equal(mh.thin(t),t): note(('thin idem',),(a.astype(int).tolist(),))
# convex hull
def cross(o,a,b): return (a[0]-o[0])*(b[1]-o[1])-(a[1]-o[1])*(b[0]-o[0])
for trial in range(400):
    a=rng.rand(rng.randint(1,8),rng.randint(1,8))>rng.choice([.3,.6,.85])
    h=mh.polygon.convexhull(a); pts=[tuple(p) for p in np.argwhere(a)]
    hs=[tuple(p) for p in h]
    if any(p not in pts for p in hs): note(('hull notfg',),(a.astype(int).tolist(),))
    if len(set(hs))!=len(hs): note(('hull dup',),(a.astype(int).tolist(),hs))
    if len(hs)>=3:
        n=len(hs); signs=[cross(hs[i],hs[(i+1)%n],hs[(i+2)%n]) for i in range(n)]
        if not (all(s>0 for s in signs) or all(s<0 for s in signs)): note(('hull notconvex',),(a.astype(int).tolist(),hs,signs))
        else:
            sg=1 if signs[0]>0 else -1
            for p in pts:
                if any(sg*cross(hs[i],hs[(i+1)%n],p)<0 for i in range(n)): note(('hull notcontain',),(a.astype(int).tolist(),hs,p)); break
    fc=mh.polygon.fill_convexhull(a)
    if (a&~fc.astype(bool)).any(): note(('fillhull notsuperset',),())
for k,v in sorted(issues.items(),key=str): print(k,v,str(ex[k])[:300])
print('done')
