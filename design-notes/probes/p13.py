import numpy as np, mahotas as mh, warnings, threading, concurrent.futures as cf, time
import mahotas.features, mahotas.labeled
warnings.simplefilter('ignore')
rng=np.random.RandomState(11)
def mk():
    f=rng.randint(0,255,(96,96)).astype(np.uint8); b=f>128; m=np.zeros(f.shape,int); m[10,10]=1; m[80,70]=2
    return [
     lambda: mh.erode(b), lambda: mh.dilate(f), lambda: mh.cwatershed(f,m), lambda: mh.label(b)[0],
     lambda: mh.gaussian_filter(f.astype(float),2.), lambda: mh.median_filter(f), lambda: mh.distance(b),
     lambda: mh.thin(b), lambda: mh.features.haralick(f), lambda: mh.features.lbp(f,2,8),
     lambda: mh.regmax(f), lambda: mh.close_holes(b), lambda: mh.otsu(f), lambda: mh.labeled.perimeter(b),
     lambda: mh.features.zernike_moments(f,40), lambda: mh.convolve(f.astype(float),np.ones((3,3))),
     lambda: mh.hitmiss(b.astype(np.uint8),np.array([[0,1,2],[1,1,1],[2,1,0]],np.uint8)),
    ]
jobs=[]
for _ in range(6): jobs+=mk()
seq=[j() for j in jobs]
bad=0
for rep in range(5):
    with cf.ThreadPoolExecutor(16) as ex:
        par=list(ex.map(lambda j:j(),jobs))
    for a,b in zip(seq,par):
        if not np.array_equal(np.asarray(a),np.asarray(b)): bad+=1
print('thread mismatches',bad,'of',5*len(jobs))
# exception in kernel under threads
def raising():
    try: mh.convolve(np.ones((3,3)),np.ones((3,3)),mode='nosuch')
    except ValueError: return 'VE'
def raising2():
    try: mh.interpolate.spline_filter1d(np.ones((4,4)),order=7)
    except ValueError: return 'VE'
with cf.ThreadPoolExecutor(8) as ex: print(set(ex.map(lambda i:(raising(),raising2()),range(64))))
