import numpy as np, mahotas as mh, warnings, inspect
import mahotas.labeled, mahotas.interpolate, mahotas.morph, mahotas.convolve
warnings.simplefilter('ignore')
rng=np.random.RandomState(12)
mods=[mh.morph,mh.convolve,mh.labeled,mh.interpolate]
seen={}
for m in mods:
    for n,f in vars(m).items():
        if callable(f) and not n.startswith('_') and getattr(f,'__module__','').startswith('mahotas'):
            try: sig=inspect.signature(f)
            except Exception: continue
            if 'out' in sig.parameters: seen[f.__module__+'.'+n]=f
print(len(seen), sorted(seen))
f8=rng.randint(0,200,(6,7)).astype(np.uint8); fb=f8>100; ff=f8.astype(float); lab=(rng.randint(0,3,(6,7))).astype(np.int32)
calls={
 'dilate':(lambda o:mh.dilate(f8,out=o),np.uint8),'erode':(lambda o:mh.erode(f8,out=o),np.uint8),
 'cerode':(lambda o:mh.cerode(f8,f8//2,out=o),np.uint8),
 'open':(lambda o:mh.open(f8,out=o),np.uint8),'close':(lambda o:mh.close(f8,out=o),np.uint8),
 'hitmiss':(lambda o:mh.hitmiss(fb.astype(np.uint8),np.ones((3,3),np.uint8),out=o),np.uint8),
 'majority_filter':(lambda o:mh.majority_filter(fb,out=o),bool),
 'locmax':(lambda o:mh.locmax(f8,out=o),bool),'locmin':(lambda o:mh.locmin(f8,out=o),bool),
 'regmax':(lambda o:mh.regmax(f8,out=o),bool),'regmin':(lambda o:mh.regmin(f8,out=o),bool),
 'subm':(lambda o:mh.morph.subm(f8,f8//2,out=o),np.uint8),
 'tophat_open':(lambda o:mh.morph.tophat_open(f8,out=o),np.uint8),'tophat_close':(lambda o:mh.morph.tophat_close(f8,out=o),np.uint8),
 'convolve':(lambda o:mh.convolve(ff,np.ones((3,3)),out=o),float),
 'convolve1d_fast':(lambda o:mh.convolve1d(ff,np.ones(3),1,out=o),float),
 'convolve1d_fast_ax0':(lambda o:mh.convolve1d(ff,np.ones(3),0,out=o),float),
 'convolve1d_slow':(lambda o:mh.convolve1d(ff,np.ones(9),1,out=o),float),
 'median_filter':(lambda o:mh.median_filter(f8,out=o),np.uint8),'mean_filter':(lambda o:mh.mean_filter(f8,np.ones((3,3)),out=o),float),
 'rank_filter':(lambda o:mh.rank_filter(f8,np.ones((3,3)),2,out=o),np.uint8),
 'template_match':(lambda o:mh.template_match(ff,np.ones((3,3)),out=o),float),
 'gaussian_filter':(lambda o:mh.gaussian_filter(ff,1.,out=o),float),'gaussian_filter1d':(lambda o:mh.gaussian_filter1d(ff,1.,0,out=o),float),
 'label':(lambda o:mh.label(fb,out=o)[0],np.int32),
 'borders':(lambda o:mh.labeled.borders(lab,out=o),bool),'border':(lambda o:mh.labeled.border(lab,1,2,out=o),bool),
 'remove_bordering':(lambda o:mh.labeled.remove_bordering(lab,out=o),np.int32),
 'spline_filter':(lambda o:mh.interpolate.spline_filter(ff,out=o),float),'spline_filter1d':(lambda o:mh.interpolate.spline_filter1d(ff,out=o),float),
 'shift':(lambda o:mh.interpolate.shift(ff,[1,0],out=o),float),'zoom':(lambda o:mh.interpolate.zoom(ff,1.0,out=o),float),
}
for n,(c,dt) in calls.items():
    res=[]
    try:
        base=c(None); o=np.full(base.shape,7).astype(dt); r=c(o)
        res.append('is' if r is o else ('shares' if np.shares_memory(r,o) else 'NOTOUT'))
        res.append('eq' if np.array_equal(o,base) else 'OUT!=BASE')
        res.append('dtype_ok' if base.dtype==dt else 'dtype%s'%base.dtype)
    except Exception as e: res.append('EXC valid '+type(e).__name__+' '+str(e)[:50])
    # invalid: wrong dtype, wrong shape, noncontig, fortran
    for tag,mk in (('wdtype',lambda: np.zeros(base.shape,np.float32 if dt!=np.float32 else np.int16)),('wshape',lambda: np.zeros((base.shape[0]+1,)+base.shape[1:],dt)),
                   ('strided',lambda: np.zeros((base.shape[0],base.shape[1]*2),dt)[:,::2]),('fortran',lambda: np.zeros(base.shape,dt,order='F'))):
        o=mk(); o[...]=7 if dt!=bool else True; before=o.copy()
        try:
            r=c(o); ok=np.array_equal(np.asarray(r),base)
            res.append(tag+':ACCEPT'+('(correct)' if ok else '(WRONG)')+('' if np.array_equal(o,before) else ''))
        except (ValueError,TypeError) as e: res.append(tag+':rej'+('' if np.array_equal(o,before) else '(TOUCHED)'))
        except Exception as e: res.append(tag+':'+type(e).__name__+('' if np.array_equal(o,before) else '(TOUCHED)'))
    print(f'{n:20s}',' '.join(res))
