import numpy as np, mahotas as mh, warnings, collections
import mahotas.features, mahotas.labeled, mahotas.segmentation, mahotas.polygon, mahotas.interpolate, mahotas.thresholding, mahotas.colors
warnings.simplefilter('ignore')
rng=np.random.RandomState(21)
def layouts(a):
    yield 'C',np.ascontiguousarray(a)
    yield 'F',np.asfortranarray(a)
    big=np.zeros(tuple(2*s for s in a.shape),a.dtype); sl=tuple(slice(None,None,2) for _ in a.shape); big[sl]=a; yield 'strided',big[sl]
    r=np.ascontiguousarray(a[(slice(None,None,-1),)*a.ndim]); yield 'neg',r[(slice(None,None,-1),)*a.ndim]
    big=np.zeros(tuple(s+3 for s in a.shape),a.dtype); sl=tuple(slice(2,2+s) for s in a.shape); big[sl]=a; yield 'offset',big[sl]
    ro=np.ascontiguousarray(a).copy(); ro.flags.writeable=False; yield 'readonly',ro
    if a.ndim>=2:
        t=np.ascontiguousarray(a.swapaxes(0,1)); yield 'transposed',t.swapaxes(0,1)
H,W=5,7
u8=rng.randint(0,6,(H,W)).astype(np.uint8); b=u8>2; fl=rng.randint(-4,5,(H,W)).astype(float); lab=rng.randint(0,3,(H,W)).astype(np.int32)
mk=np.zeros((H,W),np.int64); mk[0,0]=1; mk[4,6]=2
rgb=rng.randint(0,255,(H,W,3)).astype(np.uint8)
Bc=np.array([[0,1,1],[0,1,0],[1,0,0]],bool)
funcs={
 'erode_b':(lambda a:mh.erode(a,Bc),b),'dilate_b':(lambda a:mh.dilate(a,Bc),b),'dilate_b_cross':(lambda a:mh.dilate(a),b),
 'erode_u8':(lambda a:mh.erode(a),u8),'dilate_u8':(lambda a:mh.dilate(a),u8),'open':(lambda a:mh.open(a),u8),'close':(lambda a:mh.close(a),b),
 'cdilate':(lambda a:mh.cdilate(a,u8+1),u8),'cerode':(lambda a:mh.cerode(a,u8//2),u8),
 'cwatershed_surface':(lambda a:mh.cwatershed(a,mk),u8),'cwatershed_markers':(lambda a:mh.cwatershed(u8,a),mk),
 'label':(lambda a:mh.label(a)[0],b),'locmax':(lambda a:mh.locmax(a),u8),'locmin':(lambda a:mh.locmin(a),u8),'regmax':(lambda a:mh.regmax(a),u8),'regmin':(lambda a:mh.regmin(a),fl),
 'close_holes':(lambda a:mh.close_holes(a),b),'hitmiss':(lambda a:mh.hitmiss(a,np.array([[2,1,2],[0,1,1],[2,2,2]],np.uint8)),b.astype(np.uint8)),
 'majority':(lambda a:mh.majority_filter(a),b),'distance':(lambda a:mh.distance(a),b),'gvoronoi':(lambda a:mh.segmentation.gvoronoi(a),lab),
 'convolve':(lambda a:mh.convolve(a,np.arange(6.).reshape(2,3)),fl),'convolve1d':(lambda a:mh.convolve1d(a,np.array([1.,2,3]),0),fl),
 'gaussian':(lambda a:mh.gaussian_filter(a,.5),fl),'median':(lambda a:mh.median_filter(a),u8),'mean':(lambda a:mh.mean_filter(a,np.ones((3,3))),u8),
 'rank':(lambda a:mh.rank_filter(a,np.ones((3,3)),1),u8),'tm':(lambda a:mh.template_match(a,np.ones((2,2))),fl),'find':(lambda a:mh.find(a,u8[1:3,2:4].copy()),u8),
 'haar':(lambda a:mh.haar(a[:4,:6]),fl),'ihaar':(lambda a:mh.ihaar(a[:4,:6]),fl),'daub':(lambda a:mh.daubechies(a[:4,:6],'D4'),fl),'idaub':(lambda a:mh.idaubechies(a[:4,:6],'D4'),fl),
 'bbox':(lambda a:mh.bbox(a),b),'croptobbox':(lambda a:mh.croptobbox(a),b),'com':(lambda a:mh.center_of_mass(a),u8),'com_lab':(lambda a:mh.center_of_mass(u8,a),lab),
 'fullhist':(lambda a:mh.fullhistogram(a),u8),'otsu':(lambda a:mh.otsu(a),u8),'rc':(lambda a:mh.rc(a),u8),
 'lsum':(lambda a:mh.labeled.labeled_sum(a,lab),fl),'lsum_lab':(lambda a:mh.labeled.labeled_sum(fl,a),lab),'lmax':(lambda a:mh.labeled.labeled_max(a,lab),u8),'lsize':(lambda a:mh.labeled.labeled_size(a),lab),
 'lbbox':(lambda a:mh.labeled.bbox(a),lab),'relabel':(lambda a:mh.labeled.relabel(a)[0],lab),'borders':(lambda a:mh.labeled.borders(a),lab),'border':(lambda a:mh.labeled.border(a,1,2),lab),
 'bwperim':(lambda a:mh.bwperim(a),b),'perimeter':(lambda a:mh.labeled.perimeter(a),b),'remove_bordering':(lambda a:mh.labeled.remove_bordering(a),lab),'filter_labeled':(lambda a:mh.labeled.filter_labeled(a,min_size=3)[0],lab),
 'is_same':(lambda a:mh.labeled.is_same_labeling(a,lab*2),lab),'remove_regions':(lambda a:mh.labeled.remove_regions(a,[1]),lab),
 'thin':(lambda a:mh.thin(a),b),'euler':(lambda a:mh.euler(a),b),'convexhull':(lambda a:mh.polygon.convexhull(a),b),'fill_convexhull':(lambda a:mh.polygon.fill_convexhull(a),b),
 'stretch':(lambda a:mh.stretch(a),fl),'stretch_rgb':(lambda a:mh.stretch_rgb(a),rgb),'as_rgb':(lambda a:mh.as_rgb(a,None,None),fl),'overlay':(lambda a:mh.overlay(a,b),u8),
 'rgb2grey':(lambda a:mh.colors.rgb2grey(a),rgb),'rgb2xyz':(lambda a:mh.colors.rgb2xyz(a),rgb),'rgb2lab':(lambda a:mh.colors.rgb2lab(a),rgb),'rgb2sepia':(lambda a:mh.colors.rgb2sepia(a),rgb),
 'shift':(lambda a:mh.interpolate.shift(a,[1,0.5],order=1),fl),'zoom':(lambda a:mh.interpolate.zoom(a,1.5,order=1),fl),'spline_filter':(lambda a:mh.interpolate.spline_filter(a),fl),
 'imresize':(lambda a:mh.imresize(a,(7,9)),fl),'resize_to':(lambda a:mh.resize_to(a,(3,4)),fl),
 'sobel':(lambda a:mh.sobel(a),fl),'dog':(lambda a:mh.dog(a),fl),'moments':(lambda a:mh.moments(a,1,2),fl),
 'haralick':(lambda a:mh.features.haralick(a),u8),'lbp':(lambda a:mh.features.lbp(a,1,6),fl),'zernike':(lambda a:mh.features.zernike_moments(a,3),fl),'pftas':(lambda a:mh.features.pftas(a),u8),'tas':(lambda a:mh.features.tas(a),u8),
 'integral':(lambda a:mh.features.surf.integral(a),fl),'surf':(lambda a:mh.features.surf.surf(np.kron(a,np.ones((6,6)))),fl),
 'eccentricity':(lambda a:mh.features.eccentricity(a),b),'roundness':(lambda a:mh.features.roundness(a),b),'ellipse_axes':(lambda a:mh.features.ellipse_axes(a),b),
 'soft_threshold':(lambda a:mh.thresholding.soft_threshold(a,1.5),fl),'bernsen':(lambda a:mh.thresholding.bernsen(a,2,2),u8),
 'slic':(lambda a:mh.segmentation.slic(a,2)[0],rgb.astype(float)),
}
import mahotas.features.surf
for n,(f,arg) in funcs.items():
    try: base=f(np.ascontiguousarray(arg))
    except Exception as e: print(f'{n:20s} BASE EXC {type(e).__name__} {str(e)[:60]}'); continue
    res=[]
    for lay,a in layouts(arg):
        before=a.copy()
        try:
            r=f(a)
            same=np.array_equal(np.asarray(r),np.asarray(base)) or (np.asarray(r).dtype.kind=='f' and np.allclose(r,base,rtol=1e-12,atol=1e-12,equal_nan=True))
            if not same: res.append(lay+':DIFF')
            if not np.array_equal(a,before): res.append(lay+':MUTATED')
        except Exception as e: res.append(lay+':EXC-'+type(e).__name__)
    print(f'{n:20s}', ' '.join(res) if res else 'ok')
