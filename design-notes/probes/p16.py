import numpy as np, mahotas as mh
rng=np.random.RandomState(31)
def clamp(v,n): return min(max(v,0),n-1)
def spec_dilate(A,Bc,lo):
    out=np.full(A.shape,lo,A.dtype); c=[s//2 for s in Bc.shape]
    info=np.iinfo(A.dtype) if A.dtype!=bool else None
    for q in np.ndindex(*A.shape):
        best=None
        for k in np.ndindex(*Bc.shape):
            if A.dtype==bool:
                if not Bc[k]: continue
            else:
                if Bc[k]==info.min: continue
            p=tuple(clamp(q[d]-(k[d]-c[d]),A.shape[d]) for d in range(A.ndim))
            if A.dtype==bool: v=bool(A[p])
            else:
                if A[p]==info.min: v=int(info.min)
                else: v=min(int(A[p])+int(Bc[k]),info.max)
            best=v if best is None else max(best,v)
        if best is not None: out[q]=best
    return out
bad_int=0; bad_all_regular=0; n=0
for t in range(600):
    nd=rng.randint(1,4); shape=tuple(int(x) for x in rng.randint(1,7,nd)); bs=tuple(int(x) for x in rng.randint(1,5,nd))
    dt=rng.choice([np.bool_,np.uint8,np.int8,np.int32])
    if dt==np.bool_: A=rng.rand(*shape)>.5; Bc=rng.rand(*bs)>.5; lo=False
    else:
        info=np.iinfo(dt); A=rng.randint(0,min(info.max,100),shape).astype(dt); Bc=rng.randint(0,4,bs).astype(dt)
        if rng.rand()<.5: Bc[rng.rand(*bs)<.4]=info.min
        lo=info.min
    for lay in ('C','F'):
        AA=np.asfortranarray(A) if lay=='F' else A
        r=mh.dilate(AA,Bc); s=spec_dilate(A,Bc,lo); n+=1
        c=[x//2 for x in bs]
        for q in np.ndindex(*shape):
            interior=all(q[d]-(bs[d]-1-c[d])>=0 and q[d]+c[d]<=shape[d]-1 and q[d]-c[d]>=0 and q[d]+(bs[d]-1-c[d])<=shape[d]-1 for d in range(nd))
            if interior and r[q]!=s[q]: bad_int+=1; print('INTERIOR MISMATCH',dt,shape,bs,lay,q,r[q],s[q]); break
# regular elements everywhere
for t in range(300):
    nd=rng.randint(1,4); shape=tuple(int(x) for x in rng.randint(1,7,nd))
    dt=rng.choice([np.bool_,np.uint8,np.int16]); 
    if dt==np.bool_: A=rng.rand(*shape)>.5; lo=False
    else: A=rng.randint(0,100,shape).astype(dt); lo=np.iinfo(dt).min
    els=[mh.get_structuring_elem(A,1)]
    if nd==2: els+= [mh.get_structuring_elem(A,8), mh.disk(2).astype(A.dtype), np.ones((5,5),A.dtype), mh.disk(3).astype(A.dtype)]
    if nd==3: els+=[np.ones((3,3,3),A.dtype), mh.disk(2,3).astype(A.dtype)]
    if nd==1: els+=[np.ones(5,A.dtype)]
    for Bc in els:
        for lay in ('C','F'):
            AA=np.asfortranarray(A) if lay=='F' else A
            if not np.array_equal(mh.dilate(AA,Bc),spec_dilate(A,Bc,lo)): bad_all_regular+=1; print('REGULAR MISMATCH',dt,shape,Bc.shape,lay)
print('calls',n,'interior mismatches',bad_int,'regular-everywhere mismatches',bad_all_regular)
