import numpy as np, mahotas as mh, heapq, collections
rng=np.random.RandomState(41)
def flood(S,M,Bc):
    shape=S.shape; nd=S.ndim; c=[s//2 for s in Bc.shape]
    offs=[tuple(k[d]-c[d] for d in range(nd)) for k in np.ndindex(*Bc.shape) if Bc[k] and any(k[d]!=c[d] for d in range(nd))]
    res=np.zeros(shape,np.int64); lines=np.zeros(shape,bool); status={}  # 1 grey 2 black
    h=[]; idx=0
    for p in np.ndindex(*shape):
        if M[p]:
            heapq.heappush(h,(S[p],idx,p)); idx+=1; res[p]=M[p]; status[p]=1
    while h:
        cost,_,p=heapq.heappop(h); status[p]=2
        for o in offs:
            q=tuple(p[d]+o[d] for d in range(nd))
            if not all(0<=q[d]<shape[d] for d in range(nd)): continue
            st=status.get(q,0)
            if st==0:
                res[q]=res[p]; heapq.heappush(h,(S[q],idx,q)); idx+=1; status[q]=1
            elif st==1:
                if res[p]!=res[q]: lines[q]=True
    return res,lines,status
bad=collections.Counter(); n=0
for t in range(1500):
    nd=rng.randint(1,4); shape=tuple(int(x) for x in rng.randint(1,6,nd))
    dt=rng.choice([np.uint8,np.int16,np.float64])
    S=rng.randint(0,3,shape).astype(dt)
    M=np.zeros(shape,np.int64)
    for _ in range(rng.randint(0,4)):
        M[tuple(rng.randint(s) for s in shape)]=rng.randint(1,4)
    kind=rng.randint(4)
    if kind==0: Bc=None
    elif kind==1: Bc=np.ones((3,)*nd,bool)
    elif kind==2: Bc=np.ones((5,)*nd,bool)
    else: Bc=rng.rand(*tuple(int(x) for x in rng.randint(1,6,nd)))>.5
    se=mh.get_structuring_elem(S,Bc).astype(bool)
    if not se.any(): continue
    try:
        W,L=mh.cwatershed(S,M,Bc,return_lines=True)
    except Exception as e: bad['exc '+type(e).__name__+str(e)[:40]]+=1; continue
    eW,eL,status=flood(S,M,se); n+=1
    reached=np.zeros(shape,bool)
    for p in status: reached[p]=True
    if not np.array_equal(W[reached],eW[reached]): bad['labels']+=1; ex=(S.tolist(),M.tolist(),se.astype(int).tolist(),W.tolist(),eW.tolist())
    if not np.array_equal(L[reached]&True, eL[reached]): bad['lines(reached)']+=1
    if (W[~reached]!=0).any(): bad['unreached nonzero']+=1
    if (L[~reached]).any(): bad['unreached lines']+=1
print('compared',n,dict(bad))
if 'labels' in bad: print(ex)
