import numpy as np, mahotas as mh, collections
rng=np.random.RandomState(51)
bad=collections.Counter(); n=0
def els(A):
    nd=A.ndim; out=[mh.get_structuring_elem(A,1)]
    if nd==2: out+=[mh.get_structuring_elem(A,8),np.ones((5,5),A.dtype),mh.disk(1).astype(A.dtype),mh.disk(2).astype(A.dtype),mh.disk(3).astype(A.dtype)]
    if nd==3: out+=[np.ones((3,3,3),A.dtype)]
    if nd==1: out+=[np.ones(3,A.dtype),np.ones(5,A.dtype)]
    return out
for t in range(500):
    nd=rng.randint(1,4); shape=tuple(int(x) for x in rng.randint(1,8,nd)); dt=rng.choice([np.bool_,np.uint8,np.uint16])
    if dt==np.bool_: f=rng.rand(*shape)>.5; g=rng.rand(*shape)>.5
    else: f=rng.randint(10,200,shape).astype(dt); g=rng.randint(10,200,shape).astype(dt)
    for lay in ('C','F'):
        F=np.asfortranarray(f) if lay=='F' else f; G=np.asfortranarray(g) if lay=='F' else g
        for Bc in els(f):
            n+=1
            o=mh.open(F,Bc); c=mh.close(F,Bc)
            if not (o<=f).all(): bad['open antiext',lay]+=1
            if not (c>=f).all(): bad['close ext',lay]+=1
            if not np.array_equal(mh.open(o,Bc),o): bad['open idem',lay]+=1
            if not np.array_equal(mh.close(c,Bc),c): bad['close idem',lay]+=1
            f2=np.maximum(f,g)
            if not (mh.open(f2,Bc)>=o).all(): bad['open mono',lay]+=1
            if not (mh.close(f2,Bc)>=c).all(): bad['close mono',lay]+=1
            a=(mh.dilate(F,Bc)<=g).all(); b=(f<=mh.erode(G,Bc)).all()
            if a!=b: bad['adjunction',lay]+=1
            if dt==np.bool_ and not np.array_equal(mh.dilate(F,Bc),~mh.erode(~F,Bc)): bad['duality',lay]+=1
            cd=mh.cdilate(F,G,Bc,int(rng.randint(0,4))); ce=mh.cerode(F,G,Bc)
            if not ((np.minimum(f,g)<=cd).all() and (cd<=g).all()): bad['cdilate',lay]+=1
            if not ((g<=ce).all() and (ce<=np.maximum(f,g)).all()): bad['cerode',lay]+=1
            if dt!=np.bool_:
                if not np.array_equal(mh.morph.tophat_open(F,Bc), f-o): bad['tophat_open',lay]+=1
                if not np.array_equal(mh.morph.tophat_close(F,Bc), c-f): bad['tophat_close',lay]+=1
print(n,dict(bad))
# subm exhaustive 8 bit
for dt in (np.uint8,np.int8):
    info=np.iinfo(dt); v=np.arange(info.min,info.max+1).astype(dt); A,B=np.meshgrid(v,v)
    r=mh.morph.subm(A.copy(),B.copy()); e=np.clip(A.astype(int)-B.astype(int),info.min,info.max)
    print(dt.__name__,'subm mismatches',(r!=e).sum())
