# Faithful Python port of init_filter_offsets / init_filter_iterator / iterate_both (origins = 0)
# and comparison with the closed form used by F6:  offset(p, k) = sum_d astride_d * (fix(p_d + k_d - f_d//2) - p_d)
import numpy as np, itertools
FLAG=None
def fix_offset(mode,cc,ln):
    def tdiv(a,b): return int(a/b) if False else (abs(a)//abs(b))*(1 if (a>=0)==(b>0) else -1)
    if mode=='mirror':
        if cc<0:
            if ln<=1: return 0
            sz2=2*ln-2; cc=sz2*tdiv(-cc,sz2)+cc
            return cc+sz2 if cc<=1-ln else -cc
        elif cc>=ln:
            if ln<=1: return 0
            sz2=2*ln-2; cc-=sz2*tdiv(cc,sz2)
            if cc>=ln: cc=sz2-cc
        return cc
    if mode=='reflect':
        if cc<0:
            if ln<=1: return 0
            sz2=2*ln
            if cc<-sz2: cc=sz2*tdiv(-cc,sz2)+cc
            cc=cc+sz2 if cc<-ln else -cc-1
        elif cc>=ln:
            if ln<=1: return 0
            sz2=2*ln; cc-=sz2*tdiv(cc,sz2)
            if cc>=ln: cc=sz2-cc-1
        return cc
    if mode=='wrap':
        if cc<0:
            if ln<=1: return 0
            cc+=ln*tdiv(-cc,ln)
            if cc<0: cc+=ln
        elif cc>=ln:
            if ln<=1: return 0
            cc-=ln*tdiv(cc,ln)
        return cc
    if mode=='nearest': return 0 if cc<0 else (ln-1 if cc>=ln else cc)
    return FLAG if (cc<0 or cc>=ln) else cc
def init_filter_offsets(ashape,astrides,footprint,fshape,mode):
    rank=len(ashape)
    offsets_size=1
    for i in range(rank): offsets_size*=min(ashape[i],fshape[i])
    filter_size=int(np.prod(fshape))
    forigins=[f//2 for f in fshape]
    coordinates=[0]*rank; position=[0]*rank; offsets=[]
    for ll in range(offsets_size):
        for kk in range(filter_size):
            offset=0
            if footprint[kk]:
                for ii in range(rank):
                    cc=coordinates[ii]-forigins[ii]+position[ii]
                    cc=fix_offset(mode,cc,ashape[ii])
                    if cc is FLAG: offset=FLAG; break
                    cc-=position[ii]; offset+=astrides[ii]*cc
                offsets.append(offset)
            for ii in range(rank-1,-1,-1):
                if coordinates[ii]<fshape[ii]-1: coordinates[ii]+=1; break
                else: coordinates[ii]=0
        for ii in range(rank-1,-1,-1):
            orgn=forigins[ii]
            if position[ii]==orgn:
                position[ii]+=ashape[ii]-fshape[ii]+1
                if position[ii]<=orgn: position[ii]=orgn+1
            else: position[ii]+=1
            if position[ii]<ashape[ii]: break
            else: position[ii]=0
    return offsets,sum(footprint)
def init_filter_iterator(fshape,filter_size,ashape):
    rank=len(ashape); strides=[0]*rank; back=[0]*rank; minb=[0]*rank; maxb=[0]*rank
    if rank>0:
        strides[rank-1]=filter_size
        for ii in range(rank-2,-1,-1):
            step=min(ashape[ii+1],fshape[ii+1]); strides[ii]=strides[ii+1]*step
    for ii in range(rank):
        step=min(ashape[ii],fshape[ii]); orgn=fshape[ii]//2
        back[ii]=(step-1)*strides[ii]; minb[ii]=orgn; maxb[ii]=ashape[ii]-fshape[ii]+orgn
    return strides[::-1],back[::-1],minb[::-1],maxb[::-1]
def walk(ashape,astrides,fp,fshape,mode):
    """yield (position p, list of offsets retrieved) in iteration order, exactly like the kernels do"""
    offsets,size=init_filter_offsets(ashape,astrides,fp,fshape,mode)
    strides,back,minb,maxb=init_filter_iterator(fshape,size,ashape)
    nd=len(ashape); cur=0; pos_rev=[0]*nd; dims_rev=list(ashape[::-1])
    N=int(np.prod(ashape))
    for i in range(N):
        yield tuple(pos_rev[::-1]), offsets[cur:cur+size]
        for d in range(nd):
            p=pos_rev[d]
            if p<dims_rev[d]-1:
                if p<minb[d] or p>=maxb[d]: cur+=strides[d]
                break
            cur-=back[d]
        # ++iterator
        for d in range(nd):
            pos_rev[d]+=1
            if pos_rev[d]!=dims_rev[d]: break
            pos_rev[d]=0
rng=np.random.RandomState(61); bad=0; n=0
for t in range(4000):
    nd=rng.randint(1,4); ashape=tuple(int(x) for x in rng.randint(1,7,nd)); fshape=tuple(int(x) for x in rng.randint(1,9,nd))
    mode=rng.choice(['nearest','wrap','reflect','mirror','constant'])
    fp=[bool(x) for x in (rng.rand(int(np.prod(fshape)))>.3)]
    # arbitrary element strides (C, F or random)
    kind=rng.randint(3)
    if kind==0: astr=[int(np.prod(ashape[d+1:])) for d in range(nd)]
    elif kind==1: astr=[int(np.prod(ashape[:d])) for d in range(nd)]
    else: astr=[int(x) for x in rng.randint(-50,50,nd)]
    ks=[k for k,b in zip(np.ndindex(*fshape),fp) if b]
    for p,offs in walk(ashape,astr,fp,fshape,mode):
        exp=[]
        for k in ks:
            o=0
            for d in range(nd):
                c=fix_offset(mode,p[d]+k[d]-fshape[d]//2,ashape[d])
                if c is FLAG: o=FLAG; break
                o+=astr[d]*(c-p[d])
            exp.append(o)
        n+=1
        if offs!=exp: bad+=1; print('MISMATCH',ashape,fshape,mode,p); break
print('positions checked',n,'mismatches',bad)
