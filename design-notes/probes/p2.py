import numpy as np, mahotas as mh, warnings, itertools
warnings.simplefilter('ignore')
def clamp(v,n): return min(max(v,0),n-1)
def ref_erode(A,Bc):
    H,W=A.shape; c0,c1=Bc.shape[0]//2,Bc.shape[1]//2
    out=np.ones_like(A)
    for y in range(H):
        for x in range(W):
            v=True
            for i in range(Bc.shape[0]):
                for j in range(Bc.shape[1]):
                    if Bc[i,j]: v&=A[clamp(y+i-c0,H),clamp(x+j-c1,W)]
            out[y,x]=v
    return out
def ref_dilate_gather(A,Bc):  # max over support of A[p - k + c] w/ clamp
    H,W=A.shape; c0,c1=Bc.shape[0]//2,Bc.shape[1]//2
    out=np.zeros_like(A)
    for y in range(H):
        for x in range(W):
            v=False
            for i in range(Bc.shape[0]):
                for j in range(Bc.shape[1]):
                    if Bc[i,j]: v|=A[clamp(y-(i-c0),H),clamp(x-(j-c1),W)]
            out[y,x]=v
    return out
def ref_dilate_scatter(A,Bc):
    H,W=A.shape; c0,c1=Bc.shape[0]//2,Bc.shape[1]//2
    out=np.zeros_like(A)
    for y in range(H):
        for x in range(W):
            if A[y,x]:
                for i in range(Bc.shape[0]):
                    for j in range(Bc.shape[1]):
                        if Bc[i,j]: out[clamp(y+i-c0,H),clamp(x+j-c1,W)]=True
    return out
bad_e=bad_eg=bad_d=bad_dg=0; first=None
H,W=3,4
for bits in range(2**(H*W)):
    A=np.array([(bits>>k)&1 for k in range(H*W)],bool).reshape(H,W)
    for bb in range(0,512,7):
        Bc=np.array([(bb>>k)&1 for k in range(9)],bool).reshape(3,3)
        r=ref_erode(A,Bc)
        if not np.array_equal(mh.erode(A,Bc),r):
            bad_e+=1
            if first is None: first=(A.astype(int),Bc.astype(int),mh.erode(A,Bc).astype(int),r.astype(int))
        if not np.array_equal(mh.erode(np.asfortranarray(A),Bc),r): bad_eg+=1
        d_fast=mh.dilate(A,Bc); d_gen=mh.dilate(np.asfortranarray(A),Bc)
        if not np.array_equal(d_fast,d_gen): bad_d+=1
        if not np.array_equal(d_gen,ref_dilate_scatter(A,Bc)): bad_dg+=1
    if bits>600: break
print('erode fast mismatches',bad_e,'generic mismatches',bad_eg,'dilate fast!=generic',bad_d,'generic!=scatter',bad_dg)
if first:
    for f in first: print(f)
