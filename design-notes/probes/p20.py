import numpy as np, mahotas as mh, collections, warnings
import mahotas.segmentation
warnings.simplefilter('ignore')
rng=np.random.RandomState(71); bad=collections.Counter()
for t in range(600):
    shape=(int(rng.randint(1,9)),int(rng.randint(1,9)))
    lab=np.zeros(shape,int)
    for _ in range(rng.randint(0,5)): lab[rng.randint(shape[0]),rng.randint(shape[1])]=rng.randint(1,5)
    for lay in ('C','F'):
        L=np.asfortranarray(lab) if lay=='F' else lab
        try: g=mh.segmentation.gvoronoi(L)
        except Exception as e: bad['exc '+type(e).__name__]+=1; continue
        pts=np.argwhere(lab>0)
        if len(pts)==0:
            if (g!=0).any(): bad['nolabels nonzero']+=1
            continue
        for p in np.ndindex(*shape):
            d=((pts-np.array(p))**2).sum(1); dmin=d.min()
            cand=set(lab[tuple(q)] for q,dd in zip(pts,d) if dd==dmin)
            if g[p] not in cand: bad['not nearest',lay]+=1; break
        if not np.array_equal(g[lab>0],lab[lab>0]): bad['labelled changed',lay]+=1
print('gvoronoi',dict(bad))
bad=collections.Counter()
for t in range(2000):
    shape=tuple(int(x) for x in rng.randint(1,6,rng.randint(1,4)))
    kind=rng.randint(4)
    img=(rng.randn(*shape)*rng.choice([1,100,1e6])).astype(rng.choice([np.float64,np.float32,np.int32,np.uint8]))
    if kind==0: img[...]=img.flat[0]
    lo,hi=sorted(int(x) for x in rng.randint(0,256,2)); 
    dt=rng.choice([np.uint8,np.uint16,np.int32,np.float64,np.float32])
    before=img.copy()
    r=mh.stretch(img,lo,hi,dtype=dt)
    if not np.array_equal(before,img): bad['mutated']+=1
    if r.dtype!=dt or r.shape!=img.shape: bad['dtype/shape']+=1
    if r.min()<lo or r.max()>hi: bad['range',np.dtype(dt).name]+=1; exr=(img.tolist(),lo,hi,np.dtype(dt).name,r.min(),r.max())
    if r.flat[np.argmin(img)]!=lo: bad['min->lo',np.dtype(dt).name]+=1
    o=np.argsort(img.ravel(),kind='stable')
    if (np.diff(r.ravel()[o].astype(float))<0).any(): bad['monotone',np.dtype(dt).name]+=1
print('stretch',dict(bad)); 
if any(k[0]=='range' for k in bad if isinstance(k,tuple)): print(exr)
