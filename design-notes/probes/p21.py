import numpy as np, mahotas as mh, collections, warnings
import mahotas.labeled, mahotas.colors, mahotas.thresholding
warnings.simplefilter('ignore')
rng=np.random.RandomState(81); bad=collections.Counter(); ex={}
def note(k,e=None): bad[k]+=1; ex.setdefault(k,e)
# ---- C13 utilities
for t in range(600):
    nd=rng.randint(1,4); shape=tuple(int(x) for x in rng.randint(1,6,nd))
    lab=rng.choice([0,0,3,7,7,9,20],size=shape).astype(rng.choice([np.int32,np.int64,np.uint8,np.uint16]))
    before=lab.copy()
    r,n=mh.labeled.relabel(lab)
    if not np.array_equal(lab,before): note('relabel mutated')
    vals=[]; 
    for v in lab.ravel():
        if v!=0 and v not in vals: vals.append(v)
    e=np.zeros(shape,int)
    for i,v in enumerate(vals): e[lab==v]=i+1
    if not np.array_equal(r,e) or n!=len(vals): note('relabel',(lab.tolist(),r.tolist()))
    # is_same_labeling
    perm=rng.permutation(30)+1; m=lab.astype(int).copy(); m[lab>0]=perm[lab[lab>0].astype(int)]
    if not mh.labeled.is_same_labeling(lab,m): note('same_labeling false-neg')
    m2=m.copy()
    if (lab>0).sum()>=2 and len(vals)>=2:
        m2[lab==vals[0]]=m[lab==vals[1]][0] if (lab==vals[1]).any() else 0
        if mh.labeled.is_same_labeling(lab,m2): note('same_labeling false-pos(merge)')
    m3=m.copy(); z=np.argwhere(lab>0)
    if len(z):
        m3[tuple(z[0])]=0
        if mh.labeled.is_same_labeling(lab,m3): note('same_labeling false-pos(bg)')
    # remove_regions
    rem=[int(x) for x in rng.choice([3,7,9,20,5],size=rng.randint(0,3))]
    rr=mh.labeled.remove_regions(lab,rem); e=lab.astype(np.intc).copy(); e[np.isin(lab,rem)]=0
    if not np.array_equal(rr,e): note('remove_regions',(lab.tolist(),rem))
    if not np.array_equal(lab,before): note('remove_regions mutated')
    # remove_bordering
    rb=mh.labeled.remove_bordering(lab); e=lab.copy()
    touching=set()
    for p in np.ndindex(*shape):
        if lab[p] and any(p[d]==0 or p[d]==shape[d]-1 for d in range(nd)): touching.add(lab[p])
    for v in touching: e[lab==v]=0
    if not np.array_equal(rb,e): note('remove_bordering',(lab.tolist(),rb.tolist(),e.tolist()))
    # border(i,j)
    if nd==2:
        b=mh.labeled.border(lab,3,7); e=np.zeros(shape,bool)
        for p in np.ndindex(*shape):
            for o in ((1,0),(-1,0),(0,1),(0,-1)):
                q=(p[0]+o[0],p[1]+o[1])
                if 0<=q[0]<shape[0] and 0<=q[1]<shape[1]:
                    if (lab[p]==3 and lab[q]==7) or (lab[p]==7 and lab[q]==3): e[p]=True
        if not np.array_equal(b,e): note('border',(lab.tolist(),))
        bw=lab>0; pw=mh.bwperim(bw); e=np.zeros(shape,bool)
        for p in np.ndindex(*shape):
            if bw[p]:
                for o in ((1,0),(-1,0),(0,1),(0,-1)):
                    q=(p[0]+o[0],p[1]+o[1])
                    if 0<=q[0]<shape[0] and 0<=q[1]<shape[1] and not bw[q]: e[p]=True
        if not np.array_equal(pw,e): note('bwperim',(bw.astype(int).tolist(),pw.astype(int).tolist(),e.astype(int).tolist()))
    # filter_labeled
    if nd==2:
        fl,nn=mh.labeled.filter_labeled(lab,min_size=2)
        sizes=collections.Counter(lab.ravel().tolist()); keep=[v for v in vals if sizes[v]>=2]
        e=np.zeros(shape,int)
        for i,v in enumerate(keep): e[lab==v]=i+1
        if not np.array_equal(fl,e) or nn!=len(keep): note('filter_labeled',(lab.tolist(),fl.tolist(),e.tolist()))
# ---- C06 gaussian = successive convolve1d with model weights
def gw(sigma,order):
    lw=int(4.0*sigma+0.5); x=np.arange(2*lw+1,dtype=float)-lw; s2=sigma*sigma
    w=np.exp(x*x/(-2.*s2)); w/=w.sum()
    if order==1: w*=-x/s2
    elif order==2: w*=(x*x/s2-1.)/s2
    elif order==3: w*=(3.0-x*x/s2)*x/(s2*s2)
    return w
for t in range(200):
    nd=rng.randint(1,4); shape=tuple(int(x) for x in rng.randint(1,12,nd)); a=rng.randn(*shape)
    sig=float(rng.choice([.3,.6,1.,1.7])); order=int(rng.randint(0,4)); mode=rng.choice(['nearest','wrap','reflect','mirror','constant','ignore'])
    try:
        g=mh.gaussian_filter(a,sig,order=order,mode=mode)
        e=a.copy()
        for ax in range(nd): e=mh.convolve1d(e,gw(sig,order),ax,mode=mode)
        if not np.allclose(g,e,rtol=1e-12,atol=1e-12): note('gaussian!=convolve1d chain',(shape,sig,order,mode))
    except Exception as e_: note('gaussian exc '+type(e_).__name__+str(e_)[:40],(shape,sig,order,mode))
# ---- C16 soft threshold
for t in range(200):
    f=rng.randn(5,5)*3; tv=float(rng.choice([0,.5,1.7]))
    r=mh.thresholding.soft_threshold(f,tv); e=np.sign(f)*np.maximum(np.abs(f)-tv,0)
    if not np.allclose(r,e): note('soft_threshold')
# ---- C20 grey / sepia
for t in range(100):
    rgb=rng.randint(0,256,(3,4,3)).astype(np.uint8)
    g=mh.colors.rgb2grey(rgb); e=rgb.astype(float)@np.array([.30,.59,.11])
    if not np.allclose(g,e): note('rgb2grey')
    s=mh.colors.rgb2sepia(rgb); M=np.array([[.393,.769,.189],[.349,.686,.168],[.272,.534,.131]])
    e=np.clip((rgb.astype(np.float32)@M.T.astype(np.float32)),0,255).astype(np.uint8)
    if np.abs(s.astype(int)-e.astype(int)).max()>1: note('sepia')
# ---- C17 linearity, inline
for t in range(100):
    a=rng.randn(4,6); b=rng.randn(4,6); al=2.5
    for f in (mh.haar,mh.ihaar,lambda x:mh.daubechies(x,'D6'),lambda x:mh.idaubechies(x,'D6')):
        if not np.allclose(f(al*a+b),al*f(a)+f(b),rtol=1e-10,atol=1e-10): note('nonlinear')
    a0=a.copy(); mh.haar(a); 
    if not np.array_equal(a,a0): note('haar mutated input')
    ai=np.arange(24).reshape(4,6); a0=ai.copy(); mh.haar(ai,inline=True)
    if not np.array_equal(ai,a0): note('haar inline mutated int input')
    af=a.copy(); r=mh.haar(af,inline=True)
    if r is not af: note('haar inline not same object')
print({k:v for k,v in bad.items()})
for k in bad: print(k, str(ex[k])[:300])
