# Candidate small repair for n-D distance(): exact separable transform using the existing 2-D kernel on (1,n) views.
import numpy as np, mahotas as mh, time
from mahotas import _distance
def distance_nd(bw):
    bw=(bw!=0)
    f=np.zeros(bw.shape,np.double)
    f[bw]=sum(s*s for s in bw.shape)+1
    for ax in range(f.ndim):
        g=np.moveaxis(f,ax,-1)
        for idx in np.ndindex(*g.shape[:-1]):
            _distance.dt(g[idx][None,:],None)
    return f
def brute(bw):
    idx=np.argwhere(~bw); allp=np.argwhere(np.ones_like(bw))
    if len(idx)==0: return None
    return ((allp[:,None,:]-idx[None,:,:])**2).sum(2).min(1).reshape(bw.shape).astype(float)
rng=np.random.RandomState(5); bad=0
for t in range(300):
    nd=rng.choice([1,3,4]); shape=tuple(int(x) for x in rng.randint(1,9,nd))
    bw=rng.rand(*shape)<rng.choice([.5,.9,.98])
    b=brute(bw); d=distance_nd(bw)
    if b is None:
        if not (d>sum((s-1)**2 for s in shape)).all(): bad+=1
    elif not np.array_equal(d,b): bad+=1
bw=np.ones((31,26,1),bool)
for p in [(0,20),(8,19),(12,17)]: bw[p+(0,)]=False
print('mismatches',bad,'witness pixel',distance_nd(bw)[2,3,0], 'old', mh.distance(bw)[2,3,0])
big=np.random.rand(64,64,64)>.01
t=time.time(); distance_nd(big); t1=time.time()-t
t=time.time(); mh.distance(big); t2=time.time()-t
print('64^3: new %.2fs old %.2fs'%(t1,t2))
