import numpy as np, mahotas as mh, warnings
warnings.simplefilter('ignore')
np.random.seed(1)
S=np.random.randint(0,4,(4,6)).astype(np.uint8)
M=np.zeros((4,6),int); M[0,0]=1; M[3,5]=2
a=mh.cwatershed(S,M); b=mh.cwatershed(np.asfortranarray(S),M)
print('ws C==F', np.array_equal(a,b)); print(a); print(b)
# unreached
S=np.zeros((3,5),np.uint8); M=np.zeros((3,5),int); M[0,0]=1
Bc=np.zeros((3,3),bool); Bc[1,1]=1  # no neighbours
import os
junk=[np.full((3,5),77,np.int64) for _ in range(50)]; del junk
w,l=mh.cwatershed(S,M,Bc,return_lines=True); print(w); print(l.astype(int))
# euler touching edges
f=np.ones((3,3),bool); print('euler full 3x3', mh.euler(f), mh.euler(f,4))
f=np.zeros((4,4),bool); f[3,3]=1; print('euler corner', mh.euler(f))
f=np.ones((3,3),bool); f[1,1]=0; print('euler ring', mh.euler(f), mh.euler(f,4))
# imresize
for s,n in [(49,1),(10,7),(7,3),(3,7),(6,10),(128,100),(100,37)]:
    try: print('imresize',s,n, mh.imresize(np.arange(s,dtype=float),(n,)).shape)
    except Exception as e: print('imresize exc',s,n,type(e).__name__,e)
print('resize_to', mh.resize_to(np.arange(10.),(7,)).shape, mh.resize_to(np.arange(10.),(7,),order=1))
from mahotas import interpolate
print('zoom corners', interpolate.zoom(np.arange(5.)*10,2,order=1))
# stretch
print(mh.stretch(np.array([[-5,0,5]],np.int32)), mh.stretch(np.array([[2.,2.]])))
# haar roundtrip
f=np.random.rand(4,6); print('ihaar(haar)', np.allclose(mh.ihaar(mh.haar(f)),f), 'energy', np.allclose((mh.haar(f)**2).sum(),(f**2).sum()))
fc=mh.wavelet_center(np.random.rand(6,6),border=8)
for c in ['D2','D4','D8','D20']:
    r=mh.idaubechies(mh.daubechies(fc,c),c); print(c, np.abs(r-fc).max())
print('D2 vs haar', np.allclose(mh.daubechies(f,'D2'), mh.haar(f,preserve_energy=False)))
