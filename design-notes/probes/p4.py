import numpy as np, mahotas as mh, warnings, itertools
warnings.simplefilter('ignore')
ramp=np.arange(40,dtype=float)
print('gauss order1 ramp mid:', mh.gaussian_filter1d(ramp,2.0,0,order=1)[15:20])
print('gauss order2 on x^2/2:', mh.gaussian_filter1d(ramp**2/2,2.0,0,order=2)[15:18])
# saturation int32 erode
a=np.array([np.iinfo(np.int32).min+3, 5, 7],np.int32); bc=np.array([10,10,10],np.int32)
print('erode int32 sat:', mh.erode(a,bc), 'dilate', mh.dilate(np.array([np.iinfo(np.int32).max-3,5,7],np.int32),bc))
a8=np.array([-126,5,7],np.int8); print('erode int8 sat:', mh.erode(a8,np.array([10,10,10],np.int8)))
print('subm i32', mh.morph.subm(np.array([np.iinfo(np.int32).min+1,np.iinfo(np.int32).max],np.int32), np.array([5,-5],np.int32)))
# erode generic empty Bc
junk=[np.full(7,True) for _ in range(100)]; del junk
print('erode 1d empty Bc', mh.erode(np.zeros(7,bool), np.zeros(3,bool)))
# close_holes / hitmiss exhaustive vs brute force
def ref_close_holes(A):
    H,W=A.shape; seen=np.zeros_like(A); st=[(y,x) for y in range(H) for x in range(W) if (y in(0,H-1) or x in (0,W-1)) and not A[y,x]]
    for p in st: seen[p]=True
    while st:
        y,x=st.pop()
        for dy,dx in ((1,0),(-1,0),(0,1),(0,-1)):
            yy,xx=y+dy,x+dx
            if 0<=yy<H and 0<=xx<W and not A[yy,xx] and not seen[yy,xx]: seen[yy,xx]=True; st.append((yy,xx))
    return ~seen
bad=0
for H,W in [(3,4),(4,3),(1,5),(2,2),(3,3)]:
    for bits in range(2**(H*W)):
        A=np.array([(bits>>k)&1 for k in range(H*W)],bool).reshape(H,W)
        if not np.array_equal(mh.close_holes(A),ref_close_holes(A)): bad+=1
print('close_holes mismatches',bad)
def ref_hitmiss(A,T):
    H,W=A.shape; h,w=T.shape; c0,c1=h//2,w//2; out=np.zeros_like(A)
    for y in range(H):
        for x in range(W):
            ok=True
            for i in range(h):
                for j in range(w):
                    if T[i,j]==2: continue
                    yy,xx=y+i-c0,x+j-c1
                    if not(0<=yy<H and 0<=xx<W): ok=False
                    elif A[yy,xx]!=T[i,j]: ok=False
            # whole template inside
            if not (y-c0>=0 and y-c0+h<=H and x-c1>=0 and x-c1+w<=W): ok=False
            out[y,x]=ok
    return out
bad=0;tot=0
rng=np.random.RandomState(0)
for H,W in [(3,4),(4,4),(3,3),(5,3)]:
  for ts in [(3,3),(1,3),(3,1)]:
    for _ in range(300):
        A=(rng.rand(H,W)>.5).astype(np.uint8); T=rng.randint(0,3,ts).astype(np.uint8)
        tot+=1
        if not np.array_equal(mh.hitmiss(A,T),ref_hitmiss(A,T)): bad+=1
print('hitmiss mismatches',bad,'/',tot)
