import numpy as np, mahotas as mh, time, sys
from mahotas import _morph
rng=np.random.RandomState(3)
def md(bw):
    # emulate distance() for nd!=2 but with a big sentinel to isolate algorithmic exactness
    f=np.zeros(bw.shape,np.double); f.fill(1e12)
    Bc=np.ones([3 for _ in bw.shape],bool)
    _morph.distance_multi(f,bw,Bc)
    return f
def brute(bw):
    idx=np.argwhere(~bw); allp=np.argwhere(np.ones_like(bw))
    d=((allp[:,None,:]-idx[None,:,:])**2).sum(2).min(1)
    return d.reshape(bw.shape).astype(float)
t0=time.time(); n=0; found=None
while time.time()-t0<150 and found is None:
    H,W=rng.randint(12,34),rng.randint(12,34)
    k=rng.randint(2,6)
    bw=np.ones((H,W,1),bool)
    for _ in range(k): bw[rng.randint(H),rng.randint(W),0]=False
    a=md(bw); b=brute(bw); n+=1
    if not np.array_equal(a,b):
        found=(bw[:,:,0],a[:,:,0],b[:,:,0])
print('trials',n,'found',found is not None)
if found:
    bw,a,b=found
    print('shape',bw.shape,'bg',np.argwhere(~bw).tolist())
    w=np.argwhere(a!=b); print('diff at',w[:5].tolist(), [ (a[tuple(p)],b[tuple(p)]) for p in w[:5]])
