import numpy as np, mahotas as mh, warnings, itertools
warnings.simplefilter('ignore')
rng=np.random.RandomState(5)
def fix(mode,c,n):
    if mode=='nearest': return min(max(c,0),n-1)
    if mode=='wrap': return c % n
    if mode=='reflect':
        m=c%(2*n); return m if m<n else 2*n-1-m
    if mode=='mirror':
        if n==1: return 0
        m=c%(2*n-2); return m if m<n else 2*n-2-m
    if mode in('constant','ignore'): return c if 0<=c<n else None
def ref_conv(f,w,mode):
    out=np.zeros(f.shape,float)
    c=[s//2 for s in w.shape]
    for p in np.ndindex(*f.shape):
        acc=0.
        for j in np.ndindex(*w.shape):
            q=[fix(mode,p[d]+j[d]-c[d],f.shape[d]) for d in range(f.ndim)]
            if None in q: continue
            acc+=w[j]*f[tuple(q)]
        out[p]=acc
    return out
bad={}
for trial in range(300):
    nd=rng.randint(1,4)
    shape=tuple(rng.randint(1,6,nd)); wshape=tuple(rng.randint(1,8 if nd==1 else 5,nd))
    f=rng.randint(-5,6,shape).astype(float); w=rng.randint(-3,4,wshape).astype(float)
    for mode in ['nearest','wrap','reflect','mirror','constant','ignore']:
        try:
            r=mh.convolve(f,w,mode=mode)
        except Exception as e:
            bad.setdefault((mode,'exc',type(e).__name__),[]).append((shape,wshape)); continue
        e=ref_conv(f,w,mode)
        if not np.array_equal(r,e): bad.setdefault((mode,'neq'),[]).append((shape,wshape))
for k,v in bad.items(): print(k,len(v),v[:6])
print('done convolve')
# convolve1d vs convolve embedded
bad1=0
for trial in range(300):
    nd=rng.randint(1,4); shape=tuple(rng.randint(1,7,nd)); ax=rng.randint(nd)
    f=rng.randint(-5,6,shape).astype(float); w=rng.randint(-3,4,rng.randint(1,7)).astype(float)
    for mode in ['nearest','wrap','reflect','mirror','constant','ignore']:
        idx=[None]*nd; idx[ax]=slice(None)
        e=ref_conv(f,w[tuple(idx)],mode)
        for ff in (f,np.asfortranarray(f)):
            try:
                r=mh.convolve1d(ff,w,ax,mode=mode)
                if not np.array_equal(r,e): bad1+=1; last=(shape,ax,len(w),mode,ff.flags.c_contiguous)
            except Exception as ex:
                bad1+=1; last=(shape,ax,len(w),mode,'EXC',str(ex)[:50])
print('convolve1d mismatches',bad1, last if bad1 else '')
