import numpy as np, mahotas as mh, warnings, collections
warnings.simplefilter('ignore')
exec(open('p7.py').read().split("bad={}")[0])
rng=np.random.RandomState(6)
cnt=collections.Counter(); ex={}
for trial in range(400):
    nd=rng.randint(1,4); shape=tuple(int(x) for x in rng.randint(1,7,nd)); ax=int(rng.randint(nd))
    f=rng.randint(-5,6,shape).astype(float); w=rng.randint(-3,4,rng.randint(2,7)).astype(float)
    for mode in ['nearest','wrap','reflect','mirror','constant','ignore']:
        idx=[None]*nd; idx[ax]=slice(None)
        e=ref_conv(f,w[tuple(idx)],mode)
        for lay,ff in (('C',f),('F',np.asfortranarray(f))):
            fast = ff.flags.contiguous and len(w)<ff.shape[ax]
            try:
                r=mh.convolve1d(ff,w,ax,mode=mode)
                if not np.array_equal(r,e): k=('neq',fast,mode); cnt[k]+=1; ex.setdefault(k,(shape,ax,len(w),lay))
            except Exception as exn:
                k=('exc',fast,type(exn).__name__,str(exn)[:40]); cnt[k]+=1; ex.setdefault(k,(shape,ax,len(w),lay))
for k,v in cnt.items(): print(k,v,ex[k])
