import numpy as np, mahotas as mh, warnings, collections
import mahotas.features, mahotas.labeled
warnings.simplefilter('ignore')
rng=np.random.RandomState(7)
issues=collections.Counter(); ex={}
def note(k,e): issues[k]+=1; ex.setdefault(k,e)
dts=[np.bool_,np.uint8,np.int8,np.uint16,np.int16,np.uint32,np.int32,np.uint64,np.int64,np.float32,np.float64]
for trial in range(400):
    nd=rng.randint(1,4); shape=tuple(int(x) for x in rng.randint(1,6,nd))
    dt=dts[rng.randint(len(dts))]
    if dt==np.bool_: a=rng.rand(*shape)>.5
    elif np.issubdtype(dt,np.floating): a=(rng.randn(*shape)*10).astype(dt)
    else:
        info=np.iinfo(dt); lo=max(info.min,-20); a=rng.randint(lo,20,shape).astype(dt)
    lab=rng.choice([0,1,2,5],size=shape).astype(rng.choice([np.int32,np.int64,np.uint8]))
    L=int(lab.max())+1
    for lay in ('C','F'):
        aa=np.asfortranarray(a) if lay=='F' else a
        ll=np.asfortranarray(lab) if lay=='F' else lab
        try:
            s=mh.labeled.labeled_sum(aa,ll); mx=mh.labeled.labeled_max(aa,ll); mn=mh.labeled.labeled_min(aa,ll)
        except Exception as e: note(('exc fold',dt.__name__,type(e).__name__,str(e)[:40]),(shape,)); continue
        for l in range(L):
            sel=a[lab==l]
            if dt==np.bool_: es=sel.any()
            else: es=sel.sum(dtype=dt) if sel.size else dt(0)
            if not (s[l]==es or (np.issubdtype(dt,np.floating) and np.isclose(s[l],es,rtol=1e-4))): note(('sum',dt.__name__,lay),(shape,l,s[l],es))
            if sel.size:
                if mx[l]!=sel.max(): note(('max',dt.__name__,lay),(shape,l,mx[l],sel.max()))
                if mn[l]!=sel.min(): note(('min',dt.__name__,lay),(shape,l,mn[l],sel.min()))
        # sizes
        sz=mh.labeled.labeled_size(ll)
        if not np.array_equal(sz,np.bincount(lab.ravel(),minlength=L)): note(('size',lay),(shape,))
        # bbox labeled
        try:
            bb=mh.labeled.bbox(ll)
            for l in range(L):
                w=np.argwhere(lab==l)
                e=np.zeros(2*nd,int) if not len(w) else np.array([[w[:,d].min(),w[:,d].max()+1] for d in range(nd)]).ravel()
                if not np.array_equal(bb[l],e): note(('bboxlab',lay,nd),(shape,l,bb[l].tolist(),e.tolist()))
        except Exception as e: note(('exc bboxlab',type(e).__name__,str(e)[:40]),(shape,))
        # bbox
        try:
            b=mh.bbox(aa); w=np.argwhere(a!=0)
            e=np.zeros(2*nd,int) if not len(w) else np.array([[w[:,d].min(),w[:,d].max()+1] for d in range(nd)]).ravel()
            if not np.array_equal(b,e): note(('bbox',dt.__name__,lay,nd),(shape,b.tolist(),e.tolist()))
        except Exception as e: note(('exc bbox',type(e).__name__,str(e)[:40]),(shape,))
        # center of mass
        if dt!=np.bool_ and a.astype(float).sum()!=0:
            try:
                cm=mh.center_of_mass(aa); g=np.indices(shape).reshape(nd,-1).astype(float); v=a.astype(float).ravel()
                e=(g*v).sum(1)/v.sum()
                if not np.allclose(cm,e,rtol=1e-5,atol=1e-5): note(('com',dt.__name__,lay),(shape,cm,e))
                cml=mh.center_of_mass(aa,ll)
                for l in range(L):
                    m=(lab==l).ravel()
                    if v[m].sum()!=0:
                        e=(g[:,m]*v[m]).sum(1)/v[m].sum()
                        if not np.allclose(cml[l],e,rtol=1e-5,atol=1e-5): note(('comlab',dt.__name__,lay),(shape,l,cml[l],e))
            except Exception as e: note(('exc com',type(e).__name__,str(e)[:40]),(shape,dt.__name__))
        # borders
        for mode in ['constant','nearest','ignore','wrap','reflect','mirror']:
            for Bc in (1,2) if nd==2 else (1,):
                try:
                    b=mh.labeled.borders(ll,Bc,mode=mode)
                except Exception as e: note(('exc borders',type(e).__name__,str(e)[:40]),(shape,)); continue
                se=mh.morph.get_structuring_elem(lab,Bc)
                e=np.zeros(shape,bool)
                def fx(c,n):
                    if mode=='nearest': return min(max(c,0),n-1)
                    if mode=='wrap': return c%n
                    if mode=='reflect':
                        m=c%(2*n); return m if m<n else 2*n-1-m
                    if mode=='mirror':
                        if n==1: return 0
                        m=c%(2*n-2); return m if m<n else 2*n-2-m
                    return c if 0<=c<n else None
                for p in np.ndindex(*shape):
                    for k in np.ndindex(*se.shape):
                        if not se[k]: continue
                        q=[fx(p[d]+k[d]-se.shape[d]//2,shape[d]) for d in range(nd)]
                        if None in q: continue
                        if lab[tuple(q)]!=lab[p]: e[p]=True
                if not np.array_equal(b,e): note(('borders',mode,lay,nd),(shape,))
for k,v in sorted(issues.items(),key=str): print(k,v,ex[k])
print('done')
