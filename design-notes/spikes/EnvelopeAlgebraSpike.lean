import Mathlib.Tactic.Linarith
import Mathlib.Tactic.FieldSimp
import Mathlib.Tactic.Ring
import Mathlib.Tactic.Positivity
import Mathlib.Data.Rat.Defs
import Mathlib.Algebra.Order.Field.Basic

/-! Spike for C05-T1: the two algebraic facts the lower-envelope invariant rests on. -/
namespace Spike
variable (g : ℚ → ℚ)   -- g v = f v (value of the sampled function at index v)

/-- parabola rooted at `v` -/
def P (v x : ℚ) : ℚ := (x - v) ^ 2 + g v
/-- abscissa where the parabolas rooted at `u < v` intersect (dist_transform's `s`) -/
def s (u v : ℚ) : ℚ := ((g v + v ^ 2) - (g u + u ^ 2)) / 2 / (v - u)

theorem P_le_iff (u v x : ℚ) (h : u < v) : P g u x ≤ P g v x ↔ x ≤ s g u v := by
  have hp : 0 < v - u := by linarith
  unfold P s
  rw [le_div_iff₀ hp, le_div_iff₀ (by norm_num : (0:ℚ) < 2)]
  constructor <;> intro h1 <;> nlinarith

/-- `s a c` is a convex combination of `s a b` and `s b c` -/
theorem s_convex (a b c : ℚ) (hab : a < b) (hbc : b < c) :
    s g a c * (c - a) = s g a b * (b - a) + s g b c * (c - b) := by
  have h1 : c - a ≠ 0 := by linarith
  have h2 : b - a ≠ 0 := by linarith
  have h3 : c - b ≠ 0 := by linarith
  unfold s
  field_simp
  ring

theorem pop_bound (a b c : ℚ) (hab : a < b) (hbc : b < c) (hpop : s g b c ≤ s g a b) :
    s g a c ≤ s g a b := by
  have h := s_convex g a b c hab hbc
  have hp : 0 < c - a := by linarith
  have : s g a c * (c - a) ≤ s g a b * (c - a) := by nlinarith
  exact le_of_mul_le_mul_right this hp
end Spike
#print axioms Spike.pop_bound
