import Mathlib.Tactic.Linarith
import Mathlib.Tactic.FieldSimp
import Mathlib.Tactic.Ring
import Mathlib.Data.Rat.Defs
import Mathlib.Algebra.Order.Field.Basic
import Mathlib.Order.WithBot
import Mathlib.Algebra.Order.Ring.Cast
import Mathlib.Data.Rat.Cast.Order

/-! Spike for C05-T1: one push of the Felzenszwalb–Huttenlocher stack keeps the lower-envelope
    invariant.  Stack is a list, top first; `z = ⊥` at the bottom. -/
set_option linter.unusedSimpArgs false
namespace Spike
variable (g : ℕ → ℚ)

def P (v : ℕ) (x : ℚ) : ℚ := (x - v) ^ 2 + g v
def s (u v : ℕ) : ℚ := ((g v + (v:ℚ) ^ 2) - (g u + (u:ℚ) ^ 2)) / 2 / ((v:ℚ) - u)

theorem P_le_iff (u v : ℕ) (x : ℚ) (h : u < v) : P g u x ≤ P g v x ↔ x ≤ s g u v := by
  have hp : (0:ℚ) < (v:ℚ) - u := by
    have : (u:ℚ) < v := by exact_mod_cast h
    linarith
  unfold P s
  rw [le_div_iff₀ hp, le_div_iff₀ (by norm_num : (0:ℚ) < 2)]
  constructor <;> intro h1 <;> nlinarith

theorem P_ge_iff (u v : ℕ) (x : ℚ) (h : u < v) : P g v x ≤ P g u x ↔ s g u v ≤ x := by
  have hp : (0:ℚ) < (v:ℚ) - u := by
    have : (u:ℚ) < v := by exact_mod_cast h
    linarith
  unfold P s
  rw [div_le_iff₀ hp, div_le_iff₀ (by norm_num : (0:ℚ) < 2)]
  constructor <;> intro h1 <;> nlinarith

theorem pop_bound (a b c : ℕ) (hab : a < b) (hbc : b < c) (hpop : s g b c ≤ s g a b) :
    s g a c ≤ s g a b := by
  have hab' : (a:ℚ) < b := by exact_mod_cast hab
  have hbc' : (b:ℚ) < c := by exact_mod_cast hbc
  have h1 : (c:ℚ) - a ≠ 0 := by linarith
  have h2 : (b:ℚ) - a ≠ 0 := by linarith
  have h3 : (c:ℚ) - b ≠ 0 := by linarith
  have h : s g a c * ((c:ℚ) - a) = s g a b * ((b:ℚ) - a) + s g b c * ((c:ℚ) - b) := by
    unfold s; field_simp; ring
  have hp : (0:ℚ) < (c:ℚ) - a := by linarith
  have : s g a c * ((c:ℚ) - a) ≤ s g a b * ((c:ℚ) - a) := by nlinarith
  exact le_of_mul_le_mul_right this hp

abbrev Stack := List (ℕ × WithBot ℚ)

/-- root of the first entry (from the top) whose `z` is below `x` -/
def owner : Stack → ℚ → ℕ
  | [], _ => 0
  | (v, z) :: rest, x => if z < (x : WithBot ℚ) then v else owner rest x

/-- pop while `s(v_top, q) ≤ z_top` -/
def popTo (q : ℕ) : Stack → Stack
  | [] => []
  | (v, z) :: rest => if ((s g v q : ℚ) : WithBot ℚ) ≤ z then popTo q rest else (v, z) :: rest

def topV : Stack → ℕ
  | [] => 0
  | (v, _) :: _ => v

def push (q : ℕ) (st : Stack) : Stack :=
  (q, ((s g (topV (popTo g q st)) q : ℚ) : WithBot ℚ)) :: popTo g q st

/-- well-formed stack -/
inductive Chain : Stack → Prop
  | bot (v : ℕ) : Chain [(v, ⊥)]
  | cons (v2 v1 : ℕ) (z1 : WithBot ℚ) (rest : Stack) :
      v1 < v2 → z1 < ((s g v1 v2 : ℚ) : WithBot ℚ) → Chain ((v1, z1) :: rest) →
      Chain ((v2, ((s g v1 v2 : ℚ) : WithBot ℚ)) :: (v1, z1) :: rest)

def AllLt (q : ℕ) (st : Stack) : Prop := ∀ e ∈ st, e.1 < q

theorem popTo_ne_nil (q : ℕ) (st : Stack) (h : Chain g st) : popTo g q st ≠ [] := by
  induction h with
  | bot v => simp [popTo]
  | cons v2 v1 z1 rest _ _ _ ih =>
    unfold popTo; split_ifs
    · exact ih
    · simp

theorem popTo_chain (q : ℕ) (st : Stack) (h : Chain g st) : Chain g (popTo g q st) := by
  induction h with
  | bot v => simp only [popTo, WithBot.coe_le_iff, reduceCtorEq, false_and, exists_false,
      if_false]; exact Chain.bot v
  | cons v2 v1 z1 rest h1 h2 h3 ih =>
    unfold popTo; split_ifs
    · exact ih
    · exact Chain.cons v2 v1 z1 rest h1 h2 h3

theorem popTo_allLt (q : ℕ) (st : Stack) (h : AllLt q st) : AllLt q (popTo g q st) := by
  induction st with
  | nil => simpa [popTo] using h
  | cons e rest ih =>
    obtain ⟨v, z⟩ := e
    unfold popTo; split_ifs
    · exact ih (fun e he => h e (List.mem_cons_of_mem _ he))
    · exact h

/-- Lemma A: above the new breakpoint the new parabola beats the old owner. -/
theorem lemmaA (q : ℕ) (st : Stack) (hc : Chain g st) (x : ℚ)
    (hx : s g (topV (popTo g q st)) q < x) : s g (owner st x) q ≤ x := by
  induction hc with
  | bot v =>
    simp only [popTo, WithBot.coe_le_iff, reduceCtorEq, false_and, exists_false, if_false,
      topV] at hx
    simp only [owner, WithBot.bot_lt_coe, if_true]; exact le_of_lt hx
  | cons v2 v1 z1 rest h1 h2 h3 ih =>
    by_cases hp : ((s g v2 q : ℚ) : WithBot ℚ) ≤ ((s g v1 v2 : ℚ) : WithBot ℚ)
    · have e : popTo g q ((v2, ((s g v1 v2 : ℚ) : WithBot ℚ)) :: (v1, z1) :: rest)
          = popTo g q ((v1, z1) :: rest) := by rw [popTo]; simp [hp]
      rw [e] at hx
      unfold owner
      split_ifs with hz
      · have : s g v2 q ≤ s g v1 v2 := by exact_mod_cast hp
        have : s g v1 v2 < x := by exact_mod_cast hz
        linarith
      · exact ih hx
    · have e : popTo g q ((v2, ((s g v1 v2 : ℚ) : WithBot ℚ)) :: (v1, z1) :: rest)
          = (v2, ((s g v1 v2 : ℚ) : WithBot ℚ)) :: (v1, z1) :: rest := by rw [popTo]; simp [hp]
      rw [e] at hx
      simp only [topV] at hx
      have hlt : s g v1 v2 < s g v2 q := by
        have := lt_of_not_ge hp; exact_mod_cast this
      unfold owner
      have : ((s g v1 v2 : ℚ) : WithBot ℚ) < (x : WithBot ℚ) := by
        exact_mod_cast lt_trans hlt hx
      rw [if_pos this]; exact le_of_lt hx

theorem owner_mem (st : Stack) (hc : Chain g st) (x : ℚ) : ∃ z, (owner st x, z) ∈ st := by
  induction hc with
  | bot v => exact ⟨⊥, by simp [owner]⟩
  | cons v2 v1 z1 rest _ _ _ ih =>
    unfold owner; split_ifs
    · exact ⟨_, List.mem_cons_self⟩
    · obtain ⟨z, hz⟩ := ih; exact ⟨z, List.mem_cons_of_mem _ hz⟩

/-- Lemma C': the final breakpoint is below any bound that dominates the current top's
    breakpoint with `q` and the current top's `z`. -/
theorem lemmaC (q : ℕ) (st : Stack) (hc : Chain g st) (hq : AllLt q st) (B : ℚ)
    (h1 : s g (topV st) q ≤ B) (h2 : ∀ v z rest, st = (v, z) :: rest → z < (B : WithBot ℚ)) :
    s g (topV (popTo g q st)) q ≤ B := by
  induction hc with
  | bot v => simpa [popTo, topV] using h1
  | cons v1 v0 z0 rest hv hz hrest ih =>
    have hz1 : s g v0 v1 < B := by
      have := h2 v1 _ _ rfl; exact_mod_cast this
    by_cases hp : ((s g v1 q : ℚ) : WithBot ℚ) ≤ ((s g v0 v1 : ℚ) : WithBot ℚ)
    · have e : popTo g q ((v1, ((s g v0 v1 : ℚ) : WithBot ℚ)) :: (v0, z0) :: rest)
          = popTo g q ((v0, z0) :: rest) := by rw [popTo]; simp [hp]
      rw [e]
      have hv1q : v1 < q := hq (v1, _) List.mem_cons_self
      have hpop : s g v1 q ≤ s g v0 v1 := by exact_mod_cast hp
      apply ih (fun e he => hq e (List.mem_cons_of_mem _ he))
      · simp only [topV]
        exact le_trans (pop_bound g v0 v1 q hv hv1q hpop) (le_of_lt hz1)
      · intro v z r hr
        simp only [List.cons.injEq, Prod.mk.injEq] at hr
        obtain ⟨⟨_, rfl⟩, _⟩ := hr
        exact lt_trans hz (by exact_mod_cast hz1)
    · have e : popTo g q ((v1, ((s g v0 v1 : ℚ) : WithBot ℚ)) :: (v0, z0) :: rest)
          = (v1, ((s g v0 v1 : ℚ) : WithBot ℚ)) :: (v0, z0) :: rest := by rw [popTo]; simp [hp]
      rw [e]; simpa [topV] using h1

/-- Lemma B: below the new breakpoint the popped entries never owned `x`. -/
theorem lemmaB (q : ℕ) (st : Stack) (hc : Chain g st) (hq : AllLt q st) (x : ℚ)
    (hx : x ≤ s g (topV (popTo g q st)) q) : owner (popTo g q st) x = owner st x := by
  induction hc with
  | bot v => simp [popTo]
  | cons v2 v1 z1 rest hv hz hrest ih =>
    by_cases hp : ((s g v2 q : ℚ) : WithBot ℚ) ≤ ((s g v1 v2 : ℚ) : WithBot ℚ)
    · have e : popTo g q ((v2, ((s g v1 v2 : ℚ) : WithBot ℚ)) :: (v1, z1) :: rest)
          = popTo g q ((v1, z1) :: rest) := by rw [popTo]; simp [hp]
      rw [e] at hx ⊢
      have hq' : AllLt q ((v1, z1) :: rest) := fun e he => hq e (List.mem_cons_of_mem _ he)
      have hv2q : v2 < q := hq (v2, _) List.mem_cons_self
      have hpop : s g v2 q ≤ s g v1 v2 := by exact_mod_cast hp
      have hC := lemmaC g q ((v1, z1) :: rest) hrest hq' (s g v1 v2)
        (by simpa [topV] using pop_bound g v1 v2 q hv hv2q hpop)
        (by intro v z r hr
            simp only [List.cons.injEq, Prod.mk.injEq] at hr
            obtain ⟨⟨_, rfl⟩, _⟩ := hr
            exact hz)
      rw [ih hq' hx]
      conv_rhs => unfold owner
      have : ¬ (((s g v1 v2 : ℚ) : WithBot ℚ) < (x : WithBot ℚ)) := by
        have : x ≤ s g v1 v2 := le_trans hx hC
        exact not_lt.mpr (by exact_mod_cast this)
      rw [if_neg this]
    · have e : popTo g q ((v2, ((s g v1 v2 : ℚ) : WithBot ℚ)) :: (v1, z1) :: rest)
          = (v2, ((s g v1 v2 : ℚ) : WithBot ℚ)) :: (v1, z1) :: rest := by rw [popTo]; simp [hp]
      rw [e]

def Env (q : ℕ) (st : Stack) : Prop := ∀ x : ℚ, ∀ u < q, P g (owner st x) x ≤ P g u x

theorem topV_mem (st : Stack) (h : st ≠ []) : ∃ z, (topV st, z) ∈ st := by
  cases st with
  | nil => exact absurd rfl h
  | cons e r => exact ⟨e.2, by simp [topV]⟩

/-- one push keeps the invariant -/
theorem push_env (q : ℕ) (st : Stack) (hc : Chain g st) (hq : AllLt q st) (henv : Env g q st) :
    Env g (q + 1) (push g q st) := by
  intro x u hu
  have hne := popTo_ne_nil g q st hc
  obtain ⟨zt, htop⟩ := topV_mem (popTo g q st) hne
  have htq : topV (popTo g q st) < q := popTo_allLt g q st hq _ htop
  unfold push owner
  split_ifs with hx
  · -- x above the new breakpoint: q owns x
    have hx' : s g (topV (popTo g q st)) q < x := by exact_mod_cast hx
    rcases Nat.lt_succ_iff_lt_or_eq.mp hu with hlt | heq
    · obtain ⟨z, hmem⟩ := owner_mem g st hc x
      have hwq : owner st x < q := hq _ hmem
      have h1 := (P_ge_iff g (owner st x) q x hwq).2 (lemmaA g q st hc x hx')
      exact le_trans h1 (henv x u hlt)
    · rw [heq]
  · -- x at or below the new breakpoint: old owner, unchanged by the pops
    have hx' : x ≤ s g (topV (popTo g q st)) q := by
      have := not_lt.mp hx; exact_mod_cast this
    rw [lemmaB g q st hc hq x hx']
    rcases Nat.lt_succ_iff_lt_or_eq.mp hu with hlt | heq
    · exact henv x u hlt
    · have h1 := henv x (topV (popTo g q st)) htq
      have h2 := (P_le_iff g (topV (popTo g q st)) q x htq).2 hx'
      rw [heq]; exact le_trans h1 h2
end Spike
#print axioms Spike.push_env
