namespace Spike

inductive Mode | nearest | wrap | reflect | mirror | constant | ignore
deriving DecidableEq, Repr

/-- `none` = border_flag_value. Transliteration of `fix_offset` (_filters.h:28-105);
    `(int)(a / b)` on non-negative operands is `Int.tdiv`. -/
def fixOffset (m : Mode) (cc : Int) (len : Int) : Option Int :=
  match m with
  | .mirror =>
    if cc < 0 then
      if len ≤ 1 then some 0 else
        let sz2 := 2 * len - 2
        let cc := sz2 * ((-cc).tdiv sz2) + cc
        some (if cc ≤ 1 - len then cc + sz2 else -cc)
    else if cc ≥ len then
      if len ≤ 1 then some 0 else
        let sz2 := 2 * len - 2
        let cc := cc - sz2 * (cc.tdiv sz2)
        some (if cc ≥ len then sz2 - cc else cc)
    else some cc
  | .reflect =>
    if cc < 0 then
      if len ≤ 1 then some 0 else
        let sz2 := 2 * len
        let cc := if cc < -sz2 then sz2 * ((-cc).tdiv sz2) + cc else cc
        some (if cc < -len then cc + sz2 else -cc - 1)
    else if cc ≥ len then
      if len ≤ 1 then some 0 else
        let sz2 := 2 * len
        let cc := cc - sz2 * (cc.tdiv sz2)
        some (if cc ≥ len then sz2 - cc - 1 else cc)
    else some cc
  | .wrap =>
    if cc < 0 then
      if len ≤ 1 then some 0 else
        let cc := cc + len * ((-cc).tdiv len)
        some (if cc < 0 then cc + len else cc)
    else if cc ≥ len then
      if len ≤ 1 then some 0 else some (cc - len * (cc.tdiv len))
    else some cc
  | .nearest => some (if cc < 0 then 0 else if cc ≥ len then len - 1 else cc)
  | .ignore | .constant => if cc < 0 ∨ cc ≥ len then none else some cc

def reflectSpec (cc len : Int) : Int :=
  let m := cc % (2 * len)
  if m < len then m else 2 * len - 1 - m

def mirrorSpec (cc len : Int) : Int :=
  if len ≤ 1 then 0 else
  let m := cc % (2 * len - 2)
  if m < len then m else 2 * len - 2 - m

theorem nearest_spec (cc len : Int) (h : 0 < len) :
    fixOffset .nearest cc len = some (max 0 (min cc (len - 1))) := by
  unfold fixOffset; simp only; congr 1; omega

#eval fixOffset .reflect (-8) 2   -- expect some (-1): the bug
#eval reflectSpec (-8) 2
#eval (List.range 60).all fun i => let cc : Int := (i : Int) - 30; (List.range 6).all fun l => let len : Int := l + 1;
   fixOffset .wrap cc len == some (cc % len)
#eval (List.range 80).filter fun (i : Nat) => let cc : Int := (i : Int) - 40; ! ((List.range 6).all fun l => let len : Int := l + 1;
   fixOffset .reflect cc len == some (reflectSpec cc len))
#eval (List.range 80).filter fun (i : Nat) => let cc : Int := (i : Int) - 40; ! ((List.range 6).all fun l => let len : Int := l + 1;
   fixOffset .mirror cc len == some (mirrorSpec cc len))
end Spike
