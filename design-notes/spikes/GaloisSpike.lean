import Mathlib.Order.GaloisConnection.Basic
import Mathlib.Data.Finset.Lattice.Fold
import Mathlib.Data.Fintype.Basic
import Mathlib.Data.Fintype.Prod
import Mathlib.Algebra.Order.Group.Int

/-! Spike for F11: erosion (gather) and dilation (scatter) through an arbitrary target map
    `t : P → K → P` form a Galois connection.  No geometry is used. -/
namespace Spike
variable {P K : Type} [Fintype P] [Fintype K] [DecidableEq P] [Nonempty K]
variable (t : P → K → P) (b : K → ℤ)

/-- erosion: ε g p = min_k g (t p k) - b k -/
def ero (g : P → ℤ) (p : P) : ℤ :=
  Finset.univ.inf' Finset.univ_nonempty (fun k => g (t p k) - b k)

/-- sources of q -/
def src (q : P) : Finset (P × K) := Finset.univ.filter (fun pk => t pk.1 pk.2 = q)

variable (k0 : K) (hc : ∀ p, t p k0 = p)
include hc in
theorem src_nonempty (q : P) : (src t q).Nonempty :=
  ⟨(q, k0), by simp [src, hc]⟩

/-- dilation by scattering: δ f q = max over (p,k) with t p k = q of f p + b k -/
def dil (f : P → ℤ) (q : P) : ℤ :=
  (src t q).sup' (src_nonempty t k0 hc q) (fun pk => f pk.1 + b pk.2)

theorem gc : GaloisConnection (dil t b k0 hc) (ero t b) := by
  intro f g
  constructor
  · intro h p
    simp only [ero, Finset.le_inf'_iff, Finset.mem_univ, true_implies]
    intro k
    have := h (t p k)
    simp only [dil, Finset.sup'_le_iff] at this
    have := this (p, k) (by simp [src])
    simp only at this
    omega
  · intro h q
    simp only [dil, Finset.sup'_le_iff]
    rintro ⟨p, k⟩ hpk
    simp only [src, Finset.mem_filter, Finset.mem_univ, true_and] at hpk
    have := h p
    simp only [ero, Finset.le_inf'_iff, Finset.mem_univ, true_implies] at this
    have := this k
    rw [hpk] at this
    simp only
    omega

/-- opening is anti-extensive, closing extensive, both idempotent and monotone -/
theorem open_le (f : P → ℤ) : dil t b k0 hc (ero t b f) ≤ f := (gc t b k0 hc).l_u_le f
theorem le_close (f : P → ℤ) : f ≤ ero t b (dil t b k0 hc f) := (gc t b k0 hc).le_u_l f
theorem open_idem (f : P → ℤ) :
    dil t b k0 hc (ero t b (dil t b k0 hc (ero t b f))) = dil t b k0 hc (ero t b f) :=
  (gc t b k0 hc).l_u_l_eq_l (ero t b f)
theorem close_idem (f : P → ℤ) :
    ero t b (dil t b k0 hc (ero t b (dil t b k0 hc f))) = ero t b (dil t b k0 hc f) :=
  (gc t b k0 hc).u_l_u_eq_u (dil t b k0 hc f)
theorem open_mono : Monotone (fun f => dil t b k0 hc (ero t b f)) :=
  (gc t b k0 hc).monotone_l.comp (gc t b k0 hc).monotone_u
end Spike
#print axioms Spike.gc
