import Mathlib.Order.Basic
import Mathlib.Algebra.Order.Group.Int
import Mathlib.Tactic.Linarith
import Mathlib.Tactic.IntervalCases

/-! Spike for F12: for coordinate-wise star-shaped supports, scatter-with-clamp and
    gather-with-clamp reach the same source pixels, in any dimension. -/
namespace Spike
variable {d : ℕ} (n : Fin d → ℤ)

def clampC (len x : ℤ) : ℤ := if x < 0 then 0 else if x ≥ len then len - 1 else x
def clampV (x : Fin d → ℤ) : Fin d → ℤ := fun i => clampC (n i) (x i)
def inBox (p : Fin d → ℤ) : Prop := ∀ i, 0 ≤ p i ∧ p i < n i

/-- `k'` lies between 0 and `k` in every coordinate -/
def between (k' k : Fin d → ℤ) : Prop := ∀ i, (0 ≤ k' i ∧ k' i ≤ k i) ∨ (k i ≤ k' i ∧ k' i ≤ 0)
def Star (S : Set (Fin d → ℤ)) : Prop := ∀ k ∈ S, ∀ k', between k' k → k' ∈ S

theorem clampC_between (len x a : ℤ) (ha : 0 ≤ a ∧ a < len) :
    (0 ≤ clampC len (a + x) - a ∧ clampC len (a + x) - a ≤ x) ∨
    (x ≤ clampC len (a + x) - a ∧ clampC len (a + x) - a ≤ 0) := by
  unfold clampC; split_ifs <;> omega

theorem clampC_inBox (len x : ℤ) (h : 0 < len) : 0 ≤ clampC len x ∧ clampC len x < len := by
  unfold clampC; split_ifs <;> omega

theorem clampC_id (len x : ℤ) (h : 0 ≤ x ∧ x < len) : clampC len x = x := by
  unfold clampC; split_ifs <;> omega

theorem scatter_iff_gather (S : Set (Fin d → ℤ)) (hS : Star S) (p q : Fin d → ℤ)
    (hp : inBox n p) (hq : inBox n q) :
    (∃ k ∈ S, clampV n (fun i => p i + k i) = q) ↔ (∃ k ∈ S, clampV n (fun i => q i - k i) = p) := by
  constructor
  · rintro ⟨k, hk, h⟩
    refine ⟨fun i => q i - p i, hS k hk _ ?_, ?_⟩
    · intro i
      have := clampC_between (n i) (k i) (p i) (hp i)
      have hi : clampC (n i) (p i + k i) = q i := congrFun h i
      rw [hi] at this; dsimp only; exact this
    · funext i; simp only [clampV]
      have : q i - (q i - p i) = p i := by omega
      rw [this]; exact clampC_id _ _ (hp i)
  · rintro ⟨k, hk, h⟩
    refine ⟨fun i => q i - p i, hS k hk _ ?_, ?_⟩
    · intro i
      have := clampC_between (n i) (-(k i)) (q i) (hq i)
      have hi : clampC (n i) (q i - k i) = p i := congrFun h i
      have e : q i + -(k i) = q i - k i := by omega
      rw [e, hi] at this
      dsimp only
      rcases this with h1 | h1
      · right; omega
      · left; omega
    · funext i; simp only [clampV]
      have : p i + (q i - p i) = q i := by omega
      rw [this]; exact clampC_id _ _ (hq i)
end Spike
#print axioms Spike.scatter_iff_gather
