import Mathlib.Logic.Relation
import Mathlib.Algebra.Order.Group.Int
import Mathlib.Tactic.Linarith
import Mathlib.Tactic.IntervalCases

/-! Spike for F13 / C15-T2: a retraction that maps adjacent pixels to connected pixels
    induces a bijection of connected components; instance: one "north edge" thinning pass. -/
namespace Spike
abbrev Px := ℤ × ℤ

def adj8 (x y : Px) : Prop := x ≠ y ∧ |x.1 - y.1| ≤ 1 ∧ |x.2 - y.2| ≤ 1

theorem adj8_symm {x y : Px} (h : adj8 x y) : adj8 y x := by
  obtain ⟨h1, h2, h3⟩ := h
  exact ⟨fun e => h1 e.symm, by rw [abs_sub_comm]; exact h2, by rw [abs_sub_comm]; exact h3⟩

/-- one step inside `A` -/
def step (A : Set Px) (x y : Px) : Prop := x ∈ A ∧ y ∈ A ∧ adj8 x y
/-- connected inside `A` (endpoints included in `A` when the chain is non-empty) -/
def Conn (A : Set Px) : Px → Px → Prop := Relation.ReflTransGen (step A)

theorem Conn.symm {A : Set Px} {x y : Px} (h : Conn A x y) : Conn A y x := by
  induction h with
  | refl => exact Relation.ReflTransGen.refl
  | tail _ hbc ih =>
    exact Relation.ReflTransGen.head ⟨hbc.2.1, hbc.1, adj8_symm hbc.2.2⟩ ih

theorem Conn.mono {A B : Set Px} (hBA : B ⊆ A) {x y : Px} (h : Conn B x y) : Conn A x y := by
  induction h with
  | refl => exact Relation.ReflTransGen.refl
  | tail _ hbc ih => exact Relation.ReflTransGen.tail ih ⟨hBA hbc.1, hBA hbc.2.1, hbc.2.2⟩

/-- F13 -/
theorem retract_components (A B : Set Px) (f : Px → Px) (hBA : B ⊆ A)
    (hfB : ∀ x ∈ A, f x ∈ B) (hfid : ∀ x ∈ B, f x = x)
    (hadj : ∀ x ∈ A, ∀ y ∈ A, adj8 x y → Conn B (f x) (f y))
    (hnear : ∀ x ∈ A, Conn A x (f x)) :
    (∀ x ∈ B, ∀ y ∈ B, (Conn A x y ↔ Conn B x y)) ∧ (∀ x ∈ A, ∃ y ∈ B, Conn A x y) := by
  refine ⟨?_, fun x hx => ⟨f x, hfB x hx, hnear x hx⟩⟩
  intro x hx y hy
  constructor
  · intro h
    have key : ∀ a b, Conn A a b → a ∈ A → Conn B (f a) (f b) := by
      intro a b hab
      induction hab with
      | refl => intro _; exact Relation.ReflTransGen.refl
      | tail _ hbc ih =>
        intro ha
        exact Relation.ReflTransGen.trans (ih ha) (hadj _ hbc.1 _ hbc.2.1 hbc.2.2)
    have := key x y h (hBA hx)
    rwa [hfid x hx, hfid y hy] at this
  · exact Conn.mono hBA

/-! ### the north-edge pass -/
def Nrow (x : Px) : List Px := [(x.1 - 1, x.2 - 1), (x.1 - 1, x.2), (x.1 - 1, x.2 + 1)]
def Srow (x : Px) : List Px := [(x.1 + 1, x.2 - 1), (x.1 + 1, x.2), (x.1 + 1, x.2 + 1)]
/-- pixel matches the template  000 / x1x / 111 -/
def delN (A : Set Px) (x : Px) : Prop := x ∈ A ∧ (∀ y ∈ Nrow x, y ∉ A) ∧ (∀ y ∈ Srow x, y ∈ A)
def passN (A : Set Px) : Set Px := {x | x ∈ A ∧ ¬ delN A x}
open Classical in
noncomputable def fN (A : Set Px) (x : Px) : Px := if delN A x then (x.1 + 1, x.2) else x

theorem mem_Srow (x : Px) (c : ℤ) (hc : -1 ≤ c ∧ c ≤ 1) : (x.1 + 1, x.2 + c) ∈ Srow x := by
  have : c = -1 ∨ c = 0 ∨ c = 1 := by omega
  rcases this with rfl | rfl | rfl <;> simp [Srow, sub_eq_add_neg]

theorem mem_Nrow_of_south (x : Px) (c : ℤ) (hc : -1 ≤ c ∧ c ≤ 1) : x ∈ Nrow (x.1 + 1, x.2 + c) := by
  have : c = -1 ∨ c = 0 ∨ c = 1 := by omega
  rcases this with rfl | rfl | rfl <;> simp [Nrow]

theorem south_survives {A : Set Px} {x : Px} (hx : delN A x) (c : ℤ) (hc : -1 ≤ c ∧ c ≤ 1) :
    (x.1 + 1, x.2 + c) ∈ passN A := by
  obtain ⟨hxA, _, hS⟩ := hx
  refine ⟨hS _ (mem_Srow x c hc), fun hd => ?_⟩
  exact hd.2.1 x (mem_Nrow_of_south x c hc) hxA

theorem adj8_iff (x y : Px) : adj8 x y ↔ x ≠ y ∧ (-1 ≤ y.1 - x.1 ∧ y.1 - x.1 ≤ 1) ∧ (-1 ≤ y.2 - x.2 ∧ y.2 - x.2 ≤ 1) := by
  unfold adj8
  rw [abs_le, abs_le]
  constructor
  · rintro ⟨h, ⟨a, b⟩, ⟨c, d⟩⟩; exact ⟨h, ⟨by omega, by omega⟩, ⟨by omega, by omega⟩⟩
  · rintro ⟨h, ⟨a, b⟩, ⟨c, d⟩⟩; exact ⟨h, ⟨by omega, by omega⟩, ⟨by omega, by omega⟩⟩

theorem passN_sub (A : Set Px) : passN A ⊆ A := fun _ h => h.1

theorem step1 {B : Set Px} {x y : Px} (hx : x ∈ B) (hy : y ∈ B) (h : adj8 x y) : Conn B x y :=
  Relation.ReflTransGen.single ⟨hx, hy, h⟩

/-- two pixels of `B` at Chebyshev distance ≤ 1 are connected in `B` (possibly equal) -/
theorem near {B : Set Px} {x y : Px} (hx : x ∈ B) (hy : y ∈ B)
    (h1 : -1 ≤ y.1 - x.1 ∧ y.1 - x.1 ≤ 1) (h2 : -1 ≤ y.2 - x.2 ∧ y.2 - x.2 ≤ 1) : Conn B x y := by
  by_cases e : x = y
  · subst e; exact Relation.ReflTransGen.refl
  · exact step1 hx hy ((adj8_iff x y).2 ⟨e, h1, h2⟩)

theorem not_mem_of_Nrow {A : Set Px} {x y : Px} (hx : delN A x) (hy : y ∈ A)
    (h : y.1 = x.1 - 1) (h2 : -1 ≤ y.2 - x.2 ∧ y.2 - x.2 ≤ 1) : False := by
  have : y ∈ Nrow x := by
    have : y.2 = x.2 - 1 ∨ y.2 = x.2 ∨ y.2 = x.2 + 1 := by omega
    obtain ⟨y1, y2⟩ := y
    simp only at h this
    rcases this with e | e | e <;> subst h <;> subst e <;> simp [Nrow]
  exact hx.2.1 y this hy

theorem passN_components (A : Set Px) :
    (∀ x ∈ passN A, ∀ y ∈ passN A, (Conn A x y ↔ Conn (passN A) x y)) ∧
    (∀ x ∈ A, ∃ y ∈ passN A, Conn A x y) := by
  classical
  apply retract_components A (passN A) (fN A) (passN_sub A)
  · intro x hx
    unfold fN; split_ifs with hd
    · simpa using south_survives hd 0 (by omega)
    · exact ⟨hx, hd⟩
  · intro x hx
    unfold fN; rw [if_neg hx.2]
  · intro x hx y hy hadj
    obtain ⟨hne, hr, hc⟩ := (adj8_iff x y).1 hadj
    unfold fN
    by_cases hdx : delN A x <;> by_cases hdy : delN A y <;> simp only [hdx, hdy, if_true, if_false]
    · -- both deleted: y is W or E of x
      have hrow : y.1 = x.1 := by
        by_contra hne'
        have : y.1 = x.1 - 1 ∨ y.1 = x.1 + 1 := by omega
        rcases this with e | e
        · exact not_mem_of_Nrow hdx hy e hc
        · exact not_mem_of_Nrow hdy hx (by omega) (by omega)
      have h1 := south_survives hdx 0 (by omega)
      have h2 := south_survives hdy 0 (by omega)
      exact near (by simpa using h1) (by simpa using h2) (by simp; omega) (by simp; omega)
    · -- x deleted, y survives
      have hyB : y ∈ passN A := ⟨hy, hdy⟩
      have hnotN : y.1 ≠ x.1 - 1 := fun e => not_mem_of_Nrow hdx hy e hc
      have hS0 := south_survives hdx 0 (by omega)
      by_cases hrow : y.1 = x.1
      · -- W or E: go through SW / SE
        have hmid := south_survives hdx (y.2 - x.2) hc
        have c1 : Conn (passN A) (x.1 + 1, x.2) (x.1 + 1, x.2 + (y.2 - x.2)) :=
          near (by simpa using hS0) hmid (by simp) (by simp; omega)
        have c2 : Conn (passN A) (x.1 + 1, x.2 + (y.2 - x.2)) y :=
          near hmid hyB (by simp; omega) (by simp)
        exact c1.trans c2
      · exact near (by simpa using hS0) hyB (by simp; omega) (by simp; omega)
    · -- y deleted, x survives (symmetric)
      have hxB : x ∈ passN A := ⟨hx, hdx⟩
      have hnotN : x.1 ≠ y.1 - 1 := fun e => not_mem_of_Nrow hdy hx e (by omega)
      have hS0 := south_survives hdy 0 (by omega)
      by_cases hrow : x.1 = y.1
      · have hmid := south_survives hdy (x.2 - y.2) (by omega)
        have c1 : Conn (passN A) (y.1 + 1, y.2) (y.1 + 1, y.2 + (x.2 - y.2)) :=
          near (by simpa using hS0) hmid (by simp) (by simp; omega)
        have c2 : Conn (passN A) (y.1 + 1, y.2 + (x.2 - y.2)) x :=
          near hmid hxB (by simp; omega) (by simp)
        exact Conn.symm (c1.trans c2)
      · exact (near (by simpa using hS0) hxB (by simp; omega) (by simp; omega)).symm
    · exact step1 ⟨hx, hdx⟩ ⟨hy, hdy⟩ hadj
  · intro x hx
    unfold fN; split_ifs with hd
    · exact step1 hx (passN_sub A (by simpa using south_survives hd 0 (by omega)))
        ((adj8_iff _ _).2 ⟨by intro e; have := congrArg Prod.fst e; simp at this, by simp, by simp⟩)
    · exact Relation.ReflTransGen.refl

end Spike
#print axioms Spike.passN_components
