import Mathlib.Logic.Function.Basic
import Mathlib.Logic.Relation
import Mathlib.Tactic.Linarith

/-! Spike for C03-T1: union–find as in `_labeled.cpp` (`find` with path compression, `join` =
    `data[find i] = find j`), abstracted to "same root"; link and compress refine partition merge
    and identity. Parent array as a function for the spike. -/
namespace Spike

/-- `Root par i r`: following parents from `i` ends at the self-parent `r`. -/
inductive Root (par : ℕ → ℕ) : ℕ → ℕ → Prop
  | base {i} : par i = i → Root par i i
  | step {i r} : par i ≠ i → Root par (par i) r → Root par i r

theorem Root.isRoot {par : ℕ → ℕ} {i r : ℕ} (h : Root par i r) : par r = r := by
  induction h with
  | base h => exact h
  | step _ _ ih => exact ih

theorem Root.det {par : ℕ → ℕ} {i r r' : ℕ} (h : Root par i r) (h' : Root par i r') : r = r' := by
  induction h with
  | base hb =>
    cases h' with
    | base _ => rfl
    | step hn _ => exact absurd hb hn
  | step hn _ ih =>
    cases h' with
    | base hb => exact absurd hb hn
    | step _ h2 => exact ih h2

/-- link two distinct roots: `data[ri] = rj` -/
theorem link_root {par : ℕ → ℕ} {ri rj : ℕ} (hri : par ri = ri) (hrj : par rj = rj) (hne : ri ≠ rj)
    {x r : ℕ} (h : Root par x r) :
    Root (Function.update par ri rj) x (if r = ri then rj else r) := by
  have hrj' : Root (Function.update par ri rj) rj rj :=
    Root.base (by rw [Function.update_of_ne (Ne.symm hne)]; exact hrj)
  induction h with
  | @base i hb =>
    by_cases hi : i = ri
    · subst hi
      simp only [if_true]
      exact Root.step (by rw [Function.update_self]; exact Ne.symm hne)
        (by rw [Function.update_self]; exact hrj')
    · simp only [hi, if_false]
      exact Root.base (by rw [Function.update_of_ne hi]; exact hb)
  | @step i r hn _ ih =>
    have hi : i ≠ ri := fun e => hn (e ▸ hri)
    exact Root.step (by rw [Function.update_of_ne hi]; exact hn)
      (by rw [Function.update_of_ne hi]; exact ih)

/-- path compression of one node: `data[i] = root i` keeps every root -/
theorem compress_root {par : ℕ → ℕ} {i ri : ℕ} (hi : Root par i ri)
    {x r : ℕ} (h : Root par x r) : Root (Function.update par i ri) x r := by
  have hroot := hi.isRoot
  induction h with
  | @base x hb =>
    by_cases hx : x = i
    · subst hx
      have : ri = x := (hi.det (Root.base hb))
      subst this
      exact Root.base (by rw [Function.update_self])
    · exact Root.base (by rw [Function.update_of_ne hx]; exact hb)
  | @step x r hn hrest ih =>
    by_cases hx : x = i
    · subst hx
      have hr : r = ri := (Root.step hn hrest).det hi
      subst hr
      by_cases hxi : r = x
      · -- then x would be a root, contradiction with hn
        exact absurd (hxi ▸ hroot) hn
      · exact Root.step (by rw [Function.update_self]; exact hxi)
          (by rw [Function.update_self]
              exact Root.base (by rw [Function.update_of_ne hxi]; exact hroot))
    · exact Root.step (by rw [Function.update_of_ne hx]; exact hn)
        (by rw [Function.update_of_ne hx]; exact ih)

/-- same class -/
def Same (par : ℕ → ℕ) (x y : ℕ) : Prop := ∃ r, Root par x r ∧ Root par y r

/-- after `join i j` (distinct roots) the classes of `i` and `j` are merged and nothing else changes -/
theorem join_same {par : ℕ → ℕ} {ri rj : ℕ} (hri : par ri = ri) (hrj : par rj = rj) (hne : ri ≠ rj)
    {x y : ℕ} (hx : ∃ r, Root par x r) (hy : ∃ r, Root par y r) :
    Same (Function.update par ri rj) x y ↔
      (Same par x y ∨ (Root par x ri ∧ Root par y rj) ∨ (Root par x rj ∧ Root par y ri)) := by
  obtain ⟨rx, hrx⟩ := hx
  obtain ⟨ry, hry⟩ := hy
  have hx' := link_root hri hrj hne hrx
  have hy' := link_root hri hrj hne hry
  constructor
  · rintro ⟨r, h1, h2⟩
    have e1 := h1.det hx'
    have e2 := h2.det hy'
    by_cases a : rx = ri <;> by_cases b : ry = ri <;> simp only [a, b, if_true, if_false] at e1 e2
    · left; exact ⟨ri, a ▸ hrx, b ▸ hry⟩
    · right; left
      have : ry = rj := e2.symm.trans e1
      exact ⟨a ▸ hrx, this ▸ hry⟩
    · right; right
      have : rx = rj := e1.symm.trans e2
      exact ⟨this ▸ hrx, b ▸ hry⟩
    · left
      have : rx = ry := e1.symm.trans e2
      exact ⟨rx, hrx, this ▸ hry⟩
  · rintro (⟨r, h1, h2⟩ | ⟨h1, h2⟩ | ⟨h1, h2⟩)
    · have := link_root hri hrj hne h1
      have := link_root hri hrj hne h2
      exact ⟨_, ‹_›, ‹_›⟩
    · have a := link_root hri hrj hne h1
      have b := link_root hri hrj hne h2
      simp only [if_true, (Ne.symm hne), if_false] at a b
      exact ⟨rj, a, b⟩
    · have a := link_root hri hrj hne h1
      have b := link_root hri hrj hne h2
      simp only [if_true, (Ne.symm hne), if_false] at a b
      exact ⟨rj, a, b⟩
end Spike
#print axioms Spike.join_same
