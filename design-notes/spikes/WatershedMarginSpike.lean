import Mathlib.Data.Finset.Lattice.Fold
import Mathlib.Data.Fintype.Basic
import Mathlib.Algebra.Order.Group.Int
import Mathlib.Tactic.Linarith

/-! Spike for C04-T1: `margin_of` is 1-Lipschitz for the Chebyshev distance, is ≥ 0 exactly inside
    the image, hence a stored lower bound `m ≤ margin_of pos` with `step ≤ m` proves the neighbour
    is inside, and `m - step` is again a lower bound. Any dimension `d ≥ 1`. -/
namespace Spike
variable {d : ℕ} [NeZero d] (dim : Fin d → ℤ)

def axisMargin (n x : ℤ) : ℤ := min x (n - x - 1)
def marginOf (p : Fin d → ℤ) : ℤ :=
  Finset.univ.inf' Finset.univ_nonempty (fun i => axisMargin (dim i) (p i))
def inside (p : Fin d → ℤ) : Prop := ∀ i, 0 ≤ p i ∧ p i < dim i
/-- Chebyshev bound on an offset -/
def stepLe (δ : Fin d → ℤ) (st : ℤ) : Prop := ∀ i, |δ i| ≤ st

theorem inside_iff (p : Fin d → ℤ) : inside dim p ↔ 0 ≤ marginOf dim p := by
  unfold inside marginOf
  rw [Finset.le_inf'_iff]
  constructor
  · intro h i _; unfold axisMargin; have := h i; omega
  · intro h i; have := h i (Finset.mem_univ i); unfold axisMargin at this; omega

theorem margin_lipschitz (p δ : Fin d → ℤ) (st : ℤ) (hδ : stepLe δ st) :
    marginOf dim p - st ≤ marginOf dim (fun i => p i + δ i) := by
  unfold marginOf
  rw [Finset.le_inf'_iff]
  intro i _
  have h1 : Finset.univ.inf' Finset.univ_nonempty (fun i => axisMargin (dim i) (p i))
      ≤ axisMargin (dim i) (p i) := Finset.inf'_le _ (Finset.mem_univ i)
  have h2 := hδ i
  rw [abs_le] at h2
  unfold axisMargin at h1 ⊢
  dsimp only
  omega

/-- the shortcut taken when `margin - step ≥ 0` -/
theorem shortcut_sound (p δ : Fin d → ℤ) (st m : ℤ) (hδ : stepLe δ st)
    (hm : m ≤ marginOf dim p) (hnm : 0 ≤ m - st) :
    inside dim (fun i => p i + δ i) ∧ m - st ≤ marginOf dim (fun i => p i + δ i) := by
  have := margin_lipschitz dim p δ st hδ
  exact ⟨(inside_iff dim _).2 (by omega), by omega⟩

/-- the "update lower bound" line: `margin := max margin (nmargin - step)` stays a lower bound -/
theorem update_sound (p δ : Fin d → ℤ) (st m : ℤ) (hδ : stepLe δ st) (hm : m ≤ marginOf dim p) :
    max m (marginOf dim (fun i => p i + δ i) - st) ≤ marginOf dim p := by
  have hneg : stepLe (fun i => -δ i) st := fun i => by simpa using hδ i
  have := margin_lipschitz dim (fun i => p i + δ i) (fun i => -δ i) st hneg
  have e : (fun i => (p i + δ i) + -δ i) = p := by funext i; omega
  rw [e] at this
  exact max_le hm this
end Spike
#print axioms Spike.update_sound
