import S.Basic
namespace Spike

theorem mod_unique (cc len r k : Int) (h0 : 0 ≤ r) (h1 : r < len) (hk : cc = r + len * k) : cc % len = r := by
  subst hk
  rw [Int.add_mul_emod_self_left]
  exact Int.emod_eq_of_lt h0 h1

theorem tdiv_decomp (a b : Int) (ha : 0 ≤ a) (hb : 0 < b) :
    ∃ m, a = b * a.tdiv b + m ∧ 0 ≤ m ∧ m < b := by
  refine ⟨a.tmod b, ?_, Int.tmod_nonneg _ ha, Int.tmod_lt_of_pos _ hb⟩
  have := Int.mul_tdiv_add_tmod a b
  omega

theorem wrap_spec' (cc len : Int) (h : 0 < len) :
    fixOffset .wrap cc len = some (cc % len) := by
  unfold fixOffset
  simp only
  by_cases hl : len ≤ 1
  · have : len = 1 := by omega
    subst this
    simp only [Int.emod_one]
    grind
  · by_cases h1 : cc < 0
    · simp only [h1, hl, if_true, if_false]
      obtain ⟨m, hm, hm0, hm1⟩ := tdiv_decomp (-cc) len (by omega) h
      generalize (-cc).tdiv len = q at hm ⊢
      congr 1
      symm
      split
      · exact mod_unique cc len _ (-(q+1)) (by omega) (by omega) (by rw [Int.mul_neg, Int.mul_add]; omega)
      · exact mod_unique cc len _ (-q) (by omega) (by omega) (by rw [Int.mul_neg]; omega)
    · by_cases h2 : cc ≥ len
      · simp only [h1, h2, hl, if_true, if_false]
        obtain ⟨m, hm, hm0, hm1⟩ := tdiv_decomp cc len (by omega) h
        generalize cc.tdiv len = q at hm ⊢
        congr 1; symm
        exact mod_unique cc len _ q (by omega) (by omega) (by omega)
      · simp only [h1, h2, if_false]
        congr 1; symm
        exact Int.emod_eq_of_lt (by omega) (by omega)

theorem nearest_range (cc len : Int) (h : 0 < len) :
    ∀ r, fixOffset .nearest cc len = some r → 0 ≤ r ∧ r < len := by
  intro r hr; unfold fixOffset at hr; simp only at hr; grind
end Spike
