"""Catalogue of the public mahotas API with generators of VALID calls (the documented domain) — shared by C10
(ASan sweep on valid inputs) and C11 (the same calls with arguments replaced by degenerate values).

A call is a JSON spec understood by harness/iso_worker.py:  {"fn": dotted name, "args": [A…], "kw": {name: A}}.
Everything derives from the `rng` handed in, so a case replays from VERIF_SEED."""
from __future__ import annotations

INT = ['bool', 'uint8', 'uint16', 'uint32', 'uint64', 'int8', 'int16', 'int32', 'int64']
UINT = ['uint8', 'uint16', 'uint32']
FLT = ['float32', 'float64']
LAYOUTS = ['C', 'F', 'strided', 'negstride', 'offset', 'transposed', 'readonly']
MODES = ['nearest', 'wrap', 'reflect', 'mirror', 'constant', 'ignore']


def A(**k):
    return {'a': k}


def V(v):
    return {'v': v}


def E(e):
    return {'e': e}


class G:
    """generator of valid arguments; sizes 1..40 per axis (total size capped), 1-4 D, 7 layouts"""

    def __init__(self, rng, maxlen=40, cap=6000):
        self.r = rng
        self.maxlen = maxlen
        self.cap = cap

    def seed(self):
        return self.r.randrange(1 << 30)

    def ndim(self, lo=1, hi=4):
        return self.r.choice([d for d in (1, 2, 2, 2, 3, 3, 4) if lo <= d <= hi])

    def length(self, hi=None):
        hi = hi or self.maxlen
        u = self.r.random()
        if u < 0.35:
            return self.r.choice([1, 2, 3])
        if u < 0.7:
            return self.r.randint(1, min(hi, 9))
        return self.r.randint(1, hi)

    def shape(self, ndim=None, lo=1, hi=None, minlen=1):
        ndim = ndim or self.ndim()
        for _ in range(50):
            s = [max(minlen, self.length(hi)) for _ in range(ndim)]
            n = 1
            for x in s:
                n *= x
            if n <= self.cap:
                return s
        return [max(minlen, 2)] * ndim

    def layout(self):
        return self.r.choice(LAYOUTS) if self.r.random() < 0.6 else 'C'

    def arr(self, dtype, shape, fill='rand', **k):
        if dtype in FLT and fill in ('rand', 'bool', 'labels') and 'negzero' not in k and self.r.random() < 0.4:
            k['negzero'] = 1        # float images with zeros of either sign (see harness/specs.py: build_array)
        return A(dtype=dtype, shape=list(shape), fill=fill, seed=self.seed(), layout=k.pop('layout', None) or self.layout(), **k)

    def dtype(self, pool=None):
        return self.r.choice(pool or (INT + FLT))

    def img(self, ndim=None, pool=None, fill=None, **k):
        dt = self.dtype(pool)
        shape = k.pop('shape', None) or self.shape(ndim, **{kk: k.pop(kk) for kk in ('hi', 'minlen') if kk in k})
        if fill is None:
            fill = 'bool' if dt == 'bool' else self.r.choice(['rand', 'rand', 'limits']) if dt in INT else self.r.choice(['rand', 'float', 'unit'])
        return self.arr(dt, shape, fill, **k)

    def se(self, shape, dtype='bool', none_ok=True, vals=None):
        """structuring element / footprint of the rank of `shape`: smaller than, equal to or larger than the image"""
        u = self.r.random()
        if none_ok and u < 0.3:
            return V(None)
        bs = []
        for s in shape:
            v = self.r.random()
            if v < 0.45:
                bs.append(3)
            elif v < 0.75:
                bs.append(self.r.choice([1, 2, 3, 4, 5]))
            elif v < 0.85:
                bs.append(min(s + self.r.choice([0, 1, 2]), 12))
            elif v < 0.9:
                bs.append(min(2 * s + self.r.choice([2, 3, 5]), 15))      # half-width beyond the whole axis
            else:
                bs.append(max(1, s - 1) if s <= 12 else 7)
        n = 1
        for x in bs:
            n *= x
        if n > 400:
            bs = [min(b, 3) for b in bs]
        if vals == 'hitmiss':
            return self.arr(dtype, bs, 'rand', hi=2, layout=self.r.choice(['C', 'C', 'F', 'readonly']))
        w = self.r.random()
        if w < 0.07:      # the empty element and the centre-only element: kernels have early exits for them
            return self.arr(dtype, bs, 'zeros', layout='C')
        if w < 0.14:
            return self.arr(dtype, bs, 'centre', layout='C')
        return self.arr(dtype, bs, 'bool', p=self.r.choice([0.3, 0.7, 1.0]), layout=self.r.choice(['C', 'C', 'F', 'strided', 'readonly']))

    def mode(self):
        return V(self.r.choice(MODES))


def _shape_of(a):
    return a['a']['shape']


def _like(g, a, dtype=None, fill=None, **k):
    d = a['a']
    return g.arr(dtype or d['dtype'], d['shape'], fill or d['fill'], **k)


# ---------------------------------------------------------------------------------------------------------------
# the table: name -> function(g) -> (args, kw)

def _morph1(name, pool=INT):
    def f(g):
        a = g.img(pool=pool)
        return [a, g.se(_shape_of(a))], {}
    return name, f


def _morph_out(name):
    def f(g):
        a = g.img(pool=INT)
        kw = {}
        if g.r.random() < 0.3:
            kw['out'] = _like(g, a, fill='zeros', layout='C')
        return [a, g.se(_shape_of(a))], kw
    return name, f


def _cond(name):
    def f(g):
        a = g.img(pool=INT)
        b = _like(g, a)
        kw = {}
        if name.endswith('cdilate'):
            kw['n'] = V(g.r.choice([1, 1, 2, 3]))
        return [a, b, g.se(_shape_of(a))], kw
    return name, f


def _cwatershed(g):
    s = g.shape(g.ndim(1, 3))
    surf = g.arr(g.dtype(UINT + ['int16', 'int32', 'float32', 'float64', 'uint64', 'int64', 'bool', 'int8']), s, 'rand', hi=g.r.choice([2, 6, 200]))
    markers = g.arr(g.r.choice(['int32', 'int64', 'uint8', 'uint16', 'bool']), s, 'labels', hi=3, p=0.1)
    return [surf, markers, g.se(s)], {'return_lines': V(g.r.random() < 0.4)}


def _disk(g):
    return [V(g.r.choice([0, 1, 2, 3, 5, 8])), V(g.r.choice([1, 2, 2, 3, 4]))], {}


def _get_se(g):
    a = g.img()
    nd = len(_shape_of(a))
    opts = [V(None), V(1), V(nd), g.se(_shape_of(a), none_ok=False)]
    if nd == 2:
        opts += [V(4), V(8)]
    if nd == 3:
        opts += [V(6), V(26)]
    return [a, g.r.choice(opts)], {}


def _hitmiss(g):
    a = g.img(ndim=g.ndim(1, 3), pool=['bool', 'uint8', 'int32', 'uint16', 'int64', 'int8'], fill='bool')
    return [a, g.se(_shape_of(a), dtype=a['a']['dtype'] if a['a']['dtype'] != 'bool' else 'uint8', none_ok=False, vals='hitmiss')], {}


def _majority(g):
    a = g.arr('bool', g.shape(2), 'bool')
    return [a], {'N': V(g.r.choice([1, 3, 3, 5, 7, 2, 4]))}


def _subm(g):
    a = g.img(pool=INT[1:] + FLT)
    return [a, _like(g, a)], {}


def _labels(g, ndim=None, pool=None, hi=None, **k):
    s = k.pop('shape', None) or g.shape(ndim)
    return g.arr(g.r.choice(pool or ['int32', 'int64', 'uint8', 'uint16', 'uint32', 'intc', 'uint64', 'int16']), s, 'labels',
                 hi=hi or g.r.choice([1, 3, 7, 20]), **k)


def _lab1(name, **kwf):
    def f(g):
        return [_labels(g)], {k: v(g) for k, v in kwf.items()}
    return name, f


def _borders(g):
    l = _labels(g)
    return [l, g.se(_shape_of(l))], {'mode': g.mode()}


def _border(g):
    l = _labels(g, hi=3)
    return [l, V(g.r.choice([0, 1, 2, 3])), V(g.r.choice([0, 1, 2, 5])), g.se(_shape_of(l))], {}


def _bwperim(name):
    def f(g):
        return [g.arr('bool', g.shape(2), 'bool')], {'n': V(g.r.choice([4, 8])), 'mode': g.mode()}
    return name, f


def _label(g):
    a = g.img(pool=INT + FLT, fill=g.r.choice(['bool', 'rand']))
    return [a, g.se(_shape_of(a))], {}


def _labfold(name):
    def f(g):
        a = g.img(pool=INT[1:] + FLT)
        l = _labels(g, shape=_shape_of(a))
        return [a, l], {}
    return name, f


def _filter_labeled(g):
    return [_labels(g, ndim=g.ndim(1, 3))], {'remove_bordering': V(g.r.random() < 0.5), 'min_size': V(g.r.choice([None, 1, 3])),
                                            'max_size': V(g.r.choice([None, 5, 50]))}


def _is_same(g):
    a = _labels(g)
    return [a, _labels(g, shape=_shape_of(a))], {}


def _remove_bordering(g):
    l = _labels(g, ndim=2)
    return [l], {'rsize': V(g.r.choice([1, 1, 2, 5]))}


def _remove_regions(g):
    l = _labels(g, hi=7)
    return [l, V(g.r.sample(range(0, 9), g.r.randint(0, 4)))], {'inplace': V(False)}


def _remove_regions_where(g):
    l = _labels(g, hi=7)
    return [l, E('np.arange(8) %% %d == 0' % g.r.choice([2, 3]))], {}


def _gvoronoi(g):
    return [_labels(g, ndim=g.ndim(1, 3))], {}


def _slic(g):
    s = g.shape(2, hi=24) + [g.r.choice([1, 3, 3, 4])]
    return [g.arr(g.dtype(FLT + ['uint8']), s, 'rand', hi=255)], {'spacer': V(g.r.choice([1, 2, 4, 16, 30])), 'm': V(g.r.choice([1.0, 0.1, 10.])),
                                                                 'max_iters': V(g.r.choice([1, 8, 128]))}


def _line(g):
    s = g.shape(2)
    p = lambda: [g.r.randrange(s[0]), g.r.randrange(s[1])]
    return [V(p()), V(p()), g.arr(g.dtype(['uint8', 'int32', 'float64', 'bool']), s, 'zeros', layout='C')], {}


def _fill_polygon(g):
    s = g.shape(2)
    pts = [[g.r.randrange(s[0]), g.r.randrange(s[1])] for _ in range(g.r.randint(1, 7))]
    return [V(pts), g.arr(g.dtype(['uint8', 'int32', 'float64', 'bool']), s, 'zeros', layout='C')], {}


def _bw2(name, minlen=1):
    def f(g):
        return [g.arr('bool', g.shape(2, minlen=minlen), 'bool', p=g.r.choice([0.1, 0.5, 0.9]))], {}
    return name, f


def _shift(g):
    a = g.img(ndim=g.ndim(1, 3), pool=FLT + ['uint8', 'int32'])
    nd = len(_shape_of(a))
    return [a, V([g.r.choice([0, 1, -1, 0.5, 2.25, -3.5, 50]) for _ in range(nd)])], {'order': V(g.r.choice([0, 1, 2, 3, 4, 5])), 'mode': V(g.r.choice(['nearest', 'wrap', 'reflect', 'mirror', 'constant']))}


def _spline(g):
    a = g.img(ndim=g.ndim(1, 3), pool=FLT + ['uint8', 'int32'])
    return [a], {'order': V(g.r.choice([2, 3, 4, 5]))}


def _spline1d(g):
    a = g.img(ndim=g.ndim(1, 3), pool=FLT + ['uint8', 'int32'])
    nd = len(_shape_of(a))
    return [a], {'order': V(g.r.choice([2, 3, 4, 5])), 'axis': V(g.r.randrange(-nd, nd))}


def _zoom(g):
    a = g.img(ndim=g.ndim(1, 3), pool=FLT + ['uint8', 'int32'], hi=16)
    nd = len(_shape_of(a))
    z = g.r.choice([0.5, 1.0, 2.0, 1.5, 0.3, 3.0])
    return [a, V(z if g.r.random() < 0.5 else [g.r.choice([0.5, 1.0, 2.0, 1.3]) for _ in range(nd)])], {'order': V(g.r.choice([0, 1, 2, 3, 5])), 'mode': V(g.r.choice(['nearest', 'wrap', 'reflect', 'mirror', 'constant']))}


def _surf_img(g, minlen=1):
    return g.arr(g.dtype(FLT + ['uint8', 'int32']), g.shape(2, minlen=minlen), 'rand', hi=255)


def _surf(g):
    return [_surf_img(g)], {'nr_octaves': V(g.r.choice([1, 2, 4])), 'nr_scales': V(g.r.choice([3, 4, 6])), 'initial_step_size': V(g.r.choice([1, 2])),
                            'threshold': V(g.r.choice([0.1, 0.0, 10.])), 'max_points': V(g.r.choice([1024, 3])), 'descriptor_only': V(g.r.random() < 0.5)}


def _interest_points(g):
    return [_surf_img(g)], {'nr_octaves': V(g.r.choice([1, 2, 4])), 'nr_scales': V(g.r.choice([3, 4, 6])), 'threshold': V(g.r.choice([0.1, 0.0])),
                            'max_points': V(g.r.choice([None, 5]))}


def _descriptors(g):
    a = _surf_img(g)
    s = _shape_of(a)
    pts = [[g.r.uniform(0, s[0]), g.r.uniform(0, s[1]), g.r.choice([1., 2., 4.]), g.r.uniform(-1, 1), g.r.choice([-1., 1.])] for _ in range(g.r.randint(0, 5))]
    return [a, E('np.array(%r, float).reshape((-1,5))' % (pts,))], {'descriptor_only': V(g.r.random() < 0.5)}


def _dense(g):
    return [_surf_img(g), V(g.r.choice([1, 2, 5, 16]))], {'scale': V(g.r.choice([None, 1.0, 4.0])), 'include_interest_point': V(g.r.random() < 0.5)}


def _integral(g):
    return [g.arr(g.dtype(FLT + ['uint8', 'int32']), g.shape(2), 'rand')], {}


def _haralick(g):
    a = g.arr(g.dtype(UINT + ['int32', 'int64', 'bool', 'int8']), g.shape(g.r.choice([2, 2, 3]), hi=20), 'rand', hi=g.r.choice([1, 5, 30]))
    return [a], {'ignore_zeros': V(g.r.random() < 0.3), 'compute_14th_feature': V(g.r.random() < 0.3), 'return_mean': V(g.r.random() < 0.3),
                 'distance': V(g.r.choice([1, 1, 2, 5]))}


def _cooccurence(g):
    nd = g.r.choice([2, 2, 3])
    a = g.arr(g.dtype(UINT + ['int32', 'int64', 'bool', 'int8']), g.shape(nd, hi=20), 'rand', hi=g.r.choice([1, 5, 30]))
    return [a, V(g.r.randrange(4 if nd == 2 else 13))], {'symmetric': V(g.r.random() < 0.5), 'distance': V(g.r.choice([1, 1, 2, 7]))}


def _rgb(name):
    def f(g):
        s = g.shape(2) + [3]
        return [g.arr(g.dtype(['uint8', 'float64', 'float32', 'uint16']), s, 'rand', hi=255)], {}
    return name, f


def _thresh(name):
    def f(g):
        return [g.arr(g.dtype(UINT + ['bool']), g.shape(), 'rand', hi=g.r.choice([1, 7, 255]))], {'ignore_zeros': V(g.r.random() < 0.3)}
    return name, f


def _soft(g):
    return [g.img(pool=FLT + ['int32', 'uint8']), V(g.r.choice([0, 1, 2.5]))], {}


def _bernsen(g):
    return [g.arr(g.dtype(UINT), g.shape(2), 'rand', hi=255), V(g.r.choice([1, 2, 5])), V(g.r.choice([0, 10, 100]))], {}


def _gbernsen(g):
    a = g.arr(g.dtype(UINT), g.shape(2), 'rand', hi=255)
    return [a, g.se(_shape_of(a), none_ok=False), V(g.r.choice([0, 10, 100])), V(128)], {}


def _sobel(g):
    return [g.img(ndim=2, pool=FLT + ['uint8', 'int32', 'bool'])], {'just_filter': V(g.r.random() < 0.5)}


def _dog(g):
    return [g.img(ndim=2, pool=FLT + ['uint8', 'int32'])], {'sigma1': V(g.r.choice([0.5, 1, 2])), 'just_filter': V(g.r.random() < 0.5)}


def _imresize(g):
    a = g.img(ndim=g.ndim(1, 3), pool=FLT + ['uint8'], hi=16)
    nd = len(_shape_of(a))
    ns = g.r.choice([0.5, 2.0, 1.0, [g.r.randint(1, 12) for _ in range(nd)]])
    return [a, V(ns)], {'order': V(g.r.choice([0, 1, 3]))}


def _resize_to(g):
    a = g.img(ndim=g.ndim(1, 3), pool=FLT + ['uint8'], hi=16)
    nd = len(_shape_of(a))
    return [a, V([g.r.randint(1, 12) for _ in range(nd)])], {'order': V(g.r.choice([0, 1, 3]))}


def _resize_rgb_to(g):
    s = g.shape(2, hi=16) + [3]
    return [g.arr(g.dtype(FLT + ['uint8']), s, 'rand', hi=255), V([g.r.randint(1, 12), g.r.randint(1, 12)])], {}


def _fullhist(g):
    return [g.arr(g.dtype(UINT + ['uint64', 'bool']), g.shape(), 'rand', hi=g.r.choice([1, 7, 255]))], {}


def _moments(g):
    return [g.img(ndim=2, pool=FLT + ['uint8', 'int32', 'bool']), V(g.r.choice([0, 1, 2])), V(g.r.choice([0, 1, 3]))], {'normalize': V(g.r.random() < 0.3)}


def _convolve(g):
    a = g.img(pool=INT + FLT)
    s = _shape_of(a)
    w = g.se(s, dtype=g.r.choice(['float64', 'float32', 'int32', a['a']['dtype']]), none_ok=False)
    w['a']['fill'] = g.r.choice(['rand', 'bool', 'signed', 'unit'])
    return [a, w], {'mode': g.mode(), 'cval': V(g.r.choice([0.0, 1.0, 3.5]))}


def _convolve1d(g):
    a = g.img(pool=INT[1:] + FLT)
    s = _shape_of(a)
    ax = g.r.randrange(len(s))
    n = g.r.choice([1, 2, 3, 4, 5, 7, s[ax], s[ax] + 1, 2 * s[ax] + 1, 17])
    return [a, g.arr('float64', [n], g.r.choice(['unit', 'ones', 'signed']), layout=g.r.choice(['C', 'strided', 'readonly'])), V(ax)], {'mode': g.mode()}


def _find(g):
    dt = g.dtype(UINT + ['int32', 'bool', 'float64', 'float64', 'float32', 'float64'])
    kz = dict(negzero=1) if dt in FLT else {}      # zeros of either sign in image AND template: equal values, different bits
    a = g.arr(dt, g.shape(2), 'rand', hi=1, **kz)
    s = _shape_of(a)
    small = g.r.random() < 0.6                     # small templates: occurrences exist
    t = g.arr(dt, [g.r.randint(1, 2 if small else max(1, s[0])), g.r.randint(1, 2 if small else max(1, s[1]))], 'rand', hi=1, **kz)
    return [a, t], {}


def _filt(name, need_rank=False, none_ok=False):
    def f(g):
        a = g.img(pool=INT[1:] + FLT)
        bc = g.se(_shape_of(a), none_ok=none_ok)
        args = [a, bc]
        if need_rank:
            args.append(V(0))          # rank 0 is valid for every non-empty footprint
            bc['a']['p'] = 1.0
        return args, {'mode': g.mode(), 'cval': V(g.r.choice([0.0, 2.0]))}
    return name, f


def _template_match(g):
    a = g.img(pool=INT[1:] + FLT)
    t = g.se(_shape_of(a), dtype=a['a']['dtype'], none_ok=False)
    t['a']['fill'] = 'rand'
    return [a, t], {'mode': g.mode()}


def _gauss1d(g):
    a = g.img(pool=FLT + ['uint8', 'int32'])
    nd = len(_shape_of(a))
    return [a, V(g.r.choice([0.5, 1.0, 2.0, 4.0]))], {'axis': V(g.r.randrange(-nd, nd)), 'order': V(g.r.choice([0, 0, 1, 2, 3])), 'mode': g.mode()}


def _gauss(g):
    a = g.img(pool=FLT + ['uint8', 'int32'])
    return [a, V(g.r.choice([0.5, 1.0, 2.0, 4.0]))], {'order': V(g.r.choice([0, 0, 1, 2])), 'mode': g.mode()}


def _laplacian(g):
    return [g.img(ndim=2, pool=FLT + ['uint8', 'int32'])], {'alpha': V(g.r.choice([0.2, 0.0, 1.0]))}


def _wav(name, code=False):
    def f(g):
        a = g.img(ndim=2, pool=FLT + ['uint8', 'int32'])
        args = [a]
        if code:
            args.append(V('D%d' % g.r.choice(range(2, 22, 2))))
        return args, {}
    return name, f


def _wavelet_center(g):
    return [g.img(ndim=2, pool=FLT + ['uint8'])], {'border': V(g.r.choice([0, 1, 4]))}


def _wavelet_decenter(g):
    a = g.img(ndim=2, pool=FLT)
    s = _shape_of(a)
    return [a, V([max(1, s[0] - g.r.choice([0, 1, 2])), max(1, s[1] - g.r.choice([0, 1, 2]))])], {}


def _lbp(name):
    def f(g):
        a = g.img(ndim=2, pool=FLT + ['uint8', 'int32', 'bool'])
        return [a, V(g.r.choice([1, 2, 3.5, 8])), V(g.r.choice([4, 6, 8, 12]))], {'ignore_zeros': V(g.r.random() < 0.3)}
    return name, f


def _tas(name):
    def f(g):
        return [g.arr(g.dtype(UINT), g.shape(g.r.choice([2, 2, 3]), hi=20), 'rand', hi=255)], {}
    return name, f


def _zernike(g):
    return [g.img(ndim=2, pool=FLT + ['uint8', 'bool']), V(g.r.choice([1, 3, 10, 50]))], {'degree': V(g.r.choice([0, 1, 4, 8, 12]))}


def _stretch(g):
    return [g.img(pool=FLT + ['uint8', 'int32', 'uint16'])], {}


def _stretch_rgb(g):
    s = g.shape(2) + [3]
    return [g.arr(g.dtype(FLT + ['uint8', 'uint16']), s, 'rand', hi=255)], {}


def _as_rgb(g):
    s = g.shape(2)
    ch = lambda: g.r.choice([V(None), g.arr(g.dtype(FLT + ['uint8']), s, 'rand', hi=255)])
    return [g.arr('uint8', s, 'rand', hi=255), ch(), ch()], {}


def _overlay(g):
    s = g.shape(2)
    return [g.arr(g.dtype(['uint8', 'float64']), s, 'rand', hi=255)], {'red': g.arr('bool', s, 'bool'), 'blue': g.r.choice([V(None), g.arr('bool', s, 'bool')])}


def _bbox(name):
    def f(g):
        return [g.img(pool=INT, fill='bool')], {'border': V(g.r.choice([None, 0, 1, 3]))}
    return name, f


def _euler(g):
    return [g.arr('bool', g.shape(2), 'bool')], {'n': V(g.r.choice([4, 8]))}


def _thin(g):
    return [g.arr('bool', g.shape(2), 'bool', p=g.r.choice([0.3, 0.7, 0.95]))], {}


def _distance(g):
    return [g.arr(g.r.choice(['bool', 'bool', 'uint8', 'int32']), g.shape(), 'bool', p=g.r.choice([0.5, 0.9, 1.0, 0.0]))], {'metric': V(g.r.choice(['euclidean2', 'euclidean']))}


def _center_of_mass(g):
    a = g.img(pool=INT + FLT, fill=None)
    kw = {}
    if g.r.random() < 0.6:
        kw['labels'] = _labels(g, shape=_shape_of(a))
    return [a], kw


def _count1s(g):
    return [g.img(pool=['uint8', 'uint32', 'int32', 'uint64'])], {}


ENTRIES = dict([
    _morph_out('mahotas.erode'), _morph_out('mahotas.dilate'), _morph1('mahotas.open'), _morph1('mahotas.close'),
    _morph1('mahotas.morph.tophat_open', INT[1:]), _morph1('mahotas.morph.tophat_close', INT[1:]),
    _cond('mahotas.cerode'), _cond('mahotas.cdilate'),
    ('mahotas.close_holes', lambda g: (lambda a: ([a, g.se(_shape_of(a))], {}))(g.arr('bool', g.shape(g.ndim(1, 3)), 'bool'))),
    ('mahotas.cwatershed', _cwatershed), ('mahotas.disk', _disk), ('mahotas.get_structuring_elem', _get_se),
    ('mahotas.hitmiss', _hitmiss),
    _morph1('mahotas.locmax', INT + FLT), _morph1('mahotas.locmin', INT + FLT), _morph1('mahotas.regmax', INT + FLT), _morph1('mahotas.regmin', INT + FLT),
    ('mahotas.majority_filter', _majority), ('mahotas.morph.subm', _subm),
    _lab1('mahotas.labeled.bbox', as_slice=lambda g: V(g.r.random() < 0.3)), ('mahotas.labeled.borders', _borders), ('mahotas.labeled.border', _border),
    _bwperim('mahotas.labeled.bwperim'), _bwperim('mahotas.labeled.perimeter'), ('mahotas.labeled.filter_labeled', _filter_labeled),
    ('mahotas.label', _label), _labfold('mahotas.labeled.labeled_sum'), _labfold('mahotas.labeled.labeled_max'), _labfold('mahotas.labeled.labeled_min'),
    _lab1('mahotas.labeled.labeled_size'), _lab1('mahotas.labeled.relabel'), ('mahotas.labeled.is_same_labeling', _is_same),
    ('mahotas.labeled.remove_bordering', _remove_bordering), ('mahotas.labeled.remove_regions', _remove_regions),
    ('mahotas.labeled.remove_regions_where', _remove_regions_where),
    ('mahotas.segmentation.gvoronoi', _gvoronoi), ('mahotas.segmentation.slic', _slic),
    ('mahotas.polygon.line', _line), ('mahotas.polygon.fill_polygon', _fill_polygon),
    _bw2('mahotas.polygon.convexhull'), _bw2('mahotas.polygon.fill_convexhull'),
    ('mahotas.interpolate.shift', _shift), ('mahotas.interpolate.spline_filter', _spline), ('mahotas.interpolate.spline_filter1d', _spline1d),
    ('mahotas.interpolate.zoom', _zoom),
    ('mahotas.features.surf.surf', _surf), ('mahotas.features.surf.interest_points', _interest_points), ('mahotas.features.surf.descriptors', _descriptors),
    ('mahotas.features.surf.dense', _dense), ('mahotas.features.surf.integral', _integral),
    ('mahotas.features.texture.haralick', _haralick), ('mahotas.features.texture.cooccurence', _cooccurence),
    _rgb('mahotas.colors.rgb2gray'), _rgb('mahotas.colors.rgb2lab'), _rgb('mahotas.colors.rgb2sepia'), _rgb('mahotas.colors.rgb2xyz'),
    _rgb('mahotas.colors.xyz2lab'), _rgb('mahotas.colors.xyz2rgb'),
    _thresh('mahotas.thresholding.otsu'), _thresh('mahotas.thresholding.rc'), ('mahotas.thresholding.soft_threshold', _soft),
    ('mahotas.thresholding.bernsen', _bernsen), ('mahotas.thresholding.gbernsen', _gbernsen),
    _bw2('mahotas.features.shape.roundness'), _bw2('mahotas.features.shape.eccentricity'), _bw2('mahotas.features.shape.ellipse_axes'),
    ('mahotas.edge.sobel', _sobel), ('mahotas.edge.dog', _dog),
    ('mahotas.resize.imresize', _imresize), ('mahotas.resize.resize_to', _resize_to), ('mahotas.resize.resize_rgb_to', _resize_rgb_to),
    ('mahotas.histogram.fullhistogram', _fullhist), ('mahotas.features.moments.moments', _moments),
    ('mahotas.convolve', _convolve), ('mahotas.convolve1d', _convolve1d), ('mahotas.find', _find),
    _filt('mahotas.mean_filter'), _filt('mahotas.median_filter', none_ok=True), _filt('mahotas.rank_filter', need_rank=True),
    ('mahotas.template_match', _template_match), ('mahotas.gaussian_filter1d', _gauss1d), ('mahotas.gaussian_filter', _gauss),
    ('mahotas.laplacian_2D', _laplacian),
    _wav('mahotas.haar'), _wav('mahotas.ihaar'), _wav('mahotas.daubechies', True), _wav('mahotas.idaubechies', True),
    ('mahotas.wavelet_center', _wavelet_center), ('mahotas.wavelet_decenter', _wavelet_decenter),
    _lbp('mahotas.features.lbp.lbp'), _lbp('mahotas.features.lbp.lbp_transform'), ('mahotas.features.lbp.count_binary1s', _count1s),
    _tas('mahotas.features.tas.tas'), _tas('mahotas.features.tas.pftas'),
    ('mahotas.features.zernike.zernike_moments', _zernike),
    ('mahotas.stretch.stretch', _stretch), ('mahotas.stretch.stretch_rgb', _stretch_rgb), ('mahotas.stretch.as_rgb', _as_rgb), ('mahotas.stretch.overlay', _overlay),
    _bbox('mahotas.bbox.bbox'), _bbox('mahotas.bbox.croptobbox'),
    ('mahotas.euler.euler', _euler), ('mahotas.thin.thin', _thin), ('mahotas.distance.distance', _distance),
    ('mahotas.center_of_mass.center_of_mass', _center_of_mass),
])

# functions without native code behind them (pure numpy): kept in C11's sweep, skipped by C10's
PURE_PYTHON = {'mahotas.colors.rgb2gray', 'mahotas.colors.rgb2lab', 'mahotas.colors.rgb2sepia', 'mahotas.colors.rgb2xyz', 'mahotas.colors.xyz2lab',
               'mahotas.colors.xyz2rgb', 'mahotas.thresholding.soft_threshold', 'mahotas.stretch.stretch', 'mahotas.stretch.stretch_rgb',
               'mahotas.stretch.as_rgb', 'mahotas.stretch.overlay', 'mahotas.wavelet_center', 'mahotas.wavelet_decenter',
               'mahotas.features.lbp.count_binary1s', 'mahotas.disk'} - {'mahotas.disk'}


def directed_extreme_calls(rng):
    """valid calls at the corners of the documented domain that random generation hits too rarely: binary and grey
    morphology on narrow images with elements far wider than the image (every offset on one side leaves the image),
    in both orientations, C-contiguous (binary fast path) and not"""
    out = []
    for fn in ('mahotas.erode', 'mahotas.dilate', 'mahotas.open', 'mahotas.close', 'mahotas.cerode', 'mahotas.cdilate'):
        if fn not in ENTRIES:
            continue
        for tall in (True, False):
            a, b = rng.randint(6, 11), rng.randint(1, 3)
            shape = [a, b] if tall else [b, a]
            wide = 2 * b + rng.choice([3, 5, 7])
            bs = [rng.choice([1, 3]), wide] if tall else [wide, rng.choice([1, 3])]
            for dt, lay in (('bool', 'C'), (rng.choice(['bool', 'uint8', 'int16']), rng.choice(['F', 'strided', 'C']))):
                img = A(dtype=dt, shape=shape, fill='bool' if dt == 'bool' else 'rand', seed=rng.randrange(1 << 30), layout=lay)
                se = A(dtype=dt, shape=bs, fill='ones', seed=0, layout='C')
                if fn in ('mahotas.cerode', 'mahotas.cdilate'):
                    g = A(dtype=dt, shape=shape, fill='bool' if dt == 'bool' else 'rand', seed=rng.randrange(1 << 30), layout='C')
                    out.append(dict(fn=fn, args=[img, g, se], kw={}))
                else:
                    out.append(dict(fn=fn, args=[img, se], kw={}))
    return out


def valid_call(rng, fn=None, **gkw):
    g = G(rng, **gkw)
    fn = fn or rng.choice(sorted(ENTRIES))
    args, kw = ENTRIES[fn](g)
    return dict(fn=fn, args=args, kw=kw)


# ---------------------------------------------------------------------------------------------------------------
# C11: the degenerate grammar. A valid call is turned into a malformed one by replacing some of its arguments.

DEGENERATE_DTYPES = ['float16', 'complex64', 'complex128', 'object', 'U3', 'S2', 'datetime64[s]', 'timedelta64[s]', 'longdouble',
                     [['a', 'i4'], ['b', 'f8']],
                     # non-native byte order: same type number as the native dtype, other bytes in memory
                     '>i4', '>u2', '>f8', '>i8', '>f4', '>u4']
EXTREME_SCALARS = [('zero', V(0)), ('neg1', V(-1)), ('neg-big', V(-(2 ** 31) - 1)), ('big31', V(2 ** 31 - 1)), ('big32', V(2 ** 31)),
                   ('big63', V(2 ** 63 - 1)), ('big64', V(2 ** 63)), ('big65', V(2 ** 64 + 1)), ('neg-huge', V(-(2 ** 64))),
                   ('frac', V(2.5)), ('neg-frac', V(-0.5)), ('nan', E("float('nan')")), ('inf', E("float('inf')")), ('neg-inf', E("float('-inf')")),
                   ('huge-float', V(1e300)), ('tiny-float', V(1e-300)), ('none', V(None)), ('str', V('x')), ('list', V([1, 2])), ('true', V(True)),
                   ('empty-tuple', E('()')), ('array', E('np.arange(3)')), ('complex', E('1j')), ('one', V(1)), ('two', V(2))]
BAD_STRINGS = [('nosuch', V('nosuch')), ('empty', V('')), ('int', V(5)), ('none', V(None)), ('bytes', E("b'reflect'")), ('list', V(['reflect'])),
               ('upper', V('REFLECT')), ('D3', V('D3')), ('D22', V('D22')), ('D0', V('D0'))]
NON_ARRAYS = [('none', V(None)), ('int', V(3)), ('float', V(2.5)), ('str', V('abc')), ('ragged', V([[1, 2], [3]])), ('empty-list', V([])),
              ('dict', V({})), ('nested-list', V([[1, 0, 1], [0, 1, 0]])), ('bool', V(True)), ('object', E('object()')), ('range', E('range(5)')),
              ('matrix-like', E('np.ma.masked_array(np.arange(6).reshape(2,3))'))]
BAD_LISTS = [('empty', V([])), ('longer', None), ('shorter', None), ('nested', V([[1, 2], [3, 4]])), ('str-items', V(['a', 'b'])),
             ('huge-items', None), ('nan-items', E("[float('nan')]*%d")), ('neg-items', None), ('zero-items', None), ('none', V(None)), ('scalar', V(3))]


def _deg_array(r, d, seed):
    """a degenerate replacement for the array described by d: (class, spec)"""
    shape = list(d.get('shape', []))
    nd = len(shape)
    dtype = d.get('dtype', 'float64')
    base = dict(d, seed=seed)
    u = r.random()
    if u < 0.10:
        return '0d', A(**dict(base, shape=[], layout='C'))
    if u < 0.28:
        s = list(shape) or [0]
        k = r.choice(['one', 'one', 'all', 'first', 'last'])
        if k == 'all':
            s = [0] * len(s)
        elif k == 'first':
            s[0] = 0
        elif k == 'last':
            s[-1] = 0
        else:
            s[r.randrange(len(s))] = 0
        return 'zero-size', A(**dict(base, shape=s, layout='C'))
    if u < 0.50:
        nd2 = r.choice([n for n in (1, 2, 3, 4, 5) if n != nd])
        return 'ndim%+d' % (nd2 - nd) if abs(nd2 - nd) == 1 else 'ndim=%d' % nd2, A(**dict(base, shape=[r.choice([1, 2, 3, 5, 8]) for _ in range(nd2)]))
    if u < 0.62:
        s = [max(1, x + r.choice([-1, 1, 2, 7])) for x in shape] or [3]
        if s == shape:
            s[0] += 1
        return 'shape-mismatch', A(**dict(base, shape=s))
    if u < 0.82:
        dt = r.choice(DEGENERATE_DTYPES)
        name = dt if isinstance(dt, str) else 'structured'
        return 'dtype:' + name, A(**dict(base, dtype=dt, fill='rand' if base.get('fill') in ('limits', 'float', 'unit', 'signed') else base.get('fill', 'rand')))
    if u < 0.87:
        return 'len1', A(**dict(base, shape=[1] * max(1, nd)))
    if u < 0.92:
        other = r.choice([t for t in INT + FLT if t != dtype])
        return 'dtype-valid:' + other, A(**dict(base, dtype=other, fill='rand'))
    c, v = r.choice(NON_ARRAYS)
    return 'non-array:' + c, v


def _deg_list(r, v):
    n = len(v)
    c, spec = r.choice(BAD_LISTS)
    if c == 'longer':
        spec = V(list(v) + [v[-1] if v else 1])
    elif c == 'shorter':
        spec = V(list(v)[:-1])
    elif c == 'huge-items':
        spec = V([2 ** 40] * max(1, n))
    elif c == 'neg-items':
        spec = V([-3] * max(1, n))
    elif c == 'zero-items':
        spec = V([0] * max(1, n))
    elif c == 'nan-items':
        spec = E(spec['e'] % max(1, n))
    return 'list:' + c, spec


def degenerate(r, arg, ref=None):
    """(class, replacement) for one argument spec; `ref` = the first array argument of the call (for None → array)"""
    seed = r.randrange(1 << 30)
    if 'a' in arg:
        return _deg_array(r, arg['a'], seed)
    if 'v' in arg:
        v = arg['v']
        if v is None:
            if ref is not None and r.random() < 0.8:
                c, s = _deg_array(r, dict(ref, fill='rand'), seed)
                return 'was-none:' + c, s
            c, s = r.choice(EXTREME_SCALARS)
            return 'was-none:' + c, s
        if isinstance(v, bool):
            c, s = r.choice(EXTREME_SCALARS + NON_ARRAYS[:4])
            return 'flag:' + c, s
        if isinstance(v, (int, float)):
            c, s = r.choice(EXTREME_SCALARS)
            return c, s
        if isinstance(v, str):
            c, s = r.choice(BAD_STRINGS)
            return 'str:' + c, s
        if isinstance(v, list):
            return _deg_list(r, v)
    if 'e' in arg:
        c, s = r.choice(NON_ARRAYS + EXTREME_SCALARS)
        return 'expr:' + c, s
    return 'none', V(None)


def first_array(spec):
    for a in list(spec['args']) + list(spec['kw'].values()):
        if 'a' in a:
            return a['a']
    return None


def mutate(r, spec, names, extra_params=()):
    """replace 1-3 arguments of a valid call by degenerate values; returns (spec', [(argname, class), …])"""
    spec = dict(fn=spec['fn'], args=list(spec['args']), kw=dict(spec['kw']))
    slots = [('p', i) for i in range(len(spec['args']))] + [('k', k) for k in spec['kw']]
    extra = [p for p in extra_params if p not in spec['kw'] and p not in names[:len(spec['args'])]]
    u = r.random()
    k = 1 if u < 0.7 else 2 if u < 0.93 else 3
    ref = first_array(spec)
    muts = []
    chosen = r.sample(slots, min(k, len(slots))) if slots else []
    if extra and (not chosen or r.random() < 0.15):
        chosen = chosen[:max(0, k - 1)] + [('x', r.choice(extra))]
    for kind, key in chosen:
        if kind == 'p':
            c, s = degenerate(r, spec['args'][key], ref)
            spec['args'][key] = s
            muts.append((names[key] if key < len(names) else 'arg%d' % key, c))
        elif kind == 'k':
            c, s = degenerate(r, spec['kw'][key], ref)
            spec['kw'][key] = s
            muts.append((key, c))
        else:
            c, s = degenerate(r, V(None), ref)
            spec['kw'][key] = s
            muts.append((key, c))
    return spec, muts
