"""./check <property-id> [--tier quick|thorough] [--replay path]
exit 0: property held on everything explored (KNOWN-FINDING lines possible); 1: VIOLATION; 2: infrastructure."""
import argparse, os, sys, traceback
from . import core, engine


def main():
    ap = argparse.ArgumentParser()
    ap.add_argument('prop')
    ap.add_argument('--tier', default=os.environ.get('VERIF_TIER', 'quick'))
    ap.add_argument('--replay')
    a = ap.parse_args()
    seed = int(os.environ.get('VERIF_SEED', '0') or 0)
    tier = a.tier if a.tier in ('quick', 'thorough') else 'quick'
    mod = f'harness.props.{a.prop.lower()}'
    try:
        rc = engine.run_property(mod, tier, seed, a.replay)
    except core.Infra as e:
        print(f'INFRASTRUCTURE: {e}', file=sys.stderr)
        rc = 2
    except Exception:
        traceback.print_exc()
        rc = 2
    sys.exit(rc)


if __name__ == '__main__':
    main()
