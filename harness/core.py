"""Shared machinery of the checks: staging/building the current /repo tree, building and
auditing the Lean project, talking to the native Lean driver, known findings, evidence."""
from __future__ import annotations
import fcntl, hashlib, json, os, re, shutil, subprocess, sys, tempfile, time
from pathlib import Path

VERIF = Path(__file__).resolve().parent.parent
REPO = Path(os.environ.get('MAHOTAS_REPO', '/repo'))
LEAN = VERIF / 'lean'
CACHE = Path(os.environ.get('MAHOTAS_VERIF_CACHE', '/var/tmp/mahotas-verif'))
PY = '/venv/bin/python'
STD_AXIOMS = {'propext', 'Classical.choice', 'Quot.sound'}
ASAN_RT = '/usr/lib/llvm-14/lib/clang/14.0.6/lib/linux/libclang_rt.asan-x86_64.so'


class Infra(Exception):
    """infrastructure failure: exit code 2, never a VIOLATION"""


def log(*a):
    print('[verif]', *a, file=sys.stderr, flush=True)


# ----------------------------------------------------------------------------------------------
# staging + build of the current working tree

SRC_EXCLUDE_DIRS = {'.git', 'build', '__pycache__', 'mahotas.egg-info', '.pytest_cache', 'docs'}


def tree_hash(repo: Path = REPO) -> str:
    h = hashlib.sha256()
    for root, dirs, files in os.walk(repo):
        dirs[:] = sorted(d for d in dirs if d not in SRC_EXCLUDE_DIRS)
        for f in sorted(files):
            if f.endswith(('.so', '.pyc', '.o')):
                continue
            p = Path(root) / f
            h.update(str(p.relative_to(repo)).encode())
            try:
                h.update(p.read_bytes())
            except OSError:
                pass
    return h.hexdigest()[:20]


def _prune(keep: Path, prefix: str, maxn: int = 4, min_age_s: float = 7200.0):
    """remove old cached builds: only beyond the `maxn` most recent, only when unused for `min_age_s`
    (every use refreshes the mtime) and only when no process holds the build's lock"""
    try:
        ds = sorted((d for d in CACHE.iterdir() if d.is_dir() and d.name.startswith(prefix) and d != keep),
                    key=lambda d: d.stat().st_mtime, reverse=True)
    except FileNotFoundError:
        return
    now = time.time()
    for d in ds[maxn - 1:]:
        try:
            if now - d.stat().st_mtime < min_age_s:
                continue
            with open(CACHE / (d.name + '.lock'), 'a') as fh:
                fcntl.flock(fh, fcntl.LOCK_EX | fcntl.LOCK_NB)
                shutil.rmtree(d, ignore_errors=True)
        except OSError:
            pass


_held = []


def stage_build(asan: bool = False) -> Path:
    """rsync the current /repo working tree to a scratch dir keyed by the hash of its sources and
    build the extensions there (the editable install in /venv would not pick up edited C++).
    Returns the directory to put on PYTHONPATH. A shared lock is held for the life of the process."""
    CACHE.mkdir(parents=True, exist_ok=True)
    hsh = tree_hash()
    prefix = 'asan-' if asan else 'build-'
    d = CACHE / (prefix + hsh)
    lk = open(CACHE / (d.name + '.lock'), 'a')
    fcntl.flock(lk, fcntl.LOCK_EX)
    try:
        if not (d / '.ok').exists():
            shutil.rmtree(d, ignore_errors=True)
            (d / 'src').mkdir(parents=True)
            t0 = time.time()
            subprocess.run(['rsync', '-a', '--exclude', '.git', '--exclude', '*.so', '--exclude', 'build',
                            '--exclude', '__pycache__', '--exclude', 'docs', str(REPO) + '/', str(d / 'src')],
                           check=True)
            env = dict(os.environ)
            if asan:
                env['CC'] = 'clang -fsanitize=address -fno-omit-frame-pointer'
                env['CXX'] = 'clang++ -fsanitize=address -fno-omit-frame-pointer'
                env['LDSHARED'] = 'clang++ -shared -fsanitize=address -shared-libasan'
            with open(d / 'build.log', 'w') as lf:
                r = subprocess.run([PY, 'setup.py', 'build_ext', '--inplace', '-j16'], cwd=d / 'src',
                                   stdout=lf, stderr=subprocess.STDOUT, env=env)
            if r.returncode != 0:
                tail = (d / 'build.log').read_text()[-3000:]
                raise Infra(f'build of the current tree failed ({"asan" if asan else "plain"}):\n{tail}')
            (d / '.ok').write_text(str(time.time() - t0))
            log(f'built {d.name} in {time.time() - t0:.1f}s')
        os.utime(d)
    finally:
        fcntl.flock(lk, fcntl.LOCK_UN)
    fcntl.flock(lk, fcntl.LOCK_SH)
    _held.append(lk)
    _prune(d, prefix)
    return d / 'src'


def use_impl(src: Path):
    """make `import mahotas` resolve to the staged build in this process"""
    sys.path.insert(0, str(src))
    for k in [k for k in sys.modules if k == 'mahotas' or k.startswith('mahotas.')]:
        del sys.modules[k]
    import mahotas  # noqa
    assert Path(mahotas.__file__).resolve().is_relative_to(src.resolve()), mahotas.__file__
    return mahotas


def asan_env(src: Path) -> dict:
    env = dict(os.environ)
    env['PYTHONPATH'] = str(src)
    env['LD_PRELOAD'] = ASAN_RT
    env['ASAN_OPTIONS'] = 'detect_leaks=0:abort_on_error=0:exitcode=99:allocator_may_return_null=1'
    return env


# ----------------------------------------------------------------------------------------------
# Lean: translator, build, audit

def _lean_lock():
    (LEAN / '.lake').mkdir(exist_ok=True)
    fh = open(LEAN / '.lake' / 'verif.lock', 'w')
    fcntl.flock(fh, fcntl.LOCK_EX)
    return fh


def run_translator() -> dict:
    """regenerate lean/Mahotas/Generated/*.lean from the current /repo sources"""
    sys.path.insert(0, str(VERIF))
    import warnings
    warnings.filterwarnings('ignore', category=SyntaxWarning)     # docstrings of the parsed sources
    from translator import tables
    gdir = LEAN / 'Mahotas' / 'Generated'
    out = tables.generate(REPO, gdir)
    failed, names = out['_failed'], out['_names']
    # additive: per-property generators living in their own modules (C11 guards, C12 static objects, ...). Each writes
    # its own file; when its source constructs are no longer recognised the file keeps its last generated text and the
    # failure is reported under the generator's name (see `generated_failures_for`)
    import importlib
    for modname, fname in (('guards', 'Guards.lean'), ('statics', 'Statics.lean'), ('cscalar', 'CScalar.lean'),
                           ('pybody', 'PyBodies.lean')):
        if (VERIF / 'translator' / f'{modname}.py').exists():
            mod = importlib.import_module(f'translator.{modname}')
            sub = {}
            try:
                sub = dict(mod.generate(REPO, gdir))
            except Exception as e:  # noqa
                if not (gdir / fname).exists():
                    raise
                failed[modname] = f'{type(e).__name__}: {e}'
            # a generator may report per block (same convention as tables.generate): merged, never overwriting
            sub_failed, sub_names = sub.pop('_failed', None) or {}, sub.pop('_names', None) or {}
            failed.update(sub_failed)
            names.update(sub_names)
            out.update(sub)
            if (gdir / fname).exists() and not sub_names:
                names[modname] = tables.defined_names((gdir / fname).read_text())
    return out


def lean_closure(prop_id: str, extra_targets: list[str] | None = None) -> list[Path]:
    """the hand-written Lean files a property's theorems and driver model rest on: Properties/<id>.lean, Model/<id>*.lean,
    the extra targets (foundations), and everything under Mahotas/ they import, transitively; Generated/ files excluded"""
    roots = [LEAN / 'Mahotas' / 'Properties' / f'{prop_id}.lean']
    roots += sorted((LEAN / 'Mahotas' / 'Model').glob(f'{prop_id}*.lean'))
    for t in extra_targets or []:
        roots.append(LEAN / (t.replace('.', '/') + '.lean'))
    seen, todo = {}, [r for r in roots if r.exists()]
    while todo:
        f = todo.pop()
        if f in seen:
            continue
        txt = f.read_text()
        seen[f] = txt
        for m in re.finditer(r'^import\s+(Mahotas\.[\w\.]+)', txt, re.M):
            q = LEAN / (m.group(1).replace('.', '/') + '.lean')
            if q.exists() and q not in seen:
                todo.append(q)
    return [f for f in seen if 'Generated' not in f.parts]


def generated_failures_for(prop_id: str, gen: dict, extra_targets: list[str] | None = None) -> tuple[list[str], list[str]]:
    """(failures that break this property's tie, failures that do not concern it). A generator block concerns a property
    when a definition of that block is mentioned (as a word) in the property's Lean closure - a conservative test."""
    failed = gen.get('_failed') or {}
    if not failed:
        return [], []
    words = set()
    for f in lean_closure(prop_id, extra_targets):
        words |= set(re.findall(r'[A-Za-z_][\w]*', strip_comments(f.read_text())))
    mine, other = [], []
    for blk, err in sorted(failed.items()):
        defs = (gen.get('_names') or {}).get(blk) or []
        hit = sorted(d for d in defs if d.split('.')[-1] in words)
        (mine if (hit or not defs) else other).append(f'translator[{blk}]: {err}' + (f' (used here: {", ".join(hit[:4])})' if hit else ''))
    return mine, other


def lake_build(targets: list[str]) -> tuple[bool, str]:
    r = subprocess.run(['lake', 'build'] + targets, cwd=LEAN, stdout=subprocess.PIPE, stderr=subprocess.STDOUT,
                       text=True)
    return r.returncode == 0, r.stdout


FORBIDDEN = re.compile(r'\b(sorry|admit|native_decide|bv_decide|implemented_by|unsafe|maxHeartbeats\s+0)\b|^\s*axiom\s',
                       re.M)


def strip_comments(src: str) -> str:
    src = re.sub(r'/-.*?-/', '', src, flags=re.S)
    return re.sub(r'--.*', '', src)


def grep_forbidden() -> list[str]:
    hits = []
    for p in sorted((LEAN / 'Mahotas').rglob('*.lean')):
        s = strip_comments(p.read_text())
        for m in FORBIDDEN.finditer(s):
            hits.append(f'{p.relative_to(LEAN)}: {m.group(0).strip()}')
    return hits


def theorem_names(prop_id: str) -> list[str]:
    f = LEAN / 'Mahotas' / 'Properties' / f'{prop_id}.lean'
    if not f.exists():
        return []
    s = strip_comments(f.read_text())
    return re.findall(r'^theorem\s+(' + prop_id + r'_[A-Za-z0-9_\']+)', s, flags=re.M)


def audit(prop_id: str, extra: dict | None = None) -> dict:
    """`#print axioms` on every property theorem (and on the foundation theorems `extra` = {module: [names]}
    the property's model rests on); returns {theorem: [axioms]}"""
    names = theorem_names(prop_id)
    extra = extra or {}
    if not names and not extra:
        return {}
    with tempfile.NamedTemporaryFile('w', suffix='.lean', dir=LEAN, delete=False) as fh:
        if names:
            fh.write(f'import Mahotas.Properties.{prop_id}\n')
        for m in extra:
            fh.write(f'import {m}\n')
        for ns in extra.values():
            names = names + list(ns)
        for n in names:
            fh.write(f'#print axioms {n}\n')
        tmp = fh.name
    try:
        r = subprocess.run(['lake', 'env', 'lean', tmp], cwd=LEAN, stdout=subprocess.PIPE,
                           stderr=subprocess.STDOUT, text=True)
    finally:
        os.unlink(tmp)
    out = {}
    txt = r.stdout
    for n in names:
        m = re.search(r"'" + re.escape(n) + r"' depends on axioms: \[(.*?)\]", txt, flags=re.S)
        if m:
            out[n] = [a.strip() for a in m.group(1).replace('\n', ' ').split(',') if a.strip()]
        elif re.search(r"'" + re.escape(n) + r"' does not depend on any axioms", txt):
            out[n] = []
        else:
            out[n] = ['<not-checked: ' + txt.strip()[-300:] + '>']
    return out


def lean_obligations(prop_id: str, extra_targets: list[str] | None = None, extra_theorems: dict | None = None) -> dict:
    """translator + lake build + axiom audit for one property. Returns a dict with
    ok (bool), obligations, discharged, theorems {name: axioms}, problems [str], log."""
    res = dict(ok=True, problems=[], theorems={}, obligations=0, discharged=0, log='', generated={})
    lk = _lean_lock()
    try:
        try:
            gen = run_translator()
            mine, other = generated_failures_for(prop_id, gen, extra_targets)
            res['generated'] = {k: v for k, v in gen.items() if not k.startswith('_')}
            if mine:            # a construct the translator used to parse is gone, in a block this property uses: broken tie
                res['ok'] = False
                res['problems'] += mine
            if other:           # blocks no definition of which this property's Lean files mention: recorded, not an alarm here
                res['generated']['unrelated_translator_failures'] = other
        except Exception as e:  # nothing could be generated at all
            res['ok'] = False
            res['problems'].append(f'translator: {type(e).__name__}: {e}')
        targets = ['driver']
        pf = LEAN / 'Mahotas' / 'Properties' / f'{prop_id}.lean'
        if pf.exists():
            targets.append(f'Mahotas.Properties.{prop_id}')
        targets += extra_targets or []
        ok, out = lake_build(targets)
        res['log'] = out[-4000:]
        if not ok:
            res['ok'] = False
            errs = [l for l in out.splitlines() if 'error' in l][:8]
            res['problems'].append('lake build failed: ' + ' | '.join(errs))
            # the driver alone may still build (needed for the failing-input search)
            okd, _ = lake_build(['driver'])
            res['driver_ok'] = okd
        else:
            res['driver_ok'] = True
            ax = audit(prop_id, extra_theorems)
            res['theorems'] = ax
            res['obligations'] = len(ax)
            for n, axs in ax.items():
                bad = [a for a in axs if a not in STD_AXIOMS]
                if bad:
                    res['ok'] = False
                    res['problems'].append(f'{n}: non-standard axioms {bad}')
                else:
                    res['discharged'] += 1
        # a private copy of the driver for this run: another check (working on another tree) may regenerate the
        # tables and relink the shared binary while this run is still using it
        if res.get('driver_ok') and DRIVER.exists():
            _private_driver()
        hits = grep_forbidden()
        if hits:
            res['ok'] = False
            res['problems'].append('forbidden tokens: ' + '; '.join(hits[:6]))
    finally:
        fcntl.flock(lk, fcntl.LOCK_UN)
        lk.close()
    return res


DRIVER = LEAN / '.lake' / 'build' / 'bin' / 'driver'
_DRIVER_RUN = None


def _private_driver():
    global _DRIVER_RUN
    import atexit
    CACHE.mkdir(parents=True, exist_ok=True)
    dst = CACHE / f'driver-{os.getpid()}'
    shutil.copy2(DRIVER, dst)
    _DRIVER_RUN = dst
    atexit.register(lambda p=dst, pid=os.getpid(): (os.getpid() == pid) and p.unlink(missing_ok=True))


def drive(lines: list[str]) -> list[dict]:
    """run protocol lines through the native Lean driver; one parsed dict per line"""
    if not lines:
        return []
    r = subprocess.run([str(_DRIVER_RUN or DRIVER)], input='\n'.join(lines) + '\n', stdout=subprocess.PIPE,
                       stderr=subprocess.PIPE, text=True)
    if r.returncode != 0:
        raise Infra(f'lean driver failed rc={r.returncode}: {r.stderr[-1000:]}')
    outs = r.stdout.split('\n')
    if outs and outs[-1] == '':
        outs.pop()
    if len(outs) != len(lines):
        raise Infra(f'lean driver returned {len(outs)} lines for {len(lines)} inputs')
    return [parse_out(o) for o in outs]


def parse_out(line: str) -> dict:
    d = {}
    for tok in line.split(' '):
        if '=' in tok:
            k, v = tok.split('=', 1)
            d[k] = v
    return d


def ints(s: str) -> list[int]:
    return [int(x) for x in s.split(',')] if s not in ('', None) else []


def fmt_ints(a) -> str:
    return ','.join(str(int(x)) for x in a) if len(a) else '-'


def f2bits(x: float) -> int:
    import struct
    return struct.unpack('<Q', struct.pack('<d', float(x)))[0]


def bits2f(b: int) -> float:
    import struct
    return struct.unpack('<d', struct.pack('<Q', int(b)))[0]


def fmt_floats(a) -> str:
    import numpy as np
    a = np.asarray(a, dtype=np.float64).ravel()
    return ','.join(str(int(x)) for x in a.view(np.uint64)) if a.size else '-'


def floats(s: str):
    import numpy as np
    if s in ('', None, '-'):
        return np.zeros(0)
    return np.array([int(x) for x in s.split(',')], dtype=np.uint64).view(np.float64)


# ----------------------------------------------------------------------------------------------
# known findings

def load_known() -> list[dict]:
    out = []
    p = VERIF / 'known_findings.json'
    if p.exists():
        out += json.loads(p.read_text()).get('findings', [])
    for q in sorted((VERIF / 'known_findings.d').glob('*.json')):   # per-property fragments (merged view)
        out += json.loads(q.read_text()).get('findings', [])
    return out


def open_keys(prop_id: str) -> dict:
    return {f['key']: f for f in load_known() if f['property'] == prop_id and f.get('status') == 'open'}


# ----------------------------------------------------------------------------------------------
# evidence

def write_evidence(prop_id: str, ev: dict):
    d = Path(os.environ.get('VERIF_EVIDENCE_DIR') or (VERIF / 'evidence'))
    d.mkdir(parents=True, exist_ok=True)
    (d / f'{prop_id}.json').write_text(json.dumps(ev, indent=1, default=str) + '\n')


def write_replay(prop_id: str, payload: dict) -> Path:
    d = VERIF / 'replays'
    d.mkdir(exist_ok=True)
    blob = json.dumps(payload, sort_keys=True, default=str)
    h = hashlib.sha1(blob.encode()).hexdigest()[:12]
    p = d / f'{prop_id}-{h}.json'
    p.write_text(json.dumps(payload, indent=1, default=str) + '\n')
    return p
