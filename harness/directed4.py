"""Round 4 (C10 / C11): directed calls for native entry points whose hot loops have corner cases that random valid calls
hit rarely — read off the index models of lean/Mahotas/Model/C10{Conv,Feat,Flood,Labeled,Slic,Alloc}.lean:
  rank/median filter in `ignore` mode with footprints that miss the image at border pixels (n = 0), single-cell footprints, the
  extreme ranks; close_holes on 1xN / Nx1 / all-background / all-foreground images with large neighbourhoods; label with elements
  larger than the image; regmax/regmin on one plateau covering the image (the flood visits every pixel) and on checkerboards, 3-D;
  slic at the boundary of its guard (spacer//2 = min(h, w) - 1), huge spacer, max_iters = 1; otsu/rc on constant images and
  one/two-bin histograms; zernike degrees around the factorial table (12, 13, 20); disks of radius 0/1; majority_filter with a window
  of the image size and larger; distance on 1xN; is_same_labeling on different shapes; haralick on a constant image.
`valid_calls` are inside the documented domain (C10: must not touch memory they do not own, both heap fillings equal; C11: must not
crash); `degenerate_calls` are outside it (C11: an exception or a value, never a crash/hang).
Everything random comes from the `rng` passed in.
"""
from __future__ import annotations


def E(e):
    return {'e': e}


def V(v):
    return {'v': v}


def _c(fn, *args, **kw):
    return dict(fn=fn, args=list(args), kw=dict(kw))


def valid_calls(rng):
    R = rng.randint
    out = []
    # rank / median / mean filter, ignore mode, footprints that miss the image at the border
    for _ in range(4):
        h, w = R(1, 6), R(1, 6)
        bh, bw = rng.choice([1, 3, 5]), rng.choice([1, 3, 5, 7])
        fp = [[0] * bw for _ in range(bh)]
        fp[rng.randrange(bh)][rng.choice([0, bw - 1])] = 1                  # one set cell, at an edge of the footprint
        if rng.random() < 0.5:
            fp[rng.randrange(bh)][rng.randrange(bw)] = 1
        n2 = sum(map(sum, fp))
        img = f"(np.random.RandomState({R(0, 1 << 20)}).permutation({h * w}).reshape({h},{w}) + 1).astype(np.{rng.choice(['uint8', 'int32', 'float64'])})"
        for rank in sorted({0, n2 - 1}):
            out.append(_c('mahotas.rank_filter', E(img), E(f"np.array({fp!r})"), V(rank), mode=V('ignore')))
        out.append(_c('mahotas.median_filter', E(img), E(f"np.array({fp!r})"), mode=V(rng.choice(['ignore', 'constant', 'nearest']))))
        out.append(_c('mahotas.mean_filter', E(img.replace('np.uint8', 'np.float64')), E(f"np.array({fp!r}, float)"), mode=V('ignore')))
    # close_holes: degenerate-but-valid shapes, large neighbourhoods
    for shape, fill in (((1, R(1, 9)), 'zeros'), ((R(1, 9), 1), 'zeros'), ((R(2, 7), R(2, 7)), 'ones'), ((R(3, 9), R(3, 9)), 'ring')):
        h, w = shape
        if fill == 'ring':
            a = f"np.pad(np.zeros(({h},{w}), bool), 1, constant_values=True)"
        else:
            a = f"np.{fill}(({h},{w}), bool)"
        out.append(_c('mahotas.close_holes', E(a)))
        out.append(_c('mahotas.close_holes', E(a), E(f"np.ones(({rng.choice([3, 5, 7])},{rng.choice([3, 5, 9])}), bool)")))
    # label: elements larger than the image, 1-D and 3-D
    out.append(_c('mahotas.label', E(f"np.ones(({R(1, 4)},{R(1, 4)}), bool)"), E("np.ones((7, 9), bool)")))
    out.append(_c('mahotas.label', E(f"(np.arange({R(1, 30)}) % 3 != 0)"), E("np.ones(5, bool)")))
    out.append(_c('mahotas.label', E("(np.indices((3, 4, 5)).sum(0) % 2 == 0)"), E("np.ones((3, 3, 3), bool)")))
    # regmax / regmin: one plateau over the whole image (the flood visits every pixel), checkerboard, 3-D
    for fn in ('mahotas.regmax', 'mahotas.regmin', 'mahotas.locmax', 'mahotas.locmin'):
        out.append(_c(fn, E(f"np.full(({R(1, 12)},{R(1, 12)}), 7, np.uint8)")))
        out.append(_c(fn, E(f"(np.indices(({R(2, 9)},{R(2, 9)})).sum(0) % 2).astype(np.int32)")))
        out.append(_c(fn, E("np.zeros((3, 4, 5), np.float64)")))
    # slic at the boundary of its guard
    for _ in range(3):
        h, w = R(1, 12), R(1, 12)
        S = 2 * min(h, w) - rng.choice([1, 2]) if min(h, w) > 1 else 1
        out.append(_c('mahotas.segmentation.slic', E(f"np.random.RandomState({R(0, 999)}).rand({h},{w},3)"), V(max(S, 1)), V(1.0), V(rng.choice([1, 2, 128]))))
    out.append(_c('mahotas.segmentation.slic', E("np.zeros((5, 40, 3))"), V(9)))
    # thresholding on constant images / tiny histograms
    for fn in ('mahotas.otsu', 'mahotas.rc'):
        out.append(_c(fn, E("np.zeros((4, 4), np.uint8)")))
        out.append(_c(fn, E("np.full((3, 5), 255, np.uint8)")))
        out.append(_c(fn, E("np.array([[0, 1], [1, 0]], np.uint8)")))
    # zernike: degrees around the 13-entry factorial table
    for deg in (0, 1, 12, 13, 20):
        out.append(_c('mahotas.features.zernike_moments', E(f"np.random.RandomState({deg}).rand(9, 11)"), V(rng.choice([1, 3, 4.5])), degree=V(deg)))
    # disks, majority windows, distance lines
    for r in (0, 1, 2):
        out.append(_c('mahotas.disk', V(r)))
        out.append(_c('mahotas.disk', V(r), V(3)))
    for n in (3, 5, 7, 9):
        out.append(_c('mahotas.majority_filter', E(f"(np.indices((5, 7)).sum(0) % 2 == 0)"), V(n)))
    out.append(_c('mahotas.distance', E(f"np.ones((1, {R(1, 20)}), bool)")))
    out.append(_c('mahotas.distance', E(f"(np.arange({R(2, 30)}) % 4 != 0)")))
    out.append(_c('mahotas.labeled.is_same_labeling', E("np.arange(12).reshape(3, 4) % 3"), E("np.arange(12).reshape(4, 3) % 3")))
    out.append(_c('mahotas.labeled.is_same_labeling', E("np.arange(12) % 3"), E("np.arange(7) % 3")))
    out.append(_c('mahotas.features.haralick', E("np.full((4, 5), 3, np.uint8)"), ignore_zeros=V(False)))
    out.append(_c('mahotas.thin', E("np.ones((1, 7), bool)")))
    out.append(_c('mahotas.thin', E("np.zeros((4, 4), bool)")))
    out.append(_c('mahotas.polygon.convexhull', E("np.eye(5, dtype=bool)")))
    out.append(_c('mahotas.polygon.convexhull', E("np.zeros((3, 3), bool)")))

    # (seeded C10-r4m1) templates / structuring elements / kernels LONGER than the image: on one axis only (fitting along the other),
    # on both, by exactly one and by several — inside the documented domain ("templates of matching dimensionality")
    for _ in range(3):
        h, w = R(2, 9), R(2, 9)
        for th, tw in ((h + R(2, 4), R(1, w)), (R(1, h), w + R(2, 4)), (h + 1, w), (h, w + 1), (h + R(1, 3), w + R(1, 3)), (h, w)):
            dt = rng.choice(['uint8', 'int32', 'bool', 'float64'])
            img = f"(np.random.RandomState({R(0, 1 << 20)}).rand({h},{w}) * 3).astype(np.{dt if dt != 'bool' else 'bool_'})"
            tmpl = f"(np.random.RandomState({R(0, 1 << 20)}).rand({th},{tw}) * 3).astype(np.{dt if dt != 'bool' else 'bool_'})"
            out.append(_c('mahotas.find', E(img), E(tmpl)))
            if dt != 'bool':
                out.append(_c('mahotas.template_match', E(img), E(tmpl)))
        th, tw = rng.choice([(h + 2, 1), (1, w + 3), (h + 1, w + 1)])
        fp = f"np.ones(({th | 1},{tw | 1}))"
        img8 = f"(np.random.RandomState({R(0, 1 << 20)}).rand({h},{w}) * 9).astype(np.uint8)"
        out.append(_c('mahotas.rank_filter', E(img8), E(fp), V(0)))
        out.append(_c('mahotas.median_filter', E(img8), E(fp)))
        out.append(_c('mahotas.mean_filter', E(img8.replace('np.uint8', 'np.float64')), E(fp)))
        out.append(_c('mahotas.convolve', E(img8.replace('np.uint8', 'np.float64')), E(fp), mode=V(rng.choice(['reflect', 'nearest', 'constant', 'ignore']))))
        out.append(_c('mahotas.hitmiss', E(f"(np.random.RandomState(3).rand({h},{w}) > .5).astype(np.uint8)"), E(f"np.ones(({th | 1},{tw | 1}), np.uint8)")))
    # (seeded C11-r4m2) signed images are in the domain of the histogram / threshold functions only when non-negative; sparse LARGE
    # values (positive) are valid for cooccurence-free functions: fullhistogram/otsu/rc on uint32 images with one huge value are NOT
    # listed (they allocate max()+1 bins); see degenerate_calls for the negative ones.
    return out


def degenerate_calls(rng):
    """outside the documented domain: must raise or return, never crash or hang"""
    R = rng.randint
    out = []
    img = "np.arange(20, dtype=np.uint8).reshape(4, 5)"
    fp = "np.array([[0, 1, 0], [1, 1, 1], [0, 1, 0]])"
    for rank in (-1, 5, 6, 2 ** 31 - 1, -2 ** 31):
        out.append((_c('mahotas.rank_filter', E(img), E(fp), V(rank)), [['rank', 'out-of-range']]))
    out.append((_c('mahotas.rank_filter', E(img), E("np.zeros((3, 3))"), V(0)), [['Bc', 'empty-footprint']]))
    out.append((_c('mahotas.median_filter', E(img), E("np.zeros((3, 3))")), [['Bc', 'empty-footprint']]))
    for a in ("np.zeros((1, 3, 3), bool)", "np.zeros((0, 4), bool)", "np.zeros(7, bool)", "np.zeros((2, 2, 2, 2), bool)"):
        out.append((_c('mahotas.close_holes', E(a)), [['ref', 'rank-or-empty']]))
    for deg in (-1, -5):
        out.append((_c('mahotas.features.zernike_moments', E("np.ones((5, 5))"), V(2), degree=V(deg)), [['degree', 'negative']]))
    for S in (0, -3, 2 ** 31 - 1, 40):
        out.append((_c('mahotas.segmentation.slic', E("np.zeros((6, 7, 3))"), V(S)), [['spacer', 'extreme']]))
    for r in (-1, -2 ** 31):
        out.append((_c('mahotas.disk', V(r)), [['radius', 'negative']]))
    for n in (0, 1, -3, 2 ** 31):
        out.append((_c('mahotas.majority_filter', E("np.ones((4, 4), bool)"), V(n)), [['N', 'extreme']]))
    out.append((_c('mahotas.otsu', E("np.zeros((0, 3), np.uint8)")), [['img', 'empty']]))
    out.append((_c('mahotas.label', E("np.ones((3, 3), bool)"), E("np.zeros((3, 3), bool)")), [['Bc', 'all-false']]))
    out.append((_c('mahotas.regmax', E("np.ones((3, 3), np.uint8)"), E("np.zeros((3, 3), np.uint8)")), [['Bc', 'all-false']]))
    out.append((_c('mahotas.labeled.is_same_labeling', E("np.zeros(0, int)"), E("np.arange(4)")), [['labeled0', 'empty']]))

    # (seeded C11-r4m1) label maps in every integer dtype with values around 2^31 / 2^32 / 2^63 and INT_MIN: they wrap to negative (or
    # small) values when narrowed to C int — every consumer of a label map
    big = [2 ** 31, 2 ** 31 + 5, 2 ** 32 - 1, 2 ** 32, 3 * 2 ** 31, 2 ** 63 - 1, 2 ** 63, -2 ** 31, -2 ** 31 - 1, -1]
    dts = {'uint32': 2 ** 32, 'int64': 2 ** 63, 'uint64': 2 ** 64, 'int32': 2 ** 31, 'uint8': 256, 'int16': 2 ** 15}
    arr = "np.arange(12, dtype=np.uint8).reshape(3, 4)"
    combos = [(dt, v) for dt, lim in dts.items() for v in big if (-lim if dt.startswith('int') else 0) <= v < lim]
    for dt, v in rng.sample(combos, min(len(combos), 14)) + [('uint32', 2 ** 31), ('int64', 3 * 2 ** 31), ('uint64', 2 ** 63)]:
        lab = f"np.array([[0, 1, 2, 1], [1, {v}, 0, 2], [2, 2, 1, 0]], dtype=np.{dt})"
        cls = [['labeled', f'{dt}:{v}']]
        out.append((_c('mahotas.labeled.labeled_sum', E(arr), E(lab)), cls))
        out.append((_c('mahotas.labeled.labeled_max', E(arr), E(lab)), cls))
        out.append((_c('mahotas.labeled.labeled_min', E(arr), E(lab)), cls))
        out.append((_c('mahotas.labeled.labeled_size', E(lab)), cls))
        out.append((_c('mahotas.labeled.bbox', E(lab)), cls))
        out.append((_c('mahotas.center_of_mass', E(arr), E(lab)), cls))
        out.append((_c('mahotas.labeled.remove_regions', E(lab), E("[1]")), cls))
        out.append((_c('mahotas.labeled.relabel', E(lab)), cls))
        out.append((_c('mahotas.labeled.is_same_labeling', E(lab), E(lab)), cls))
        out.append((_c('mahotas.labeled.borders', E(lab)), cls))
    # (seeded C11-r4m2) signed images with ONE negative value of large magnitude, anywhere (single pixel, last pixel, each corner):
    # functions that index tables by pixel value
    for dt, v in (('int32', -2 ** 30), ('int64', -2 ** 30), ('int32', -1), ('int16', -32768), ('int8', -128), ('int64', -2 ** 40), ('int32', -2 ** 31)):
        h, w = R(3, 9), R(3, 9)
        for (y, x) in {(0, 0), (h - 1, w - 1), (0, w - 1), (h - 1, 0), (R(0, h - 1), R(0, w - 1))}:
            img = f"(lambda a: (a.__setitem__(({y},{x}), {v}), a)[1])((np.arange({h * w}).reshape({h},{w}) % 5).astype(np.{dt}))"
            cls = [['f', f'{dt}:negative-at-{y}-{x}']]
            for d in (0, 1, 2, 3):
                out.append((_c('mahotas.features.texture.cooccurence', E(img), V(d)), cls))
            out.append((_c('mahotas.features.haralick', E(img)), cls))
            out.append((_c('mahotas.features.lbp', E(img), V(1), V(8)), cls))
            out.append((_c('mahotas.fullhistogram', E(img)), cls))
            out.append((_c('mahotas.otsu', E(img)), cls))
            out.append((_c('mahotas.rc', E(img)), cls))
    return out
