"""Generic check engine: Lean obligations + correspondence run + verdict + evidence.

A property module (harness/props/cXX.py) provides

  ID                      'C01'
  LEVEL                   evidence level ('proof' | 'other' | ...)
  ASSUMPTIONS             list[str]
  TRUSTED                 list[str] (extra trusted-base entries)
  cases(rng, tier)        -> list of JSON-able case dicts (corpus first; deterministic from rng)
  evaluate(cases)         -> list of per-case result dicts, run inside a worker process:
                               {'findings': [ {kind, key, detail} ... ], 'nontrivial': bool,
                                'sig': hashable/str, 'tags': {...}}
                             kind = 'property'  the property itself fails on the real code for this input
                                    'model'     model and implementation disagree where the property is silent
  shrink(case)            -> iterable of smaller candidate cases (optional)
  RULE                    str describing generation / non-triviality
"""
from __future__ import annotations
import collections, importlib, json, os, random, sys, time, traceback
import multiprocessing as mp
from . import core

NPROC = int(os.environ.get('VERIF_NPROC', '16'))
# stages every property shares (its own functions under concurrent calls / after call histories): added to the property's
# FOUNDATIONS here rather than listed in every module; they yield cases only for properties they know (KERNELS)
COMMON_STAGES = ['harness.foundation.concurrent', 'harness.foundation.soak', 'harness.foundation.gstate']


def foundations_of(mod):
    out = list(getattr(mod, 'FOUNDATIONS', []))
    if not getattr(mod, 'NO_COMMON_STAGES', False):
        out += [f for f in COMMON_STAGES if f not in out]
    return out


def _raised_in_mahotas(tb) -> bool:
    """does the exception originate in the staged mahotas sources (as opposed to the harness itself)?"""
    import traceback as _tb
    frames = _tb.extract_tb(tb)
    return bool(frames) and '/mahotas/' in frames[-1].filename.replace('\\', '/') and '/harness/' not in frames[-1].filename


def _worker(args):
    modname, chunk = args
    mod = importlib.import_module(modname)
    try:
        return mod.evaluate(chunk)
    except core.Infra:
        raise
    except Exception:
        pass
    # something raised: evaluate case by case
    return [_eval_one_inproc(mod, c) for c in chunk]


def eval_one(mod, c):
    """evaluate one case in a forked child (the case may crash the interpreter: shrinking and replaying must survive it)"""
    return evaluate_isolated(mod.__name__, [c])[0]


def _eval_one_inproc(mod, c):
    """evaluate one case. A call inside the documented domain that raises from the mahotas sources is a finding for
    that case (a value turned into an exception); an exception in the harness itself is infrastructure."""
    try:
        return mod.evaluate([c])[0]
    except core.Infra:
        raise
    except Exception as e:
        if _raised_in_mahotas(e.__traceback__):
            return dict(findings=[dict(kind='property', key=f'raises:{type(e).__name__}',
                                       detail=dict(exception=repr(e)[:300],
                                                   where=traceback.format_exc().strip().splitlines()[-6:]))],
                        nontrivial=True, sig='raises', tags=dict(outcome='raises'))
        raise core.Infra('worker failed:\n' + traceback.format_exc())


def _hist(c) -> bool:
    return isinstance(c, dict) and bool(c.get('_hist'))


def _init_history():
    from . import history
    history.ensure()


def _child(modname, cases, conn):
    try:
        if cases and all(_hist(c) for c in cases):
            # these cases are judged after a fixed history of legitimate calls (harness/history.py)
            _init_history()
        conn.send(('ok', _worker((modname, cases))))
    except BaseException as e:  # noqa
        conn.send(('err', repr(e) + '\n' + traceback.format_exc()))
    finally:
        conn.close()


def evaluate_isolated(modname, cases):
    """evaluate in a forked child; if the child dies (signal) bisect down to the crashing case, which becomes a
    finding: a crash of the interpreter is a violation of every property (no result is delivered)"""
    ctx = mp.get_context('fork')
    parent, child = ctx.Pipe(duplex=False)
    pr = ctx.Process(target=_child, args=(modname, cases, child))
    pr.start()
    child.close()
    msg = None
    try:
        if parent.poll(3600):
            msg = parent.recv()
    except EOFError:
        msg = None
    pr.join(30)
    if pr.is_alive():
        pr.kill()
    if msg is not None and msg[0] == 'ok':
        return msg[1]
    if msg is not None and msg[0] == 'err':
        raise core.Infra('worker failed: ' + msg[1])
    if len(cases) == 1:
        return [dict(findings=[dict(kind='property', key=f'crash:exit{pr.exitcode}',
                                    detail=dict(exitcode=pr.exitcode, note='the worker process died while evaluating this case'))],
                     nontrivial=True, sig='crash', tags=dict(outcome='crash'))]
    h = len(cases) // 2
    return evaluate_isolated(modname, cases[:h]) + evaluate_isolated(modname, cases[h:])


def evaluate_parallel(mod, cases, nproc=NPROC):
    """cases marked `_hist` are evaluated in worker processes that first ran the history prelude, the others in
    processes that did not (two pools): a result must not depend on what was called before"""
    hi = [i for i, c in enumerate(cases) if _hist(c)]
    if not hi or len(hi) == len(cases):
        return _evaluate_group(mod, cases, nproc, bool(hi))
    lo = [i for i, c in enumerate(cases) if not _hist(c)]
    res = [None] * len(cases)
    for ix, h in ((lo, False), (hi, True)):
        for i, r in zip(ix, _evaluate_group(mod, [cases[i] for i in ix], nproc, h)):
            res[i] = r
    return res


def mark_history(cases, every=3):
    """every third case is judged after the history prelude"""
    for i, c in enumerate(cases):
        if isinstance(c, dict) and i % every == every - 1:
            c['_hist'] = 1
    return cases


def _evaluate_group(mod, cases, nproc, hist):
    if not cases:
        return []
    n = max(1, min(nproc, (len(cases) + 7) // 8))
    if n == 1:
        return evaluate_isolated(mod.__name__, cases)
    # round-robin chunks (heavy block cases sit together at the front of the list), results restored in order
    nch = min(len(cases), n * 6)
    idx = [list(range(k, len(cases), nch)) for k in range(nch)]
    from concurrent.futures import ProcessPoolExecutor
    from concurrent.futures.process import BrokenProcessPool
    ctx = mp.get_context('fork')
    outs = [None] * nch
    try:
        with ProcessPoolExecutor(n, mp_context=ctx, initializer=_init_history if hist else None) as ex:
            futs = [ex.submit(_worker, (mod.__name__, [cases[i] for i in ix])) for ix in idx]
            for k, f in enumerate(futs):
                outs[k] = f.result()
    except BrokenProcessPool:
        core.log('a worker process died: re-running the unfinished chunks in isolated children')
        for k, ix in enumerate(idx):
            if outs[k] is None:
                outs[k] = evaluate_isolated(mod.__name__, [cases[i] for i in ix])
    res = [None] * len(cases)
    for ix, o in zip(idx, outs):
        for i, r in zip(ix, o):
            res[i] = r
    return res


def shrink(mod, case, key, budget=400):
    """greedy shrinking: keep the first smaller candidate that still yields a finding with `key`"""
    if not hasattr(mod, 'shrink'):
        return case
    cur = case
    spent = 0
    improved = True
    while improved and spent < budget:
        improved = False
        for cand in mod.shrink(cur):
            spent += 1
            try:
                res = eval_one(mod, cand)
            except Exception:
                continue
            if any(f['key'] == key and f['kind'] == 'property' for f in res['findings']):
                cur = cand
                improved = True
                break
            if spent >= budget:
                break
    return cur


def run_property(modname: str, tier: str, seed: int, replay: str | None = None) -> int:
    t0 = time.time()
    mod = importlib.import_module(modname)
    pid = mod.ID
    src = core.stage_build()
    ftargets, fthms = [], {}
    for fname in foundations_of(mod):
        fmod = importlib.import_module(fname)
        if hasattr(fmod, 'for_property'):
            fmod.for_property(pid)      # a foundation serving several properties narrows LEAN_TARGETS / THEOREMS / cases() to this one
        ftargets += list(getattr(fmod, 'LEAN_TARGETS', []))
        fthms.update(getattr(fmod, 'THEOREMS', {}))
    lean = core.lean_obligations(pid, list(getattr(mod, 'LEAN_TARGETS', None) or []) + ftargets, fthms)
    if not lean.get('driver_ok', False):
        # without a driver nothing can be compared; report the broken obligation
        rp = core.write_replay(pid, dict(property=pid, broken='lean build (driver)', problems=lean['problems'],
                                          log=lean['log']))
        print(f'VIOLATION property={pid} replay={rp} no-failing-input-found')
        _evidence(mod, tier, seed, t0, lean, [], [], 1, {})
        return 1
    core.use_impl(src)
    if hasattr(mod, 'setup'):
        mod.setup(src)

    if replay:
        payload = json.loads(open(replay).read())
        case = payload.get('case')
        if case is None:
            print(f'replay file names a broken obligation, not an input: {payload.get("broken")}')
            print(json.dumps(lean['problems'], indent=1))
            return 0 if lean['ok'] else 1
        emod = importlib.import_module(case['foundation']) if isinstance(case, dict) and case.get('foundation') else mod
        res = eval_one(emod, case)
        print(json.dumps(res['findings'], indent=1, default=str))
        bad = [f for f in res['findings'] if f['kind'] == 'property']
        if bad:
            print(f'VIOLATION property={pid} replay={replay}')
            return 1
        print('replay: property holds on this input now')
        return 0

    rng = random.Random(seed * 1000003 + 17)
    cases = list(mod.cases(rng, tier))
    if getattr(mod, 'HISTORY', True):
        mark_history(cases)
    results = evaluate_parallel(mod, cases)
    # shared foundations this property's model rests on (e.g. the filter-iterator closed form F6):
    # their correspondence runs are part of the tie; a disagreement is a 'model' finding
    for fname in foundations_of(mod):
        fmod = importlib.import_module(fname)
        if hasattr(fmod, 'for_property'):
            fmod.for_property(pid)
        frng = random.Random(seed * 31337 + 3)
        fcases = list(fmod.cases(frng, tier))
        fres = evaluate_parallel(fmod, fcases)
        for c in fcases:
            c.setdefault('foundation', fname)
        cases += fcases
        results += fres

    broken = (not lean['ok']) or any(f['kind'] == 'model' for r in results for f in r['findings'])
    have_prop = any(f['kind'] == 'property' for r in results for f in r['findings'])
    searched = 0
    if broken and not have_prop and tier == 'quick' and hasattr(mod, 'cases'):
        # failing-input search: widen to the thorough generator with a fresh stream
        core.log('obligation/correspondence broken: widening the search for a failing input')
        rng2 = random.Random(seed * 7919 + 5)
        extra = list(mod.cases(rng2, 'search'))
        if getattr(mod, 'HISTORY', True):
            mark_history(extra)
        r2 = evaluate_parallel(mod, extra)
        searched = len(extra)
        cases += extra
        results += r2

    known = core.open_keys(pid)
    by_key = collections.OrderedDict()
    model_mism = []
    for case, res in zip(cases, results):
        for f in res['findings']:
            c = f.pop('case', None) or case
            if _hist(case) and isinstance(c, dict):
                c['_hist'] = 1
            if f['kind'] == 'property':
                by_key.setdefault(f['key'], []).append((c, f))
            else:
                model_mism.append((c, f))

    violations = 0
    known_seen = []
    for key, lst in by_key.items():
        if key in known:
            known_seen.append(key)
            print(f'KNOWN-FINDING: property={pid} {known[key]["what"]} [{key}; {len(lst)} case(s) this run]')
            continue
        case, f = min(lst, key=lambda cf: len(json.dumps(cf[0], default=str)))
        # a case that came from a shared foundation stage is shrunk / re-evaluated by that module, not by the property's own
        emod = importlib.import_module(case['foundation']) if isinstance(case, dict) and case.get('foundation') else mod
        small = shrink(emod, case, key)
        res = eval_one(emod, small) or {}
        ff = [x for x in res.get('findings', []) if x['key'] == key] or [f]
        rp = core.write_replay(pid, dict(property=pid, key=key, case=small, finding=ff[0], seed=seed, tier=tier,
                                          occurrences=len(lst), tree=core.tree_hash()))
        print(f'VIOLATION property={pid} replay={rp}')
        violations += 1
    if violations == 0 and (model_mism or not lean['ok']):
        # the tie is broken and no input on which the property itself fails was found
        unexplained = [(c, f) for c, f in model_mism if f['key'] not in known]
        for c, f in model_mism:
            if f['key'] in known and f['key'] not in known_seen:
                known_seen.append(f['key'])
                print(f'KNOWN-FINDING: property={pid} {known[f["key"]]["what"]} [{f["key"]}]')
        if unexplained or not lean['ok']:
            payload = dict(property=pid, broken=[], seed=seed, tier=tier, searched_extra=searched)
            if not lean['ok']:
                payload['broken'] += lean['problems']
                payload['lean_log'] = lean['log']
            if unexplained:
                c, f = unexplained[0]
                payload['broken'].append('correspondence model/implementation: ' + f['key'])
                payload['first_disagreement'] = dict(case=c, finding=f)
                payload['disagreements'] = len(unexplained)
            rp = core.write_replay(pid, payload)
            print(f'VIOLATION property={pid} replay={rp} no-failing-input-found')
            violations += 1
    _evidence(mod, tier, seed, t0, lean, cases, results, violations,
              dict(known_findings_seen=known_seen, search_extra=searched))
    return 1 if violations else 0


def _evidence(mod, tier, seed, t0, lean, cases, results, violations, extra):
    pid = mod.ID
    sigs = set()
    tags = collections.Counter()
    nblock = 0
    nevals = 0
    for c, r in zip(cases, results):
        nevals += int(r.get('n', 1))
        nblock += int(r.get('nontrivial_n', 0))
        if r.get('nontrivial'):
            sigs.add(str(r.get('sig')))
        for k, v in (r.get('tags') or {}).items():
            tags[f'{k}={v}'] += 1
    def _compact(c):
        if isinstance(c, dict):
            return {k: _compact(v) for k, v in c.items()}
        if isinstance(c, (list, tuple)) and len(c) > 32:
            return list(c[:32]) + [f'... ({len(c)} items)']
        return c
    plain = [c for c in cases if not (isinstance(c, dict) and 'block' in c)] or cases
    step = max(1, len(plain) // 5)
    samples = [_compact(c) for c in plain[::step]][:5] + [_compact(c) for c in cases if isinstance(c, dict) and 'block' in c][:1]
    cov = dict(
        obligations=lean['obligations'], discharged=lean['discharged'],
        checker_cmd=f'cd lean && lake build driver Mahotas.Properties.{pid} && lake env lean <#print axioms of every {pid}_* theorem>',
        trusted_base=['Lean 4.33 kernel', 'axioms: propext, Classical.choice, Quot.sound (audited per theorem)',
                      'translator/tables.py (regenerates Generated/*.lean from /repo)',
                      'harness correspondence (generators, canonicalisation, comparison)',
                      'Lean compiler for the native driver'] + list(getattr(mod, 'TRUSTED', [])),
        theorems=lean['theorems'], lean_problems=lean['problems'], generated=lean.get('generated', {}),
        evaluations=nevals, distinct_nontrivial=len(sigs) + nblock, rule=getattr(mod, 'RULE', ''),
        samples=samples or [dict(note='no cases run')],
        traces_validated_against_impl=nevals, distribution=dict(sorted(tags.items())),
        exhaustive=bool(getattr(mod, 'EXHAUSTIVE', {}).get(tier, False)),
        explanation=getattr(mod, 'EXPLANATION', ''),
    )
    cov.update(extra)
    # the shared / foundation stages that contributed cases to this run, with their own generation rules and assumptions
    stages = {}
    for fname in foundations_of(mod):
        try:
            fm = importlib.import_module(fname)
        except Exception:  # noqa
            continue
        stages[fname] = dict(rule=getattr(fm, 'RULE', ''), assumptions=list(getattr(fm, 'ASSUMPTIONS', [])),
                             cases=sum(1 for c in cases if isinstance(c, dict) and c.get('foundation') == fname),
                             lean_targets=list(getattr(fm, 'LEAN_TARGETS', []) or []))
    cov['stages'] = stages
    if hasattr(mod, 'coverage_extra'):
        cov.update(mod.coverage_extra())
    ev = dict(property_id=pid, tier='thorough' if tier == 'thorough' else 'quick', seed=seed,
              level=getattr(mod, 'LEVEL', 'proof'), coverage=cov,
              assumptions=list(getattr(mod, 'ASSUMPTIONS', [])), wall_s=round(time.time() - t0, 2),
              violations=violations)
    core.write_evidence(pid, ev)
