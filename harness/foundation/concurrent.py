"""Concurrent re-evaluation of a property's own functions (shared by the value properties C01-C07, C13-C20).

Every property statement quantifies over *every call*; a call issued while other threads are inside mahotas is still a
call.  A change that keeps a per-call table, scratch buffer or cache in static / module-level storage (a typical
"optimisation") leaves every single-threaded result untouched and breaks the property only for overlapping calls.  The
property's own check therefore also runs the thread stress of C12 (harness/props/c12.py: sequential reference first,
then the same calls from barrier-aligned threads, bit-for-bit comparison, shared-input and reference-count judges)
restricted to the functions the property names.  What is *proved* about concurrency lives in Properties/C12.lean; this
stage is validation / failing-input search only, like every correspondence run.

A mismatch is a `kind='property'` finding `concurrent:<key of c12>` of the property being checked: the value returned by
one of its functions for this input differs from the value the statement fixes (the sequential one was judged against
the Lean specification by the property's own cases).
"""
from __future__ import annotations
from ..props import c12, c12_extra

ID = 'CONC'
LEVEL = 'other'
LEAN_TARGETS: list = []
THEOREMS: dict = {}
PROPERTY = None

KERNELS = {
    'C01': ['erode', 'erode_u8', 'erode_shared_bc', 'dilate', 'dilate_b', 'erode_3d', 'dilate_3d', 'erode_float_bc', 'dilate_float_bc'],
    'C02': ['open', 'close', 'open_u8', 'close_b', 'cdilate', 'cerode', 'tophat_open', 'tophat_close', 'subm'],
    'C03': ['label', 'label_8', 'label_3d', 'label_float_bc'],
    'C04': ['cwatershed', 'cwatershed_lines', 'cwatershed_bc'],
    'C05': ['distance', 'distance_3d', 'distance_euclidean', 'gvoronoi'],
    'C06': ['convolve', 'convolve_u8', 'convolve1d', 'convolve_3d', 'gaussian_filter', 'gaussian_filter_d1',
            'gaussian_filter_d01', 'gaussian_filter1d_d2', 'laplacian_2D'],
    'C07': ['median_filter', 'median_shared_bc', 'rank_filter', 'mean_filter', 'template_match', 'template_match_fl', 'find', 'median_float_bc', 'rank_float_bc', 'mean_filter_bc'],
    'C09': ['erode_out', 'dilate_out', 'open_out', 'close_out', 'cerode_out', 'tophat_open_out', 'tophat_close_out', 'subm_out',
            'convolve_out', 'convolve1d_out', 'gaussian_filter_out', 'median_filter_out', 'rank_filter_out', 'mean_filter_out',
            'template_match_out', 'label_out', 'borders_out', 'hitmiss_out', 'majority_filter_out', 'regmax_out', 'locmin_out',
            'zoom_out', 'shift_out', 'spline_filter_out'],
    'C13': ['labeled_sum', 'labeled_max', 'labeled_min', 'labeled_size', 'bbox', 'labeled_bbox', 'relabel', 'remove_bordering',
            'remove_regions', 'is_same_labeling', 'filter_labeled', 'borders', 'border', 'bwperim', 'center_of_mass',
            'center_of_mass_labels', 'fullhistogram', 'fullhistogram_u16', 'croptobbox'],
    'C14': ['locmax', 'locmin', 'regmax', 'regmin', 'regmax_bc', 'locmax_shared_bc', 'regmin_shared_bc', 'close_holes',
            'hitmiss', 'hitmiss_u8', 'locmax_float_bc', 'regmin_float_bc', 'close_holes_bc'],
    'C15': ['thin', 'euler', 'euler_4', 'convexhull', 'fill_convexhull'],
    'C16': ['otsu', 'otsu_u16', 'otsu_ignore_zeros', 'rc', 'rc_u16', 'bernsen', 'gbernsen', 'soft_threshold'],
    'C17': ['haar', 'ihaar', 'daubechies', 'idaubechies', 'daubechies_d8', 'wavelet_center'],
    'C18': ['shift', 'shift_order1', 'zoom', 'spline_filter', 'spline_filter1d', 'imresize', 'resize_to'],
    'C19': ['haralick', 'haralick_3d', 'cooccurence', 'lbp', 'lbp_transform', 'zernike_moments', 'moments', 'surf_integral'],
    'C20': ['stretch', 'stretch_rgb', 'rgb2xyz', 'rgb2lab', 'rgb2grey', 'rgb2sepia', 'xyz2rgb', 'as_rgb'],
}
SLOW = {'haralick', 'haralick_3d', 'rc_u16'}
MEDIUM = {'thin', 'zernike_moments', 'lbp', 'lbp_transform', 'daubechies_d8', 'otsu_u16', 'fullhistogram_u16'}
# C12 itself: its own check has the full stress; here only the warning-emitting calls next to functions that run long in numpy
KERNELS['C12'] = ['stretch_big', 'majority_filter_even', 'erode_output_kw', 'spline_filter_output_kw', 'stretch', 'stretch_rgb']
# C08 speaks about every public function: the union of the above
KERNELS['C08'] = sorted({k for p_, ks in KERNELS.items() if p_ != 'C12' for k in ks})
RULE = ('per function of the property: the same function on three inputs of different shapes from 4-8 threads; one mix of all the '
        "property's functions on distinct inputs and one on shared inputs; compared bit-for-bit with the sequential results")
ASSUMPTIONS = ['thread stress samples schedules, it does not enumerate them (see C12 for what is proved about concurrency)']
TRUSTED = ['CPython threading, numpy']


def for_property(pid: str):
    global PROPERTY
    PROPERTY = pid


def cases(rng, tier):
    names = KERNELS.get(PROPERTY or '', [])
    if not names:
        return []
    reps = dict(quick=6, thorough=20, search=10)[tier if tier in ('quick', 'thorough', 'search') else 'quick']
    out = []
    pick = names if tier != 'quick' else (names if len(names) <= 10 else rng.sample(names, 8))

    def sizes_for(k):
        # images large enough that two calls really overlap while the lock is released (measured: a shared renumbering
        # table in label() shows in 0/6 runs on 12..26 px images, in 6/6 runs on 64..128 px images); the few kernels
        # that take more than a few milliseconds per call get small images and fewer repetitions
        if k in SLOW:
            return rng.sample([12, 14, 17, 21], 3), 2, 4
        if k in MEDIUM:
            return rng.sample([24, 28, 33, 40], 3), max(2, reps // 2), rng.choice([4, 8])
        return rng.sample([48, 64, 80, 96, 112, 128], 3), reps, rng.choice([8, 8, 16])
    for k in pick:
        sizes, r, nt = sizes_for(k)
        out.append(dict(kind='stress', threads=nt, shared=False, reps=r,
                        switch=1e-6 if rng.random() < 0.3 else None, reset_perimeter=False, timeout=120,
                        calls=[[k, rng.randint(0, 10 ** 6), sz] for sz in sizes]))
    # the same function, same shape, distinct data (a buffer keyed by shape/dtype is shared exactly then)
    for k in (pick if tier != 'quick' else rng.sample(pick, min(3, len(pick)))):
        sizes, r, nt = sizes_for(k)
        out.append(dict(kind='stress', threads=nt, shared=False, reps=r, switch=None,
                        reset_perimeter=False, timeout=120, calls=[[k, rng.randint(0, 10 ** 6), sizes[0]] for _ in range(3)]))
    mix = [k for k in names if k not in SLOW]
    mix = mix if len(mix) <= 8 else rng.sample(mix, 8)
    for shared in (False, True):
        out.append(dict(kind='stress', threads=rng.choice([4, 8, 16]), shared=shared, reps=max(2, reps // 2), switch=None,
                        reset_perimeter=False, timeout=120, rw=bool(shared and rng.random() < 0.5),
                        calls=[[k, rng.randint(0, 10 ** 6), rng.choice([24, 40, 64])] for k in mix]))
    for c in out:
        c['foundation'] = __name__
    return out


def evaluate(cs):
    res = c12.evaluate([{k: v for k, v in c.items() if k not in ('foundation', '_hist')} for c in cs])
    for r in res:
        for f in r.get('findings', []):
            if not f['key'].startswith('concurrent:'):
                f['key'] = 'concurrent:' + f['key']
        r.setdefault('tags', {})
        r['tags'] = dict(r['tags'], stage='concurrent')
    return res


assert all(k in c12.REGULAR + c12_extra.NAMES for ks in KERNELS.values() for k in ks)
