"""F11 — the scalar / index helper functions of the C++ sources, regenerated from their *text*.

`translator/cscalar.py` translates, on every run, the text of the small pure C++ functions the models rest on
(`fix_offset`, `erode_sub`, `dilate_add`, `subm` element body, `t_abs`, `margin_of`, …) into Lean definitions
(`lean/Mahotas/Generated/CScalar.lean`); `lean/Mahotas/Proofs/CScalarTies/*.lean` prove each generated definition equal
to the hand-written model definition the driver runs, for all arguments. So an edit of such a function is caught by
the Lean build (broken obligation) before any test input is needed.

This module
  * scopes the obligations per property: `for_property(pid)` (called by the engine before it reads them) narrows
    `LEAN_TARGETS` / `THEOREMS` / `cases()` to the tie files / theorems / differential cases of exactly the functions the
    property's Lean model mentions (word test on the property's Lean closure, the defining file excluded);
  * validates the translator itself (the trusted part) by a differential run: the extracted C++ text of each function
    is compiled stand-alone (g++, a tiny `extern "C"` shim with stub types, cached under /var/tmp/mahotas-verif) and
    compared with the generated Lean definition, evaluated by the native driver (op `cs`), on boundary-dense inputs.
    A disagreement is a broken correspondence: kind='model', key='cscalar:<function>'. A unit that does not compile against
    the stub types only loses the differential of that function (tag `differential=skipped-unit-does-not-compile`).
"""
from __future__ import annotations
import ctypes, fcntl, hashlib, os, subprocess
from pathlib import Path
from .. import core

ID = 'F11'
LEVEL = 'proof'
T = 'Mahotas.Proofs.CScalarTies.'
LEAN_TARGETS = ['Mahotas.Proofs.CScalarTies']

# function -> tie module, theorems, the model names whose use makes a property depend on the function, the model file
# that defines them (mentions inside that file do not count), the generated definitions (targets of translator/cscalar.py)
FUNCS = {
    'fix_offset': dict(tie=T + 'FixOffset', theorems=['Mahotas.cscalar_fix_offset_eq_model'],
                       words=['fixOffset', 'fixPos'], defined_in='Border.lean', targets=['fix_offset']),
    'erode_sub': dict(tie=T + 'ErodeSub', theorems=['Mahotas.cscalar_erode_sub_eq_model'],
                      words=['erodeSub'], defined_in='DType.lean', targets=['erode_sub', 'erode_sub_bool']),
    'dilate_add': dict(tie=T + 'DilateAdd', theorems=['Mahotas.cscalar_dilate_add_eq_model'],
                       words=['dilateAdd'], defined_in='DType.lean', targets=['dilate_add', 'dilate_add_bool']),
    'subm_elem': dict(tie=T + 'SubmElem', theorems=['Mahotas.cscalar_subm_elem_eq_model'],
                      words=['submElem'], defined_in='DType.lean', targets=['subm_elem']),
    't_abs': dict(tie=T + 'TAbs', theorems=['Mahotas.cscalar_t_abs_eq_model'],
                  words=['chebStep'], defined_in='C04.lean', targets=['t_abs']),
    'margin_of': dict(tie=T + 'MarginOf', theorems=['Mahotas.cscalar_margin_of_eq_model'],
                      words=['marginOf'], defined_in='C04.lean', targets=['margin_of']),
    'convex': dict(tie=T + 'Convex', theorems=['Mahotas.cscalar_isLeft_eq_model', 'Mahotas.cscalar_forward_cmp_eq_model',
                                               'Mahotas.cscalar_reverse_cmp_eq_model'],
                   words=['isLeft', 'forwardCmp', 'reverseCmp'], defined_in='C15.lean', targets=['isLeft', 'forward_cmp', 'reverse_cmp']),
    'at_flat': dict(tie=T + 'AtFlat', theorems=['Mahotas.cscalar_at_flat_eq_model'],
                    words=['atFlat'], defined_in='C08.lean', targets=['at_flat']),
    'pos_to_flat': dict(tie=T + 'PosToFlat', theorems=['Mahotas.cscalar_pos_to_flat_eq_model'],
                        words=['posToFlat'], defined_in='C08.lean', targets=['pos_to_flat']),
    'surf_rect': dict(tie=T + 'Surf', theorems=['Mahotas.cscalar_sum_rect_eq_model', 'Mahotas.cscalar_csum_rect_eq_model',
                                                'Mahotas.cscalar_haar_x_eq_model', 'Mahotas.cscalar_haar_y_eq_model'],
                      words=['sumRectAccesses', 'csumRectAccesses', 'haarXAccesses', 'haarYAccesses', 'haarAccesses'],
                      defined_in='C10Surf.lean', targets=['sum_rect', 'csum_rect', 'haar_x', 'haar_y']),
    'flat_to_pos': dict(tie=T + 'FlatToPos', theorems=['Mahotas.cscalar_flat_to_pos_eq_model'],
                        words=['flatToPos'], defined_in='C08.lean', targets=['flat_to_pos']),
    'spline_coeff': dict(tie=T + 'Spline', theorems=['Mahotas.cscalar_spline_coeff_eq_model'],
                         words=['splineCoeff'], defined_in='C18.lean', targets=['spline_coeff']),
    'dt_intersect': dict(tie=T + 'DtIntersect', theorems=['Mahotas.cscalar_dt_intersect_eq_model'],
                         words=['sInt'], defined_in='C05.lean', targets=['dt_intersect']),
    'fast_positions': dict(tie=T + 'FastPositions', theorems=['Mahotas.cscalar_fast_positions_eq_model'],
                           words=['fastPositions'], defined_in='C01.lean', targets=['fast_positions']),
    'union_find': dict(tie=T + 'UnionFind', theorems=['Mahotas.cscalar_uf_find_eq_model', 'Mahotas.cscalar_uf_compress_eq_model',
                                                      'Mahotas.cscalar_uf_join_eq_model'],
                       words=['labelModel', 'labelAddr', 'scanPixel', 'scanPixelAddr', 'parentsAddr'], defined_in='C03.lean',
                       targets=['uf_find', 'uf_compress', 'uf_join']),
    'fast_row': dict(tie=T + 'FastRow', theorems=['Mahotas.cscalar_fast_row_dy_eq_model', 'Mahotas.cscalar_fast_row_n_eq_model'],
                     words=['fastRow', 'fastErodeRow'], defined_in='C01.lean', targets=['fast_row_dy', 'fast_row_n']),
    'rank_currank': dict(tie=T + 'CurRank', theorems=['Mahotas.cscalar_rank_currank_eq_model'],
                         words=['curRankG'], defined_in='C07.lean', targets=['rank_currank']),
    'find2d_marks': dict(tie=T + 'Find2d', theorems=['Mahotas.cscalar_find2d_marks_eq_model'],
                         words=['findMarks', 'matchesAt'], defined_in='C07.lean', targets=['find2d_marks']),
    'find2d_accesses': dict(tie=T + 'Find2dAcc', theorems=['Mahotas.cscalar_find2d_accesses_eq_model'],
                            words=['find2dAccesses'], defined_in='C10.lean', targets=['find2d_accesses']),
    'lbp_map': dict(tie=T + 'Lbp', theorems=['Mahotas.cscalar_roll_right_eq_model', 'Mahotas.cscalar_lbp_map_eq_model'],
                    words=['rollRight32', 'lbpMap32', 'lbpMapLoop'], defined_in='C10Misc.lean', targets=['roll_right', 'lbp_map']),
}
THEOREMS = {f['tie']: list(f['theorems']) for f in FUNCS.values()}
THEOREMS_BY_FUNCTION = {k: {f['tie']: list(f['theorems'])} for k, f in FUNCS.items()}

RULE = ('per generated function: exhaustive small scope (fix_offset: 6 modes x lengths 0..9 x coordinates -30..30; '
        'saturating helpers: all pairs of a boundary set of each of the 9 integer dtypes, all 65536 pairs of int8/uint8 in '
        'the thorough tier; margin_of: ranks 0..4) plus seeded random large values; compiled C++ text vs generated Lean')
ASSUMPTIONS = ['index values below 2^40 (npy_intp functions) / 2^27 (the `int` window arithmetic of SURF) in the differential run: '
               'sums and products stay inside the C type, the standing no-index-overflow assumption']
TRUSTED = ['g++ (stand-alone compilation of the extracted function text for the translator differential)',
           'translator/cscalar.py (C-subset front end; validated by this differential run)']
EXPLANATION = ('CScalarTies (Lean, all arguments) proves generated definition = model definition; this run compares the '
               'generated definition with the compiled C++ text it was generated from.')


def functions_for(pid: str) -> list[str]:
    """the functions whose model counterpart the Lean files of property `pid` mention"""
    import re
    words = {}
    for f in core.lean_closure(pid):
        words[f.name] = words.get(f.name, set()) | set(re.findall(r'[A-Za-z_][\w]*', core.strip_comments(f.read_text())))
    out = []
    for k, fn in FUNCS.items():
        # mentions inside the defining file count only when that file is the property's own model
        if any(w in ws for name, ws in words.items() if (name != fn['defined_in'] or name.startswith(pid)) for w in fn['words']):
            out.append(k)
    return out


_CURRENT = None         # the property the module-level LEAN_TARGETS / THEOREMS / cases() are narrowed to (None = all functions)


def for_property(pid: str) -> dict:
    """called by the engine before it reads LEAN_TARGETS / THEOREMS / cases(): narrows them to the functions `pid` uses"""
    global LEAN_TARGETS, THEOREMS, _CURRENT
    fs = functions_for(pid)
    _CURRENT = pid
    LEAN_TARGETS = [FUNCS[k]['tie'] for k in fs]
    THEOREMS = {FUNCS[k]['tie']: list(FUNCS[k]['theorems']) for k in fs}
    return dict(LEAN_TARGETS=LEAN_TARGETS, THEOREMS=THEOREMS)


# ----------------------------------------------------------------------------------------------
# stand-alone compilation of the extracted C++ text

CTYPES = {'b1': 'bool', 'u8': 'uint8_t', 'u16': 'uint16_t', 'u32': 'uint32_t', 'u64': 'uint64_t',
          'i8': 'int8_t', 'i16': 'int16_t', 'i32': 'int32_t', 'i64': 'int64_t'}
DTS = list(CTYPES)
RANGE = {'b1': (0, 1), 'u8': (0, 255), 'u16': (0, 65535), 'u32': (0, 2 ** 32 - 1), 'u64': (0, 2 ** 64 - 1),
         'i8': (-128, 127), 'i16': (-2 ** 15, 2 ** 15 - 1), 'i32': (-2 ** 31, 2 ** 31 - 1), 'i64': (-2 ** 63, 2 ** 63 - 1)}

PRELUDE = r'''
#include <limits>
#include <cassert>
#include <algorithm>
#include <cstdint>
#include <cstdlib>
#include <cmath>
typedef long npy_intp;
struct gil_release { };
namespace numpy {
    typedef npy_intp index_type;
    struct position { int nd_; npy_intp position_[32]; npy_intp operator[](int i) const { return position_[i]; } };
    template <typename T> struct array_base {
        int nd; npy_intp dims[32];
        npy_intp dim(int i) const { return dims[i]; }
        int ndims() const { return nd; }
    };
    template <typename T> struct aligned_array {
        T* p; npy_intp n; npy_intp dims2[2]; mutable long trace[64]; mutable int ntrace;
        T* data() { return p; } const T* data() const { return p; } T* end() { return p + n; } const T* end() const { return p + n; }
        npy_intp dim(int k) const { return dims2[k]; }
        T at(int y, int x) const { if (ntrace < 62) { trace[ntrace++] = y; trace[ntrace++] = x; } return T(); }
        typedef T* iterator; typedef const T* const_iterator;
        T* begin() { return p; } const T* begin() const { return p; }
        npy_intp size() const { return n; }
    };
}
'''


def _unit(srcs: dict) -> str:
    s = [PRELUDE]
    have = set(srcs)
    if 'fix_offset' in have:
        name, vals = srcs['fix_offset']['enum']
        s.append('typedef enum { ' + ', '.join(f'{k} = {v}' for k, v in vals.items()) + ' } ' + name + ';')
        s.append('const npy_intp border_flag_value = std::numeric_limits<npy_intp>::max();')
        s += [d for d in srcs['fix_offset'].get('deps', []) if 'border_flag_value =' not in d]    # helpers / constants of the same file
        s.append(srcs['fix_offset']['text'])
        s.append('extern "C" long cs_fix_offset(long m, long cc, long len) { return fix_offset((ExtendMode)m, cc, len); }')
    s.append('namespace {')
    for k in ('t_abs', 'subm_elem', 'margin_of', 'erode_sub', 'erode_sub_bool', 'dilate_add', 'dilate_add_bool'):
        if k in have:
            s.append(srcs[k]['text'])
    s.append('}')
    if 't_abs' in have:
        s.append('extern "C" long cs_t_abs(long x) { return t_abs<npy_intp>(x); }')
    for dt, ct in CTYPES.items():
        for fn in ('erode_sub', 'dilate_add'):
            if fn in have and (dt != 'b1' or fn + '_bool' in have):
                s.append(f'extern "C" unsigned long cs_{fn}_{dt}(long a, long b) {{ return (unsigned long)(long){fn}<{ct}>(({ct})a, ({ct})b); }}')
        if 'subm_elem' in have and dt != 'b1':
            s.append(f'extern "C" unsigned long cs_subm_elem_{dt}(long a, long b) {{ {ct} x = ({ct})a; {ct} y = ({ct})b; '
                     f'numpy::aligned_array<{ct}> A; A.p = &x; A.n = 1; numpy::aligned_array<{ct}> B; B.p = &y; B.n = 1; '
                     f'subm<{ct}>(A, B); return (unsigned long)(long)x; }}')
    if 'margin_of' in have:
        s.append('extern "C" long cs_margin_of(int nd, const long* dims, const long* pos) { numpy::position p; p.nd_ = nd; '
                 'numpy::array_base<int> r; r.nd = nd; for (int i = 0; i < nd; ++i) { p.position_[i] = pos[i]; r.dims[i] = dims[i]; } '
                 'return margin_of<int>(p, r); }')
    if 'isLeft' in have or 'forward_cmp' in have or 'reverse_cmp' in have:
        s.append('namespace { struct Point { Point(int y_, int x_):y(y_), x(x_) { } long y, x; };')
        for k in ('forward_cmp', 'reverse_cmp', 'isLeft'):
            if k in have:
                s.append(srcs[k]['text'])
        s.append('}')
        s.append('static Point cs_pt(long y, long x) { Point p(0, 0); p.y = y; p.x = x; return p; }')
        if 'isLeft' in have:
            s.append('extern "C" long cs_isLeft(long a, long b, long c, long d, long e, long f) { return (long)isLeft(cs_pt(a, b), cs_pt(c, d), cs_pt(e, f)); }')
        for k in ('forward_cmp', 'reverse_cmp'):
            if k in have:
                s.append(f'extern "C" long cs_{k}(long a, long b, long c, long d) {{ return {k}(cs_pt(a, b), cs_pt(c, d)) ? 1 : 0; }}')
    if 'sum_rect' in have:
        s.append('namespace { typedef numpy::aligned_array<double> integral_image_type;')
        for k in ('sum_rect', 'csum_rect', 'haar_x', 'haar_y'):
            if k in have:
                s.append(srcs[k]['text'])
        s.append('}')
        calls = {'sum_rect': 'sum_rect(A, (int)a[0], (int)a[1], (int)a[2], (int)a[3])',
                 'csum_rect': 'csum_rect(A, (int)a[0], (int)a[1], (int)a[2], (int)a[3], (int)a[4], (int)a[5])',
                 'haar_x': 'haar_x(A, (int)a[0], (int)a[1], (int)a[2])', 'haar_y': 'haar_y(A, (int)a[0], (int)a[1], (int)a[2])'}
        for k, call in calls.items():
            if k in have:
                s.append(f'extern "C" int cs_{k}(const long* dims, const long* a, long* out) {{ integral_image_type A; A.p = 0; A.n = 0; '
                         f'A.dims2[0] = dims[0]; A.dims2[1] = dims[1]; A.ntrace = 0; {call}; for (int i = 0; i < A.ntrace; ++i) out[i] = A.trace[i]; '
                         'return A.ntrace; }')
    if 'roll_right' in have:
        s.append('typedef uint32_t npy_uint32;')
        s.append('namespace {')
        for k in ('roll_right', 'lbp_map'):
            if k in have:
                s.append(srcs[k]['text'])
        s.append('}')
        s.append('extern "C" unsigned long cs_roll_right(unsigned long v, long points) { return roll_right((npy_uint32)v, (int)points); }')
        if 'lbp_map' in have:
            s.append('extern "C" unsigned long cs_lbp_map(unsigned long v, long points) { return map((npy_uint32)v, (int)points); }')
    if 'spline_coeff' in have:
        # the selected `switch (order)` statement as it stands, around one slot of `result`
        s.append('extern "C" double cs_spline_coeff(long order_, double y, double r0) { typedef double FT; const int order = (int)order_; '
                 'double result[1] = { r0 }; const int hh = 0; ' + srcs['spline_coeff']['slice'] + ' return result[0]; }')
    if 'dt_intersect' in have:
        s.append('#include <vector>')
        s += srcs['dt_intersect'].get('helpers', [])
        s.append('extern "C" double cs_dt_intersect(double fq, long q_, double fv, long vk) { typedef double BaseType; const int q = (int)q_; '
                 'const int stride = 1; int k = 0; int v[1] = { (int)vk }; std::vector<double> fvec((q > vk ? q : vk) + 1); double* f = &fvec[0]; '
                 'f[q] = fq; f[vk] = fv; double s = 0; ' + srcs['dt_intersect']['slice'] + ' return s; }')
    if 'fast_positions' in have:
        s.append('#include <vector>')
        s.append('struct cs_bc { const long* p; long d0, d1; long dim(int k) const { return k ? d1 : d0; } '
                 'bool at(long y, long x) const { return p[y * d1 + x] != 0; } };')
        s.append('extern "C" long cs_fast_positions(long Nx_, long By_, long Bx_, const long* bc, long* out) { const numpy::index_type Nx = Nx_; '
                 'cs_bc Bc = { bc, By_, Bx_ }; ' + srcs['fast_positions']['slice'] +
                 ' for (size_t i = 0; i < positions.size(); ++i) out[i] = positions[i]; return (long)positions.size(); }')
    if 'uf_find' in have:
        s.append('#include <vector>')
        s.append('namespace {')
        for k in ('uf_find', 'uf_compress', 'uf_join'):
            if k in have:
                s.append(srcs[k]['text'])
        s.append('}')
        s.append('extern "C" long cs_uf(int which, int n, const long* in, long i, long j, long* out) { std::vector<int> d(in, in + n); d.push_back(0); long r = 0; '
                 'if (which == 0) r = find(&d[0], (int)i);' + (' else if (which == 1) compress(&d[0], (int)i);' if 'uf_compress' in have else '') +
                 (' else join(&d[0], (int)i, (int)j);' if 'uf_join' in have else '') + ' for (int k = 0; k < n; ++k) out[k] = d[k]; return r; }')
    if 'fast_row_n' in have:
        s.append('#include <vector>')
        s.append('namespace {')
        s += srcs['fast_row_n'].get('helpers', [])
        s.append('}')
        s.append('extern "C" long cs_fast_row(long which, long y_, long Ny_, long Nx_, long pdy, long pdx) { const numpy::index_type y = y_, Ny = Ny_, Nx = Nx_; '
                 'std::vector<numpy::index_type> positions; positions.push_back(pdy); positions.push_back(pdx); const numpy::index_type j = 0; '
                 + srcs['fast_row_n']['slice'] + ' return which ? n : dy; }')
    if 'rank_currank' in have:
        s.append('extern "C" long cs_rank_currank(long n, long N2, long rank) { ' + srcs['rank_currank']['slice'] + ' return currank; }')
    if 'find2d_marks' in have or 'find2d_accesses' in have:
        # the whole kernel, on arrays whose `at(y, x)` logs (array id, y, x) and stays inside the buffer
        s.append('static long* f2_log; static long f2_n, f2_cap;')
        s.append('namespace numpy { template <typename T> struct f2_array { T* p; npy_intp d0, d1; int tag; '
                 'npy_intp dim(int k) const { return k == 0 ? d0 : d1; } bool is_carray() const { return true; } '
                 'T* data() const { return p; } '
                 'T& at(npy_intp y, npy_intp x) const { static T dummy; if (f2_n + 3 <= f2_cap) { f2_log[f2_n] = tag; f2_log[f2_n + 1] = y; f2_log[f2_n + 2] = x; } '
                 'f2_n += 3; dummy = T(); return (y >= 0 && y < d0 && x >= 0 && x < d1) ? p[y * d1 + x] : dummy; } }; }')
        s.append('#define aligned_array f2_array')
        s.append('namespace {')
        s.append(srcs['find2d_marks' if 'find2d_marks' in have else 'find2d_accesses']['text'])
        s.append('}')
        s.append('#undef aligned_array')
        s.append('extern "C" long cs_find2d(const long* d, long* a, long* t, long* marks, long* log, long cap) { '
                 'numpy::f2_array<long> A; A.p = a; A.d0 = d[0]; A.d1 = d[1]; A.tag = 0; numpy::f2_array<long> Tg; Tg.p = t; Tg.d0 = d[2]; Tg.d1 = d[3]; Tg.tag = 1; '
                 'long n = d[0] * d[1]; bool* ob = new bool[n > 0 ? n : 1]; numpy::f2_array<bool> O; O.p = ob; O.d0 = d[0]; O.d1 = d[1]; O.tag = 2; '
                 'f2_log = log; f2_n = 0; f2_cap = cap; find2d<long>(A, Tg, O); for (long i = 0; i < n; ++i) marks[i] = ob[i] ? 1 : 0; delete[] ob; return f2_n; }')
    if 'at_flat' in have or 'pos_to_flat' in have or 'flat_to_pos' in have:
        s.append('template <typename BaseType> struct cs_array { bool is_carray_; BaseType* data_; int nd; npy_intp dims_[32]; npy_intp strides_[32];')
        s.append('  typedef numpy::position position;')
        s.append('  BaseType* data() { return data_; } int ndims() const { return nd; } npy_intp dim(int d) const { return dims_[d]; } '
                 'npy_intp stride(int d) const { return strides_[d]; }')
        for k in ('at_flat', 'pos_to_flat', 'flat_to_pos'):
            if k in have:
                s.append(srcs[k]['text'])
        s.append('};')
        s.append('static cs_array<char> cs_mk(int nd, const long* dims, const long* strides, long carray) { cs_array<char> A; A.is_carray_ = carray != 0; '
                 'A.data_ = (char*)(1L << 40); A.nd = nd; for (int i = 0; i < nd; ++i) { A.dims_[i] = dims[i]; A.strides_[i] = strides ? strides[i] : 0; } return A; }')
        if 'at_flat' in have:
            s.append('extern "C" long cs_at_flat(long p, long carray, long data, int nd, const long* dims, const long* strides) { '
                     'cs_array<char> A = cs_mk(nd, dims, strides, carray); return (&A.at_flat(p) - A.data_) + data; }')
        if 'flat_to_pos' in have:
            s.append('extern "C" void cs_flat_to_pos(long p, int nd, const long* dims, long* out) { cs_array<char> A = cs_mk(nd, dims, 0, 0); '
                     'numpy::position P = A.flat_to_pos((int)p); for (int i = 0; i < nd; ++i) out[i] = P.position_[i]; }')
        if 'pos_to_flat' in have:
            s.append('extern "C" long cs_pos_to_flat(int nd, const long* dims, const long* pos) { cs_array<char> A = cs_mk(nd, dims, 0, 0); '
                     'numpy::position P; P.nd_ = nd; for (int i = 0; i < nd; ++i) P.position_[i] = pos[i]; return A.pos_to_flat(P); }')
    return '\n'.join(s) + '\n'


# one compilation unit per function (per group where one calls the other): an edit that stops a unit from compiling
# stand-alone (it uses something the stub types do not offer) costs the differential of that function only — and is not
# a finding: translation and tie are checked independently of it, the differential only validates the translator
GROUPS = [['fix_offset'], ['t_abs'], ['subm_elem'], ['margin_of'], ['erode_sub', 'erode_sub_bool'], ['dilate_add', 'dilate_add_bool'],
          ['isLeft'], ['forward_cmp'], ['reverse_cmp'], ['at_flat'], ['pos_to_flat'], ['flat_to_pos'],
          ['sum_rect', 'csum_rect', 'haar_x', 'haar_y'], ['roll_right', 'lbp_map'], ['find2d_marks', 'find2d_accesses'],
          ['spline_coeff'], ['rank_currank'], ['dt_intersect'], ['fast_positions'], ['uf_find', 'uf_compress', 'uf_join'], ['fast_row_n', 'fast_row_dy']]
_LIB = {}
_SRCS = None


def _lib(fn: str):
    """(ctypes library | None, error text | None, sources) for the group of `fn`, from the function texts of the current tree"""
    global _SRCS
    group = next((g for g in GROUPS if fn in g), None)
    if group is None:
        return None, f'no compilation group for {fn}', {}
    key = group[0]
    if key in _LIB:
        return _LIB[key]
    if _SRCS is None:
        import sys
        sys.path.insert(0, str(core.VERIF))
        from translator import cscalar as tr
        _SRCS = tr.extracted_sources(core.REPO)
    srcs = {k: v for k, v in _SRCS.items() if k in group}
    unit = _unit(srcs)
    h = hashlib.sha256(unit.encode()).hexdigest()[:20]
    core.CACHE.mkdir(parents=True, exist_ok=True)
    d = core.CACHE / f'cscalar-{h}'
    with open(core.CACHE / f'cscalar-{h}.lock', 'a') as lk:
        fcntl.flock(lk, fcntl.LOCK_EX)
        try:
            if not (d / 'ok').exists():
                d.mkdir(exist_ok=True)
                (d / 'unit.cpp').write_text(unit)
                r = subprocess.run(['g++', '-O2', '-fno-strict-overflow', '-DNDEBUG', '-shared', '-fPIC', '-o', str(d / 'unit.so'),
                                    str(d / 'unit.cpp')], stdout=subprocess.PIPE, stderr=subprocess.STDOUT, text=True)
                (d / 'build.log').write_text(r.stdout)
                (d / 'ok').write_text('1' if r.returncode == 0 else '0')
            ok = (d / 'ok').read_text() == '1'
        finally:
            fcntl.flock(lk, fcntl.LOCK_UN)
    if not ok:
        _LIB[key] = (None, (d / 'build.log').read_text()[-1500:], srcs)
    else:
        _LIB[key] = (ctypes.CDLL(str(d / 'unit.so')), None, srcs)
    return _LIB[key]


def _signed(v: int, dt: str) -> int:
    """the value of dtype `dt` carried by the low bits of the 64-bit pattern `v`"""
    lo, hi = RANGE[dt]
    n = hi - lo + 1
    return (v - lo) % n + lo


def _real_rows(case):
    try:
        return _real_rows_(case)
    except AttributeError as e:
        # the unit has no shim for this function: its text (or the selected statements) could not be extracted from the
        # current source — the translator reports that as an untranslatable block; only the differential is skipped
        return None, f'no stand-alone shim for {case["fn"]} in the compiled unit ({e})'


def _real_rows_(case):
    lib, err, srcs = _lib(case['fn'])
    if lib is None:
        return None, 'stand-alone compilation of the extracted text failed: ' + (err or '')
    fn, dt = case['fn'], case.get('dt')
    out = []
    if fn == 'fix_offset':
        f = lib.cs_fix_offset
        f.restype, f.argtypes = ctypes.c_long, [ctypes.c_long] * 3
        flag = 2 ** 63 - 1
        for m, cc, ln in case['rows']:
            r = f(m, cc, ln)
            out.append('u' if r == flag else str(r))
    elif fn == 't_abs':
        f = lib.cs_t_abs
        f.restype, f.argtypes = ctypes.c_long, [ctypes.c_long]
        out = [str(f(x)) for (x,) in case['rows']]
    elif fn in ('erode_sub', 'dilate_add', 'subm_elem'):
        f = getattr(lib, f'cs_{fn}_{dt}')
        f.restype, f.argtypes = ctypes.c_ulong, [ctypes.c_long] * 2
        for a, b in case['rows']:
            out.append(str(_signed(f(_signed(a, 'i64'), _signed(b, 'i64')), dt)))
    elif fn == 'margin_of':
        f = lib.cs_margin_of
        f.restype = ctypes.c_long
        for dims, pos in case['rows']:
            n = len(dims)
            A = (ctypes.c_long * max(1, n))(*dims)
            P = (ctypes.c_long * max(1, n))(*pos)
            out.append(str(f(n, A, P)))
    elif fn in ('isLeft', 'forward_cmp', 'reverse_cmp'):
        f = getattr(lib, 'cs_' + fn)
        n = 6 if fn == 'isLeft' else 4
        f.restype, f.argtypes = ctypes.c_long, [ctypes.c_long] * n
        for row in case['rows']:
            r = f(*row)
            out.append(str(r) if fn == 'isLeft' else ('true' if r else 'false'))
    elif fn == 'at_flat':
        f = lib.cs_at_flat
        f.restype = ctypes.c_long
        for (p, carray, data), dims, strides in case['rows']:
            n = len(dims)
            A = (ctypes.c_long * max(1, n))(*dims)
            S = (ctypes.c_long * max(1, n))(*strides)
            out.append(str(f(ctypes.c_long(p), ctypes.c_long(carray), ctypes.c_long(data), n, A, S)))
    elif fn in ('sum_rect', 'csum_rect', 'haar_x', 'haar_y'):
        f = getattr(lib, 'cs_' + fn)
        f.restype = ctypes.c_int
        buf = (ctypes.c_long * 64)()
        for a, dims in case['rows']:
            n = f((ctypes.c_long * 2)(*dims), (ctypes.c_long * len(a))(*a), buf)
            out.append(';'.join(f'{buf[i]},{buf[i + 1]}' for i in range(0, n, 2)))
    elif fn in ('roll_right', 'lbp_map'):
        f = getattr(lib, 'cs_' + fn)
        f.restype, f.argtypes = ctypes.c_ulong, [ctypes.c_ulong, ctypes.c_long]
        out = [str(f(v, pts)) for v, pts in case['rows']]
    elif fn == 'spline_coeff':
        f = lib.cs_spline_coeff
        f.restype, f.argtypes = ctypes.c_double, [ctypes.c_long, ctypes.c_double, ctypes.c_double]
        out = [str(core.f2bits(f(o, core.bits2f(y), core.bits2f(r0)))) for o, y, r0 in case['rows']]
    elif fn == 'dt_intersect':
        f = lib.cs_dt_intersect
        f.restype, f.argtypes = ctypes.c_double, [ctypes.c_double, ctypes.c_long, ctypes.c_double, ctypes.c_long]
        out = [str(core.f2bits(f(core.bits2f(fq), q, core.bits2f(fv), vk))) for fq, q, fv, vk in case['rows']]
    elif fn == 'fast_positions':
        f = lib.cs_fast_positions
        f.restype = ctypes.c_long
        for (nx,), dims, bc in case['rows']:
            n = dims[0] * dims[1]
            B = (ctypes.c_long * max(1, n))(*bc)
            O = (ctypes.c_long * (2 * n + 2))()
            k = f(ctypes.c_long(nx), ctypes.c_long(dims[0]), ctypes.c_long(dims[1]), B, O)
            out.append(','.join(str(O[i]) for i in range(k)))
    elif fn in ('uf_find', 'uf_compress', 'uf_join'):
        f = lib.cs_uf
        f.restype = ctypes.c_long
        which = ('uf_find', 'uf_compress', 'uf_join').index(fn)
        for a, data in case['rows']:
            n = len(data)
            D = (ctypes.c_long * max(1, n))(*data)
            O = (ctypes.c_long * max(1, n))()
            r = f(which, n, D, ctypes.c_long(a[1]), ctypes.c_long(a[2] if len(a) > 2 else 0), O)
            arr = ','.join(str(O[k]) for k in range(n))
            out.append(f'{r};{arr}' if fn == 'uf_find' else arr)
    elif fn in ('fast_row_dy', 'fast_row_n'):
        f = lib.cs_fast_row
        f.restype, f.argtypes = ctypes.c_long, [ctypes.c_long] * 6
        for row in case['rows']:
            if fn == 'fast_row_dy':
                y, ny, pdy, pdx = row
                out.append(str(f(0, y, ny, 1, pdy, pdx)))
            else:
                y, ny, nx, pdy, pdx = row
                out.append(str(f(1, y, ny, nx, pdy, pdx)))
    elif fn == 'rank_currank':
        f = lib.cs_rank_currank
        f.restype, f.argtypes = ctypes.c_long, [ctypes.c_long] * 3
        out = [str(f(*row)) for row in case['rows']]
    elif fn in ('find2d_marks', 'find2d_accesses'):
        f = lib.cs_find2d
        f.restype = ctypes.c_long
        for dims, tdims, adata, tdata in case['rows']:
            n, nt = dims[0] * dims[1], tdims[0] * tdims[1]
            cap = 3 * (4 * n * max(1, nt) + 2 * n + 16)
            D = (ctypes.c_long * 4)(*(list(dims) + list(tdims)))
            A = (ctypes.c_long * max(1, n))(*adata)
            Tg = (ctypes.c_long * max(1, nt))(*tdata)
            M = (ctypes.c_long * max(1, n))()
            L = (ctypes.c_long * cap)()
            k = f(D, A, Tg, M, L, cap)
            if fn == 'find2d_marks':
                out.append(';'.join(f'{i // dims[1]},{i % dims[1]}' for i in range(n) if M[i]))
            else:
                out.append(';'.join(f'{L[i]},{L[i + 1]},{L[i + 2]}' for i in range(0, min(k, cap), 3)) + ('' if k <= cap else ';overflow'))
    elif fn == 'flat_to_pos':
        f = lib.cs_flat_to_pos
        f.restype = None
        for (p,), dims in case['rows']:
            n = len(dims)
            A = (ctypes.c_long * max(1, n))(*dims)
            O = (ctypes.c_long * max(1, n))()
            f(ctypes.c_long(p), n, A, O)
            out.append(','.join(str(O[i]) for i in range(n)))
    elif fn == 'pos_to_flat':
        f = lib.cs_pos_to_flat
        f.restype = ctypes.c_long
        for dims, pos in case['rows']:
            n = len(dims)
            A = (ctypes.c_long * max(1, n))(*dims)
            P = (ctypes.c_long * max(1, n))(*pos)
            out.append(str(f(n, A, P)))
    else:
        return None, f'no shim for {fn}'
    return out, None


def _lines(case):
    fn, dt = case['fn'], case.get('dt')
    lean = fn + '_bool' if (dt == 'b1' and fn in ('erode_sub', 'dilate_add')) else fn
    pre = f'cs fn={lean}' + (f' dt={dt}' if dt else '')
    if fn in ('margin_of', 'pos_to_flat'):
        return [f'{pre} l0={core.fmt_ints(d)} l1={core.fmt_ints(p)}' for d, p in case['rows']]
    if fn in ('sum_rect', 'csum_rect', 'haar_x', 'haar_y', 'flat_to_pos'):
        return [f'{pre} a={core.fmt_ints(a)} l0={core.fmt_ints(d)}' for a, d in case['rows']]
    if fn in ('uf_find', 'uf_compress', 'uf_join'):
        return [f'{pre} a={core.fmt_ints(a)} l0={core.fmt_ints(d)}' for a, d in case['rows']]
    if fn == 'fast_positions':
        return [f'{pre} a={core.fmt_ints(a)} l0={core.fmt_ints(d)} l1={core.fmt_ints(bc)}' for a, d, bc in case['rows']]
    if fn == 'find2d_marks':
        return [f'{pre} l0={core.fmt_ints(d)} l1={core.fmt_ints(td)} l2={core.fmt_ints(a)} l3={core.fmt_ints(t)}' for d, td, a, t in case['rows']]
    if fn == 'find2d_accesses':
        return [f'{pre} l0={core.fmt_ints(d)} l1={core.fmt_ints(td)}' for d, td, a, t in case['rows']]
    if fn == 'at_flat':
        return [f'{pre} a={core.fmt_ints(a)} l0={core.fmt_ints(d)} l1={core.fmt_ints(st)}' for a, d, st in case['rows']]
    return [f'{pre} a={core.fmt_ints(r)}' for r in case['rows']]


def evaluate(cases):
    lines, spans = [], []
    for c in cases:
        ls = _lines(c)
        spans.append((len(lines), len(lines) + len(ls)))
        lines += ls
    drv = core.drive(lines)
    out = []
    for c, (a, b) in zip(cases, spans):
        key = 'cscalar:' + c['fn']
        tags = dict(fn=c['fn'], dt=c.get('dt', '-'), src=c.get('src', 'random'))
        real, err = _real_rows(c)
        findings = []
        n = len(c['rows'])
        if real is None:
            # the extracted text does not compile against the stub types: the differential of this function is skipped
            # (recorded in the tags); translation failures and broken ties are reported by the Lean obligations
            tags['differential'] = 'skipped-unit-does-not-compile'
            out.append(dict(findings=[], nontrivial=False, n=0, sig=None, tags=tags, note=(err or '')[:300]))
            continue
        else:
            bad = []
            for row, d, r in zip(c['rows'], drv[a:b], real):
                if 'error' in d or d.get('r') != r:
                    bad.append(dict(args=row, dt=c.get('dt'), cpp=r, lean=d.get('r', d.get('error'))))
            if bad:
                findings.append(dict(kind='model', key=key,
                                     detail=dict(what='compiled C++ text != generated Lean definition', n_bad=len(bad), first=bad[:4]),
                                     case=dict(c, rows=[bad[0]['args']])))
        out.append(dict(findings=findings, nontrivial=True, nontrivial_n=n, n=n,
                        sig=None, tags=tags))
    return out


# ----------------------------------------------------------------------------------------------
# generators

BIG = [2 ** 31 - 1, 2 ** 31, 2 ** 32 + 3, 10 ** 6 + 3, 2 ** 39 + 7]


def _boundary(dt, rng, extra=4):
    lo, hi = RANGE[dt]
    vs = {lo, lo + 1, hi, hi - 1, 0, 1}
    if dt != 'b1':
        vs |= {lo + 2, hi - 2, (lo + hi) // 2, (lo + hi) // 2 + 1, 2, 3, 100 % (hi + 1)}
        if lo < 0:
            vs |= {-1, -2, -3, -100 if lo <= -100 else -1}
        for _ in range(extra):
            vs.add(rng.randint(lo, hi))
    return sorted(v for v in vs if lo <= v <= hi)


def _chunks(rows, n):
    return [rows[i:i + n] for i in range(0, len(rows), n)]


def _cases_fix_offset(rng, tier):
    rows = [[m, cc, ln] for m in range(6) for ln in range(0, 10) for cc in range(-30, 31)]
    out = [dict(fn='fix_offset', rows=ch, src='exhaustive') for ch in _chunks(rows, 1000)]
    nr = dict(quick=3000, thorough=60000, search=20000)[tier]
    rows = []
    for _ in range(nr):
        ln = rng.choice([rng.randint(1, 12), rng.randint(1, 2000), rng.choice(BIG)])
        u = rng.random()
        if u < 0.5:
            k = rng.randint(-4, 4)
            cc = k * ln + rng.randint(-3, 3)
        elif u < 0.8:
            cc = rng.randint(-5 * ln, 5 * ln)
        else:
            cc = rng.choice([-1, 1]) * rng.choice(BIG)
        rows.append([rng.randrange(6), cc, ln])
    out += [dict(fn='fix_offset', rows=ch, src='random') for ch in _chunks(rows, 1000)]
    return out


def _cases_sat(fn, rng, tier):
    out = []
    for dt in DTS:
        if dt == 'b1' and fn == 'subm_elem':
            continue                      # subm is never instantiated at bool (py_subm dispatches on the integer types)
        vs = _boundary(dt, rng, 6 if tier == 'quick' else 40)
        rows = [[a, b] for a in vs for b in vs]
        if tier == 'thorough' and dt in ('i8', 'u8'):
            lo, hi = RANGE[dt]
            rows = [[a, b] for a in range(lo, hi + 1) for b in range(lo, hi + 1)]
        lo, hi = RANGE[dt]
        for _ in range(dict(quick=100, thorough=3000, search=1500)[tier]):
            rows.append([rng.randint(lo, hi), rng.randint(lo, hi)])
        out += [dict(fn=fn, dt=dt, rows=ch, src='boundary') for ch in _chunks(rows, 2000)]
    return out


def _cases_t_abs(rng, tier):
    rows = [[x] for x in list(range(-20, 21)) + BIG + [-b for b in BIG]]
    rows += [[rng.randint(-2 ** 40, 2 ** 40)] for _ in range(200)]
    return [dict(fn='t_abs', rows=rows, src='boundary')]


def _cases_margin(rng, tier):
    rows = [[[], []]]
    for _ in range(dict(quick=1500, thorough=30000, search=10000)[tier]):
        nd = rng.choice([1, 1, 2, 2, 2, 3, 3, 4, 5])
        dims = [rng.choice([1, 2, 3, rng.randint(1, 9), rng.choice(BIG)]) for _ in range(nd)]
        pos = [rng.choice([0, d - 1, d // 2, rng.randint(-2, d + 1)]) for d in dims]
        rows.append([dims, pos])
    return [dict(fn='margin_of', rows=ch, src='random') for ch in _chunks(rows, 1000)]


def _cases_convex(rng, tier):
    n = dict(quick=1500, thorough=30000, search=10000)[tier]
    def pt():
        m = rng.choice([2, 3, 10, 2 ** 20])
        return [rng.randint(-m, m), rng.randint(-m, m)]
    out = [dict(fn='isLeft', rows=[pt() + pt() + pt() for _ in range(n)], src='random')]
    for fn in ('forward_cmp', 'reverse_cmp'):
        rows = [[a, b, c, d] for a in range(-1, 2) for b in range(-1, 2) for c in range(-1, 2) for d in range(-1, 2)]
        rows += [pt() + pt() for _ in range(n // 3)]
        out.append(dict(fn=fn, rows=rows, src='boundary'))
    return out


def _cases_at_flat(rng, tier):
    rows = [[[0, 0, 7], [], []], [[0, 1, 7], [], []]]
    for _ in range(dict(quick=1500, thorough=30000, search=10000)[tier]):
        nd = rng.choice([1, 1, 2, 2, 2, 3, 3, 4, 5])
        dims = [rng.choice([1, 2, 3, rng.randint(1, 9)]) for _ in range(nd)]
        strides = [rng.randint(-60, 60) for _ in range(nd)]
        size = 1
        for d in dims:
            size *= d
        p = rng.choice([0, size - 1, rng.randrange(size), rng.randrange(2 * size + 1), size])
        rows.append([[p, rng.choice([0, 0, 0, 1]), rng.randint(-1000, 1000)], dims, strides])
    return [dict(fn='at_flat', rows=ch, src='random') for ch in _chunks(rows, 1000)]


def _cases_pos_to_flat(rng, tier):
    rows = [[[], []]]
    for _ in range(dict(quick=1500, thorough=30000, search=10000)[tier]):
        nd = rng.choice([1, 1, 2, 2, 2, 3, 3, 4, 5])
        dims = [rng.choice([1, 2, 3, rng.randint(1, 9), rng.randint(1, 60)]) for _ in range(nd)]
        pos = [rng.choice([0, d - 1, d // 2, rng.randint(-3, d + 2)]) for d in dims]
        rows.append([dims, pos])
    return [dict(fn='pos_to_flat', rows=ch, src='random') for ch in _chunks(rows, 1000)]


def _cases_surf(rng, tier):
    n = dict(quick=800, thorough=15000, search=5000)[tier]
    out = []
    for fn, k in (('sum_rect', 4), ('csum_rect', 6), ('haar_x', 3), ('haar_y', 3)):
        rows = []
        for _ in range(n):
            dims = [rng.choice([0, 1, 2, 3, rng.randint(1, 12), rng.randint(1, 300)]) for _ in range(2)]
            m = max(dims) + 3
            a = [rng.choice([0, 1, -1, rng.randint(-m, m), rng.randint(-3 * m, 3 * m), rng.choice([-1, 1]) * rng.choice([10 ** 6, 2 ** 27])])
                 for _ in range(k)]
            rows.append([a, dims])
        out.append(dict(fn=fn, rows=rows, src='random'))
    return out


def _cases_lbp(rng, tier):
    n = dict(quick=1500, thorough=30000, search=10000)[tier]
    out = []
    for fn in ('roll_right', 'lbp_map'):
        rows = [[v, pts] for pts in range(1, 33) for v in (0, 1, 2, 3, (1 << pts) - 1, 1 << (pts - 1), 5 % (1 << pts))]
        for _ in range(n):
            pts = rng.choice([rng.randint(1, 32), 4, 8, 12, 16, 24, 32])
            v = rng.choice([rng.getrandbits(pts), rng.getrandbits(32), 2 ** 32 - 1])
            rows.append([v, pts])
        out.append(dict(fn=fn, rows=rows, src='boundary'))
    return out


def _cases_flat_to_pos(rng, tier):
    rows = [[[0], []], [[5], []]]
    for _ in range(dict(quick=1500, thorough=30000, search=10000)[tier]):
        nd = rng.choice([1, 1, 2, 2, 2, 3, 3, 4, 5])
        dims = [rng.choice([1, 2, 3, rng.randint(1, 9)]) for _ in range(nd)]
        size = 1
        for d in dims:
            size *= d
        p = rng.choice([0, size - 1, size, rng.randrange(size), rng.randint(-2 * size, 3 * size), -1, -size])
        rows.append([[p], dims])
    return [dict(fn='flat_to_pos', rows=ch, src='random') for ch in _chunks(rows, 1000)]


def _cases_find2d(fn, rng, tier):
    """images up to 6 x 6 over a two-letter alphabet with planted copies of the template; templates with 0 … N+2 rows / columns
    (empty, fitting exactly, larger than the image); `find2d_accesses` runs on constant data (no comparison ever fails: the
    compiled kernel then performs the longest trace, the one the generated definition lists)"""
    rows = []
    for _ in range(dict(quick=400, thorough=8000, search=3000)[tier]):
        n0, n1 = rng.randint(0, 6), rng.randint(0, 6)
        t0 = rng.choice([0, 1, 1, 2, 2, 3, n0, n0 + 1, n0 + 2])
        t1 = rng.choice([0, 1, 1, 2, 2, 3, n1, n1 + 1, n1 + 2])
        if fn == 'find2d_accesses':
            rows.append([[n0, n1], [t0, t1], [0] * (n0 * n1), [0] * (t0 * t1)])
            continue
        t = [rng.randint(0, 1) for _ in range(t0 * t1)]
        a = [rng.randint(0, 1) if rng.random() < 0.6 else 0 for _ in range(n0 * n1)]
        for _ in range(rng.randint(0, 3)):                  # plant copies (possibly overlapping / cut by the border)
            if n0 and n1:
                y, x = rng.randint(0, n0 - 1), rng.randint(0, n1 - 1)
                for sy in range(t0):
                    for sx in range(t1):
                        if y + sy < n0 and x + sx < n1:
                            a[(y + sy) * n1 + x + sx] = t[sy * t1 + sx]
        rows.append([[n0, n1], [t0, t1], a, t])
    return [dict(fn=fn, rows=ch, src='random') for ch in _chunks(rows, 400)]


def _cases_spline(rng, tier):
    """orders 0 … 7 (0, 6, 7 have no case: `result[hh]` keeps its value) x distances at, one ulp below and one ulp above every
    threshold of the piecewise polynomials, small multiples of 1/8, and random distances in [0, 4)"""
    import math
    ys = [0.0]
    for t in (0.5, 1.0, 1.5, 2.0, 2.5, 3.0):
        ys += [t, math.nextafter(t, 0.0), math.nextafter(t, 9.0)]
    ys += [k / 8 for k in range(0, 33)]
    for _ in range(dict(quick=300, thorough=6000, search=2000)[tier]):
        ys.append(rng.random() * 4)
        ys.append(rng.choice([0.5, 1.0, 1.5, 2.0, 2.5, 3.0]) + (rng.random() - 0.5) * 2.0 ** -rng.randint(10, 50))
    rows = [[o, core.f2bits(y), core.f2bits(rng.choice([0.0, 7.25, -1.5]))] for o in range(0, 8) for y in ys]
    return [dict(fn='spline_coeff', rows=ch, src='boundary') for ch in _chunks(rows, 2000)]


def _cases_dt(rng, tier):
    """roots 0 <= v[k] < q < 5000 with sample values that are integers, halves, the finite `infinity` fill values of distance.py
    and large doubles (the quotient is then rounded: the order of the two divisions is observable)"""
    rows = []
    for _ in range(dict(quick=1500, thorough=30000, search=8000)[tier]):
        q = rng.choice([rng.randint(1, 12), rng.randint(1, 4999)])
        vk = rng.randint(0, q - 1)
        val = lambda: rng.choice([0.0, float(rng.randint(0, 50)), float(rng.randint(0, 10 ** 7)), rng.randint(0, 99) / 2, 1e12 + rng.randint(0, 999),
                                  rng.random() * 1e6, float(2 ** 31 + rng.randint(0, 99))])
        rows.append([core.f2bits(val()), q, core.f2bits(val()), vk])
    return [dict(fn='dt_intersect', rows=ch, src='random') for ch in _chunks(rows, 1500)]


def _cases_fastpos(rng, tier):
    """structuring elements 0 … 7 x 0 … 9 (wider than the image: the clamps act), images with 0, 1, 2, 3 and more columns"""
    rows = []
    for _ in range(dict(quick=1200, thorough=20000, search=6000)[tier]):
        by, bx = rng.randint(0, 7), rng.choice([rng.randint(0, 9), rng.randint(5, 9)])
        nx = rng.choice([0, 1, 1, 2, 2, 3, 4, rng.randint(1, 12)])
        p = rng.choice([0.2, 0.6, 1.0])
        rows.append([[nx], [by, bx], [int(rng.random() < p) for _ in range(by * bx)]])
    return [dict(fn='fast_positions', rows=ch, src='random') for ch in _chunks(rows, 1200)]


def _cases_uf(rng, tier):
    """random parent forests (every chain ends in a root; node numbers permuted; background entries -1 that nothing points to),
    long chains included; find / compress from every kind of node, join of two foreground nodes; fuel = N + 1 as in the model"""
    out = {k: [] for k in ('uf_find', 'uf_compress', 'uf_join')}
    for _ in range(dict(quick=600, thorough=12000, search=4000)[tier]):
        n = rng.choice([1, 2, 3, rng.randint(1, 12), rng.randint(1, 40)])
        perm = list(range(n))
        rng.shuffle(perm)
        bg = [rng.random() < 0.25 for _ in range(n)]
        if all(bg):
            bg[0] = False
        fg = [k for k in range(n) if not bg[k]]
        style = rng.choice(['chain', 'random', 'flat'])
        par = [-1] * n
        for idx, k in enumerate(fg):
            if idx == 0 or (style != 'chain' and rng.random() < 0.2):
                p = k
            else:
                p = fg[idx - 1] if style == 'chain' else (fg[0] if style == 'flat' else rng.choice(fg[:idx]))
            par[perm[k]] = perm[p]
        nodes = [perm[k] for k in fg]
        i, j = rng.choice(nodes), rng.choice(nodes)
        out['uf_find'].append([[n + 1, i], par])
        out['uf_compress'].append([[n + 1, i], par])
        out['uf_join'].append([[n + 1, i, j], par])
    return [dict(fn=k, rows=ch, src='random') for k, rows in out.items() for ch in _chunks(rows, 600)]


def _cases_fastrow(rng, tier):
    """every row of images up to 6 rows x every offset -8 … 8 (beyond the image on both sides), widths 0 … 9"""
    r1 = [[y, ny, dy, dx] for ny in range(1, 7) for y in range(ny) for dy in range(-8, 9) for dx in (-2, 0, 3)]
    r2 = [[0, 1, nx, 0, dx] for nx in range(0, 10) for dx in range(-11, 12)]
    for _ in range(300):
        ny = rng.randint(1, 10 ** 6)
        r1.append([rng.randint(0, ny - 1), ny, rng.randint(-2 * ny, 2 * ny), rng.randint(-5, 5)])
        r2.append([0, 1, rng.randint(0, 10 ** 6), 0, rng.randint(-10 ** 6, 10 ** 6)])
    return [dict(fn='fast_row_dy', rows=r1, src='exhaustive'), dict(fn='fast_row_n', rows=r2, src='exhaustive')]


def _cases_currank(rng, tier):
    """every (n, N2, rank) with rank < N2 <= 12, n <= N2; random footprints up to 2^20 samples (n * rank below 2^53)"""
    rows = [[n, n2, r] for n2 in range(1, 13) for n in range(0, n2 + 1) for r in range(0, n2)]
    for _ in range(dict(quick=1000, thorough=20000, search=6000)[tier]):
        n2 = rng.choice([rng.randint(1, 200), rng.randint(1, 2 ** 20)])
        rows.append([rng.randint(0, n2), n2, rng.randint(0, n2 - 1)])
    return [dict(fn='rank_currank', rows=ch, src='boundary') for ch in _chunks(rows, 2000)]


GENERATORS = {
    'spline_coeff': _cases_spline,
    'rank_currank': _cases_currank,
    'fast_row': _cases_fastrow,
    'union_find': _cases_uf,
    'fast_positions': _cases_fastpos,
    'dt_intersect': _cases_dt,
    'find2d_marks': lambda rng, tier: _cases_find2d('find2d_marks', rng, tier),
    'find2d_accesses': lambda rng, tier: _cases_find2d('find2d_accesses', rng, tier),
    'flat_to_pos': _cases_flat_to_pos,
    'lbp_map': _cases_lbp,
    'surf_rect': _cases_surf,
    'convex': _cases_convex,
    'at_flat': _cases_at_flat,
    'pos_to_flat': _cases_pos_to_flat,
    'fix_offset': _cases_fix_offset,
    'erode_sub': lambda rng, tier: _cases_sat('erode_sub', rng, tier),
    'dilate_add': lambda rng, tier: _cases_sat('dilate_add', rng, tier),
    'subm_elem': lambda rng, tier: _cases_sat('subm_elem', rng, tier),
    't_abs': _cases_t_abs,
    'margin_of': _cases_margin,
}


def cases_for(pid, rng, tier):
    """differential cases for the functions property `pid` depends on (every function when pid is None)"""
    fs = list(FUNCS) if pid is None else functions_for(pid)
    out = []
    for k in FUNCS:                     # fixed order: the stream of `rng` must not depend on dict order of the caller
        cs = GENERATORS[k](rng, tier)
        if k in fs:
            out += cs
    return out


def cases(rng, tier):
    return cases_for(_CURRENT, rng, tier)


def shrink(case):
    rows = case['rows']
    if len(rows) > 1:
        yield dict(case, rows=rows[:len(rows) // 2])
        yield dict(case, rows=rows[len(rows) // 2:])
