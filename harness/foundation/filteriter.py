"""F6 — the offset-table mechanism of `filter_iterator` refines the closed form.

Ties the Lean transliteration (lean/Mahotas/Model/FilterIter.lean, theorem `filterIter_refines` in
lean/Mahotas/Proofs/FilterIter.lean) to the REAL `filter_iterator` without any C++ hook:

  * the array is int64 and its element at logical position q holds the id ravel(q) + 1;
  * `mahotas.convolve(A, W, mode)` walks A with a `filter_iterator<T>(array, filter, mode, compress=true)`
    and computes sum_j W_j * A[retrieved_j] in double, dropping flagged samples;
  * W is zero except for up to three chosen filter elements that carry the weights 1, 2^17, 2^34,
    so the base-2^17 digits of the result are exactly the ids of the elements the real iterator
    retrieved for those footprint elements at every array position (0 = flagged / dropped);
  * the Lean driver (op `f6`) answers, for the same ashape / fshape / footprint / mode, the coordinate
    offsets retrieved by the transliterated table mechanism AND by the closed form.

All three must agree. A disagreement is a broken correspondence: kind='model', key='F6:offset-table'.
"""
from __future__ import annotations
import os, pickle, signal
import numpy as np
from .. import core, gen

ID = 'F6'
LEVEL = 'proof'
KEY = 'F6:offset-table'
LEAN_TARGETS = ['Mahotas.Proofs.FilterIter']
THEOREMS = {'Mahotas.Proofs.FilterIter': ['Mahotas.filterIter_refines', 'Mahotas.filterIter_refines_walk',
                                         'Mahotas.filterIter_position', 'Mahotas.filterIter_refines_elemOffset']}
MODES = ['nearest', 'wrap', 'reflect', 'mirror', 'constant', 'ignore']
W_BITS = 17
MAX_WORK = 250000          # bound on regions * filter_size (work of init_filter_offsets) per case
RULE = ('exhaustive 1-D scope (array lengths 1..6 x filter lengths 1..8 x 6 modes, every filter element, 2 layouts); '
        'random 1-4 D, axis lengths 1..6, filter lengths 1..8 per axis (smaller than / equal to / larger than the array, '
        'even and odd), 6 modes x 7 memory layouts, up to three footprint elements (corners, centre, random). '
        'Non-trivial = the table has more than one region; distinct = distinct protocol line + layout.')
ASSUMPTIONS = ['origins = 0 (filter_iterator never passes origins)',
               'ids < 2^17 (arrays of at most 6^4 elements) so that the three weights decode uniquely; sums < 2^53 are exact in double',
               "mode 'constant' with cval = 0 (the only value mahotas accepts): flagged samples contribute nothing, as in 'ignore'"]
TRUSTED = ['numpy (array construction, layout views)',
           'mahotas.convolve as the observer of filter_iterator::retrieve (sum of weight * retrieved value in double)']
EXPLANATION = ('filterIter_refines (Lean, all ranks/shapes/modes) proves table mechanism = closed form on the transliteration; '
               'this run compares both with what the real filter_iterator retrieved inside mahotas.convolve.')


def _mode_codes():
    from mahotas._filters import mode2int
    return mode2int


def _line(case, codes):
    fshape = case['fshape']
    n = int(np.prod(fshape)) if len(fshape) else 1
    fp = [0] * n
    for e in case['elems']:
        fp[e] = 1
    return (f"f6 ashape={gen.enc_shape(case['ashape'])} fshape={gen.enc_shape(fshape)} "
            f"fp={','.join(map(str, fp))} mode={codes[case['mode']]}")


def _parse_walk(s):
    """'a,b|u;…' -> list over positions of list over footprint elements of (tuple | None)"""
    if s == '':
        return []
    out = []          # a lone '-' is ONE position with an empty footprint (arrays here never have 0 elements)
    for pos in s.split(';'):
        row = []
        if pos != '-':
            for e in pos.split('|'):
                row.append(None if e == 'u' else tuple(int(x) for x in e.split(',')))
        out.append(row)
    return out


def _ids_from_offsets(ashape, walk, nelem):
    """ids (ravel(p + off) + 1, 0 = flagged, -1 = outside the array / malformed) per position per element"""
    ashape = tuple(ashape)
    N = int(np.prod(ashape))
    res = []
    if len(walk) != N:
        return None
    for i, row in enumerate(walk):
        p = np.unravel_index(i, ashape)
        if len(row) != nelem:
            return None
        ids = []
        for off in row:
            if off is None:
                ids.append(0)
                continue
            if len(off) != len(ashape):
                ids.append(-1)
                continue
            q = tuple(int(a) + int(b) for a, b in zip(p, off))
            if all(0 <= x < d for x, d in zip(q, ashape)):
                ids.append(int(np.ravel_multi_index(q, ashape)) + 1)
            else:
                ids.append(-1)
        res.append(ids)
    return res


def _real(case):
    """what the real filter_iterator retrieved: ids per position per chosen element (in the order of case['elems'])"""
    import mahotas as mh
    ashape = tuple(case['ashape'])
    fshape = tuple(case['fshape'])
    N = int(np.prod(ashape))
    A = (np.arange(N, dtype=np.int64) + 1).reshape(ashape)
    Al = gen.relayout(A, case.get('layout', 'C'))
    W = np.zeros(fshape, np.int64)
    for t, e in enumerate(case['elems']):
        W[np.unravel_index(e, fshape)] = 1 << (W_BITS * t)
    if case.get('wlayout') == 'F':
        W = np.asfortranarray(W)
    before = Al.copy()
    R = np.asarray(mh.convolve(Al, W, mode=case['mode']))
    flat = [int(x) for x in R.ravel(order='C').tolist()]
    mask = (1 << W_BITS) - 1
    ids = [[(v >> (W_BITS * t)) & mask for t in range(len(case['elems']))] for v in flat]
    rest = [v >> (W_BITS * len(case['elems'])) for v in flat]
    return ids, rest, bool(np.array_equal(before, Al)), R.shape


def _real_batch(cases):
    """`_real` for every case, computed in a forked child: a broken offset table makes the real kernel read
    through wild offsets, so a crash (or a hang) of the real code must come back as a finding, not kill the
    worker. On an abnormal exit the batch is bisected down to the offending case(s)."""
    if not cases:
        return []
    rfd, wfd = os.pipe()
    pid = os.fork()
    if pid == 0:
        code = 1
        try:
            os.close(rfd)
            signal.alarm(20 + len(cases) // 20)
            out = []
            for c in cases:
                try:
                    out.append(('ok', _real(c)))
                except Exception as e:      # a Python-level error of the real code is reported per case
                    out.append(('error', f'{type(e).__name__}: {e}'))
            with os.fdopen(wfd, 'wb') as fh:
                pickle.dump(out, fh)
            code = 0
        finally:
            os._exit(code)
    os.close(wfd)
    with os.fdopen(rfd, 'rb') as fh:
        blob = fh.read()
    _, status = os.waitpid(pid, 0)
    if status == 0 and blob:
        try:
            out = pickle.loads(blob)
            if len(out) == len(cases):
                return out
        except Exception:
            pass
    if len(cases) == 1:
        sig = os.WTERMSIG(status) if os.WIFSIGNALED(status) else None
        return [('crash', f'real code died: signal={sig} status={status}')]
    h = len(cases) // 2
    return _real_batch(cases[:h]) + _real_batch(cases[h:])


def _evaluate_one(case, drv, realres):
    findings = []
    elems = list(case['elems'])
    order = sorted(range(len(elems)), key=lambda t: elems[t])   # Lean stores footprint elements in C order
    nelem = len(elems)
    a, f = case['ashape'], case['fshape']
    rel = ('larger' if any(y > x for x, y in zip(a, f)) else 'equal' if list(a) == list(f) else 'smaller-or-equal')
    tags = dict(ndim=len(a), mode=case['mode'], layout=case.get('layout', 'C'), nelem=nelem, filter=rel,
                parity=('even' if any(y % 2 == 0 for y in f) else 'odd'), src=case.get('src', 'random'))
    nontrivial = int(drv.get('tsize', 0) or 0) > int(drv.get('size', 0) or 0)
    if 'error' in drv:
        findings.append(dict(kind='model', key=KEY, detail=dict(what='driver error', error=drv['error'])))
        return dict(findings=findings, nontrivial=False, sig=None, tags=tags)
    if realres[0] != 'ok':
        findings.append(dict(kind='model', key=KEY, detail=dict(what='real code ' + realres[0], info=realres[1],
                                                                  table_eq_closed=drv.get('agree'))))
        return dict(findings=findings, nontrivial=bool(nontrivial), sig=None, tags=tags)
    tab = _ids_from_offsets(case['ashape'], _parse_walk(drv.get('table', '')), nelem)
    clo = _ids_from_offsets(case['ashape'], _parse_walk(drv.get('closed', '')), nelem)
    real, rest, untouched, rshape = realres[1]
    if tab is None or clo is None or int(drv.get('size', -1)) != nelem:
        findings.append(dict(kind='model', key=KEY, detail=dict(what='malformed driver answer', drv=drv)))
    else:
        # reorder the Lean columns (C order of the filter) into the order of case['elems']
        inv = [0] * nelem
        for col, t in enumerate(order):
            inv[t] = col
        tab = [[row[inv[t]] for t in range(nelem)] for row in tab]
        clo = [[row[inv[t]] for t in range(nelem)] for row in clo]
        bad = []
        for i, (r, ta, cl) in enumerate(zip(real, tab, clo)):
            if not (r == ta == cl) or rest[i] != 0:
                bad.append(dict(flat=i, pos=[int(x) for x in np.unravel_index(i, tuple(case['ashape']))],
                                real=r, table=ta, closed=cl, rest=rest[i]))
        if bad or list(rshape) != list(case['ashape']):
            which = []
            if any(x['real'] != x['closed'] for x in bad):
                which.append('real!=closed')
            if any(x['real'] != x['table'] for x in bad):
                which.append('real!=table')
            if any(x['table'] != x['closed'] for x in bad):
                which.append('table!=closed')
            findings.append(dict(kind='model', key=KEY,
                                 detail=dict(what=' '.join(which) or 'shape', n_bad=len(bad), first=bad[:4])))
    if not untouched:
        findings.append(dict(kind='model', key='F6:input-modified', detail={}))
    return dict(findings=findings, nontrivial=bool(nontrivial), sig=None, tags=tags)


def evaluate(cases):
    codes = _mode_codes()
    lines = [_line(c, codes) for c in cases]
    drvs = core.drive(lines)
    reals = _real_batch(cases)
    out = []
    for case, line, drv, rr in zip(cases, lines, drvs, reals):
        r = _evaluate_one(case, drv, rr)
        r['sig'] = line + ' ' + case.get('layout', 'C') + ' ' + ','.join(map(str, case['elems']))
        out.append(r)
    return out


# ----------------------------------------------------------------------------------------------
# generators

def _work(ashape, fshape):
    w = int(np.prod(fshape))
    for a, f in zip(ashape, fshape):
        w *= min(a, f)
    return w


def _pick_elems(rng, fshape):
    n = int(np.prod(fshape))
    corners = []
    nd = len(fshape)
    for bits in range(1 << nd):
        k = tuple((fshape[d] - 1) if (bits >> d) & 1 else 0 for d in range(nd))
        corners.append(int(np.ravel_multi_index(k, fshape)))
    centre = int(np.ravel_multi_index(tuple(f // 2 for f in fshape), fshape))
    r = rng.random()
    want = 0 if r < 0.01 else rng.choice([1, 2, 3, 3, 3])
    want = min(want, n)
    elems = []
    tries = 0
    while len(elems) < want and tries < 50:
        tries += 1
        u = rng.random()
        e = rng.choice(corners) if u < 0.45 else centre if u < 0.55 else rng.randrange(n)
        if e not in elems:
            elems.append(e)
    return elems


def _rand_case(rng):
    nd = rng.choice([1, 2, 2, 2, 3, 3, 4])
    while True:
        ashape = [rng.choice([1, 2, 3]) if rng.random() < 0.35 else rng.randint(1, 6) for _ in range(nd)]
        fshape = []
        regime = rng.random()
        for a in ashape:
            u = rng.random()
            if regime < 0.30:
                fshape.append(rng.randint(1, a))           # nowhere larger than the array
            elif u < 0.15:
                fshape.append(a)                           # equal
            elif u < 0.30:
                fshape.append(min(8, a + rng.choice([1, 2])))  # just larger
            elif u < 0.40:
                fshape.append(max(1, a - 1))               # just smaller
            elif u < 0.50:
                fshape.append(min(8, 2 * a + rng.choice([-1, 0, 1])))  # about twice the array
            else:
                fshape.append(rng.randint(1, 8))
        fshape = [max(1, f) for f in fshape]
        if _work(ashape, fshape) <= MAX_WORK:
            break
    return dict(ashape=ashape, fshape=fshape, elems=_pick_elems(rng, fshape), mode=rng.choice(MODES),
                layout=rng.choice(gen.LAYOUTS), wlayout=rng.choice(['C', 'C', 'F']), src='random')


def _exhaustive_1d():
    out = []
    for a in range(1, 7):
        for f in range(1, 9):
            for mode in MODES:
                for lo in range(0, f, 3):
                    out.append(dict(ashape=[a], fshape=[f], elems=list(range(lo, min(f, lo + 3))), mode=mode,
                                    layout='C' if (a + f + lo) % 2 == 0 else 'strided', src='exh1d'))
    return out


def _corners_2d(rng, n):
    """2-D cases that put a != f relations of both kinds on the two axes, all four filter corners covered pairwise"""
    out = []
    for _ in range(n):
        a = [rng.randint(1, 6), rng.randint(1, 6)]
        f = [rng.randint(1, 8), rng.randint(1, 8)]
        cs = [0, f[1] - 1, (f[0] - 1) * f[1], f[0] * f[1] - 1]
        elems = []
        for e in rng.sample(cs, 3):
            if e not in elems:
                elems.append(e)
        out.append(dict(ashape=a, fshape=f, elems=elems, mode=rng.choice(MODES), layout=rng.choice(gen.LAYOUTS),
                        src='corners2d'))
    return out


def cases(rng, tier):
    nrand = dict(quick=800, thorough=28500, search=12000)[tier]
    ncorn = dict(quick=160, thorough=960, search=600)[tier]
    out = [] if tier == 'search' else _exhaustive_1d()
    out += _corners_2d(rng, ncorn)
    for _ in range(nrand):
        out.append(_rand_case(rng))
    return out


def shrink(case):
    a, f, elems = case['ashape'], case['fshape'], case['elems']
    if case.get('layout', 'C') != 'C':
        yield dict(case, layout='C')
    if case.get('wlayout', 'C') != 'C':
        yield dict(case, wlayout='C')
    for t in range(len(elems)):
        yield dict(case, elems=elems[:t] + elems[t + 1:])
    for d in range(len(a)):
        if a[d] > 1:
            yield dict(case, ashape=a[:d] + [a[d] - 1] + a[d + 1:])
        if f[d] > 1:
            # shrink the filter along d, keeping the coordinates of the chosen elements when they still fit
            nf = f[:d] + [f[d] - 1] + f[d + 1:]
            ks = [np.unravel_index(e, tuple(f)) for e in elems]
            if all(k[d] < nf[d] for k in ks):
                yield dict(case, fshape=nf, elems=[int(np.ravel_multi_index(k, tuple(nf))) for k in ks])
