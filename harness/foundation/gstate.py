"""Process-wide state must not be touched by a call (shared stage of C08 and C12).

C08: "the value returned … depends only on the logical content of its arguments … the same across repeated calls";
C12: "no call observes another call's temporaries".  Both fail through state that is neither an argument nor a result:
the interpreter's warning filters, numpy's error state and print options, the floating-point environment of the calling
thread (rounding mode, flush-to-zero / denormals-are-zero), the global random generators, the recursion limit, the
working directory, leaked threads.  A function that edits such state *while it runs* (``warnings.catch_warnings`` is
process-wide) changes what concurrent calls in other threads do; one that leaves it edited changes what later calls do.

Each case runs, in a fresh interpreter, a batch of registry kernels one after the other on the main thread while a
monitor thread samples the process-wide part of that state as fast as it can (switch interval 1e-6: it runs whenever the
kernel releases the lock inside numpy or mahotas); after every call the full state, including the floating-point
environment of the calling thread, is compared with the state before the first call.
Findings: `kind='property'`, key `gstate:during:<what>:<function>` / `gstate:after:<what>:<function>`.
Validation / failing-input search only; nothing here is a proof.
"""
from __future__ import annotations
import json, os, subprocess, sys
from .. import core
from ..props import c12, c12_extra  # noqa: F401

ID = 'GSTATE'
LEVEL = 'other'
LEAN_TARGETS: list = []
THEOREMS: dict = {}
PROPERTY = None
PY = core.PY
SERVES = ('C08', 'C12')
RULE = ('every kernel of the stress registry (raising ones excluded), in batches, each in a fresh interpreter: one call on a '
        '96-192 px input and one on a 1 x N strip, a monitor thread sampling warnings.filters / numpy error state during the '
        'call, full state (incl. rounding mode and subnormal arithmetic of the calling thread) compared after it')
ASSUMPTIONS = ['sampling sees an edit of process-wide state only while the kernel has released the lock (numpy loops over more than '
               'a few hundred elements, mahotas kernels): the inputs are large enough for that']
TRUSTED = ['CPython warnings / threading, numpy']


def for_property(pid: str):
    global PROPERTY
    PROPERTY = pid


def _names():
    import re
    src = (core.VERIF / 'harness' / 'props' / 'c12.py').read_text()
    own = re.findall(r"^\s*reg\('([A-Za-z0-9_]+)'", src, re.M)
    names = [n for n in dict.fromkeys(own + list(c12_extra.NAMES)) if not n.startswith(('raise_', 'native_', 'selftest'))]
    return names


def cases(rng, tier):
    if PROPERTY not in SERVES:
        return []
    names = _names()
    rng.shuffle(names)
    out = []
    for i in range(0, len(names), 20):
        out.append(dict(kind='gstate', kernels=names[i:i + 20], seed=rng.randint(0, 10 ** 6), size=rng.choice([96, 128, 192]),
                        timeout=300, foundation=__name__))
    return out


# ------------------------------------------------------------------------------------------------ child side

def _fp_env(np):
    """observable floating-point environment of the calling thread"""
    tiny = np.array([5e-324, 2.2250738585072014e-308 / 4])
    one = np.array([1.0])
    return dict(subnormal_inputs_kept=bool(((tiny * one) != 0).all()),            # denormals-are-zero
                subnormal_results_kept=bool((np.array([2.2250738585072014e-308]) / 4 != 0).all()),   # flush-to-zero
                round_to_nearest=bool(((one + 2.0 ** -53) == 1.0).all() and ((one - 2.0 ** -54) == 1.0).all()
                                      and ((-one - 2.0 ** -53) == -1.0).all()))


def _state(np):
    import warnings, sys as _s, threading, locale, decimal, random
    return dict(filters_id=id(warnings.filters), filters=[repr(f) for f in warnings.filters], np_err=dict(np.geterr()),
                printoptions=repr(sorted(np.get_printoptions().items())), reclimit=_s.getrecursionlimit(),
                cwd=os.getcwd(), threads=threading.active_count(), locale=repr(locale.getlocale()),
                decimal_prec=decimal.getcontext().prec, np_random=repr(np.random.get_state()[1][:6].tolist()),
                py_random=hash(random.getstate()), fp=_fp_env(np), switch=_s.getswitchinterval())


def _run(case):
    import threading, warnings
    import numpy as np
    warnings.simplefilter('ignore')
    K = c12._kernels()
    findings = []
    base = _state(np)
    ncalls = 0
    sys.setswitchinterval(1e-6)
    base['switch'] = sys.getswitchinterval()
    orig_filters = warnings.filters
    orig_err = dict(np.geterr())
    for name in case['kernels']:
        if name not in K:
            continue
        fn, uses = K[name]
        for variant in ('square', 'strip'):
            I = c12.Inputs(case['seed'] + ncalls, case['size'] if variant == 'square' else 24, False)
            for u in uses:
                try:
                    a = I.get(u)
                    if variant == 'strip' and a.ndim == 2 and a.shape[0] > 3 and u in ('f', 'b', 'b8', 'fl', 'lab', 'f16', 'neg'):
                        I._cache[u] = np.ascontiguousarray(a[:1, :])         # a 1 x N strip (singleton axis)
                except Exception:
                    pass
            seen, stop = [], [False]

            def monitor():
                while not stop[0]:
                    if warnings.filters is not orig_filters:
                        seen.append('warning-filters')
                        return
                    if np.geterr() != orig_err:
                        seen.append('numpy-error-state')
                        return
            th = threading.Thread(target=monitor, daemon=True)
            th.start()
            r = c12._call(fn, I)
            stop[0] = True
            th.join(5)
            ncalls += 1
            if variant == 'strip' and r[0] == 'exc':
                pass                                       # a strip may be outside a function's domain: only the state matters
            for what in seen:
                findings.append(dict(kind='property', key=f'gstate:during:{what}:{name}', detail=dict(
                    note='process-wide state was edited while the call ran (visible to every other thread)', variant=variant)))
            now = _state(np)
            diff = {k: (base[k], now[k]) for k in base if now[k] != base[k]}
            if diff:
                what = sorted(diff)[0] if 'fp' not in diff else 'fp-environment'
                findings.append(dict(kind='property', key=f'gstate:after:{what}:{name}', detail=dict(
                    changed={k: [str(v[0])[:200], str(v[1])[:200]] for k, v in diff.items()}, variant=variant,
                    note='state that is neither an argument nor a result differs after the call')))
                return dict(findings=findings, nontrivial=True, sig=None, tags=dict(stage='gstate', outcome='changed'), n=ncalls)
    return dict(findings=findings, nontrivial=ncalls > 0, sig=json.dumps(case['kernels'][:3]),
                tags=dict(stage='gstate', batch=len(case['kernels'])), n=ncalls)


def _child_main():
    case = json.loads(sys.stdin.read())
    sys.stdout.write('RESULT ' + json.dumps(_run(case), default=str) + '\n')


# ------------------------------------------------------------------------------------------------ parent side

def evaluate(cs):
    out = []
    for c in cs:
        env = dict(os.environ)
        env['PYTHONPATH'] = c12._impl_path() + os.pathsep + str(core.VERIF)
        env.setdefault('OMP_NUM_THREADS', '1')
        env.setdefault('OPENBLAS_NUM_THREADS', '1')
        case = {k: v for k, v in c.items() if k not in ('foundation', '_hist')}
        try:
            r = subprocess.run([PY, '-X', 'faulthandler', '-m', 'harness.foundation.gstate', '--child'], input=json.dumps(case),
                               stdout=subprocess.PIPE, stderr=subprocess.PIPE, text=True, env=env,
                               timeout=float(c.get('timeout', 300)), cwd=str(core.VERIF))
            rc, so, se = r.returncode, r.stdout, r.stderr
        except subprocess.TimeoutExpired:
            rc, so, se = 'timeout', '', ''
        res = [json.loads(l[7:]) for l in so.splitlines() if l.startswith('RESULT ')]
        if rc == 0 and res:
            out.append(res[0])
        elif rc == 'timeout':
            out.append(dict(findings=[], nontrivial=False, sig=None, tags=dict(stage='gstate', outcome='timeout-skipped')))
        elif isinstance(rc, int) and rc < 0:
            out.append(dict(findings=[dict(kind='property', key='gstate:crash:' + '+'.join(c['kernels'][:3]), detail=dict(
                returncode=str(rc), stderr=se[-1500:]))], nontrivial=True, sig=None, tags=dict(stage='gstate', outcome='crash')))
        else:
            raise core.Infra(f'gstate child failed rc={rc}: {se[-2000:]}')
    return out


if __name__ == '__main__' and '--child' in sys.argv:
    _child_main()
