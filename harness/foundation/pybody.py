"""PB — ties between the Python bodies of the wrapper / numeric layer and the hand-written Lean models.

`translator/pybody.py` regenerates `lean/Mahotas/Generated/PyBodies.lean` from the current text of the Python functions
listed in its `TARGETS` on every run; `lean/Mahotas/Proofs/PyBodyTies<Cxx>.lean` prove, per property, that every
generated definition equals the model definition the native driver runs (for all arguments, or under the guard the
wrapper enforces). An edit of such a body changes the generated term, the tie theorem no longer compiles, and the
check of the property whose model rests on it reports a broken obligation and searches for a failing input.

The obligations are scoped per property (`for_property`): a property audits only the ties of the bodies its own model
transliterates, and only that property's tie file is built. There is no differential run of its own (`cases` is
empty): the generated definitions are tied by theorems, and the models they equal are compared with the real code by
the property's own correspondence run.
"""
from __future__ import annotations

ID = 'PB'
LEVEL = 'proof'
BY_PROPERTY = {
    'C01': [('Mahotas.Proofs.PyBodyTiesC01', ['Mahotas.pybody_morph_disk_eq_model', 'Mahotas.pybody_morph_disk_diskElem'])],
    'C02': [('Mahotas.Proofs.PyBodyTiesC02',
             ['Mahotas.pybody_morph_open_eq_model', 'Mahotas.pybody_morph_close_eq_model',
              'Mahotas.pybody_morph_cerode_eq_model', 'Mahotas.pybody_morph_cdilate_eq_model',
              'Mahotas.pybody_morph_tophat_open_eq_model', 'Mahotas.pybody_morph_tophat_close_eq_model',
              'Mahotas.pybody_c02Prims_consistent'])],
    'C16': [('Mahotas.Proofs.PyBodyTiesC16', ['Mahotas.pybody_thresholding_gbernsen_eq_model',
                                              'Mahotas.pybody_thresholding_bernsen_eq_model',
                                              'Mahotas.pybody_thresholding_otsu_eq_model',
                                              'Mahotas.pybody_thresholding_soft_threshold_eq_model']),
            ('Mahotas.Proofs.PyBodyTiesC16Rc', ['Mahotas.pybody_thresholding_rc_eq_model', 'Mahotas.pybody_rc_guard',
                                                'Mahotas.pybody_rc_maxt']),
            ('Mahotas.Proofs.PyBodyTiesC16b', ['Mahotas.pybody_morph_circle_se_eq_model', 'Mahotas.pybody_morph_circle_se_circleSe'])],
    'C14': [('Mahotas.Proofs.PyBodyTiesC14',
             ['Mahotas.pybody_morph__remove_centre_eq_model', 'Mahotas.pybody_offsets_remove_centre',
              'Mahotas.pybody_morph_locmax_eq_model', 'Mahotas.pybody_morph_locmin_eq_model',
              'Mahotas.pybody_morph_regmax_eq_model', 'Mahotas.pybody_morph_regmin_eq_model',
              'Mahotas.pybody_morph_close_holes_eq_model'])],
    'C20': [('Mahotas.Proofs.PyBodyTiesC20', ['Mahotas.pybody_stretch_stretch_eq_model',
                                              'Mahotas.pybody_stretch_stretch_eq_stretchList',
                                              'Mahotas.pybody_stretch_stretch_eq_stretchIntG',
                                              'Mahotas.pybody_colors_rgb2xyz_eq_model', 'Mahotas.pybody_colors_rgb2xyz_pixel',
                                              'Mahotas.pybody_colors_xyz2rgb_eq_model', 'Mahotas.pybody_colors_xyz2rgb_pixel']),
            ('Mahotas.Proofs.PyBodyTiesC20b', ['Mahotas.pybody_colors_rgb2grey_eq_model', 'Mahotas.pybody_colors_rgb2grey_pixel',
                                               'Mahotas.pybody_colors_xyz2lab_pixel', 'Mahotas.pybody_colors_rgb2lab_eq_model',
                                               'Mahotas.pybody_colors_rgb2lab_pixel', 'Mahotas.pybody_colors_rgb2sepia_eq_model'])],
    'C13': [('Mahotas.Proofs.PyBodyTiesC13', ['Mahotas.pybody_labeled_labeled_sum_eq_model', 'Mahotas.pybody_labeled_labeled_max_eq_model',
                                              'Mahotas.pybody_labeled_labeled_min_eq_model', 'Mahotas.pybody_labeled_labeled_size_eq_model',
                                              'Mahotas.pybody_labeled_remove_regions_where_eq_model',
                                              'Mahotas.pybody_labeled_remove_regions_eq_model',
                                              'Mahotas.pybody_labeled_is_same_labeling_eq_model',
                                              'Mahotas.pybody_labeled_bwperim_eq_model', 'Mahotas.pybody_labeled_bwperim_binary'])],
    'C15': [('Mahotas.Proofs.PyBodyTiesC15', ['Mahotas.pybody_euler_euler_eq_model', 'Mahotas.pybody_thin_thin_eq_model',
                                              'Mahotas.pybody_bbox_ordered'])],
    'C17': [('Mahotas.Proofs.PyBodyTiesC17', ['Mahotas.pybody_convolve__wavelet_center_compute_eq_model',
                                              'Mahotas.pybody_convolve_wavelet_center_eq_model',
                                              'Mahotas.pybody_convolve_wavelet_decenter_eq_model'])],
    'C18': [('Mahotas.Proofs.PyBodyTiesC18', ['Mahotas.pybody_resize_resize_to_eq_model', 'Mahotas.pybody_resize_imresize_eq_model']),
            ('Mahotas.Proofs.PyBodyTiesC18b', ['Mahotas.pybody_interpolate_zoom_output_shape_eq_model',
                                               'Mahotas.pybody_interpolate_zoom_output_shape_zoomOutShape'])],
    'C19': [('Mahotas.Proofs.PyBodyTiesC19', ['Mahotas.pybody_features_moments_moments_eq_model'])],
    'C06': [('Mahotas.Proofs.PyBodyTiesC06', ['Mahotas.pybody_convolve_gaussian_filter1d_eq_model',
                                              'Mahotas.pybody_convolve_laplacian_2D_eq_model'])],
}
LEAN_TARGETS = [m for v in BY_PROPERTY.values() for m, _ in v]
THEOREMS = {m: list(t) for v in BY_PROPERTY.values() for m, t in v}
RULE = 'no cases of its own: the ties are theorems re-checked against the regenerated definitions on every run'
ASSUMPTIONS = ['value-level semantics: destination buffers (out=/output=), .copy() and the guard helpers are not part of the '
               'generated definitions (C09 and translator/guards.py cover them)']
TRUSTED = ['translator/pybody.py (meaning given to the Python subset; reviewed primitive tables and signatures)']


def for_property(pid: str) -> dict:
    """narrow the module-level LEAN_TARGETS / THEOREMS to the tie files and theorems property `pid`'s model rests on
    (nothing for a property without translated bodies); called by the engine before it reads them"""
    global LEAN_TARGETS, THEOREMS
    mods = BY_PROPERTY.get(pid, [])
    LEAN_TARGETS = [m for m, _ in mods]
    THEOREMS = {m: list(t) for m, t in mods}
    return dict(LEAN_TARGETS=LEAN_TARGETS, THEOREMS=THEOREMS)


def cases(rng, tier):
    return []


def evaluate(cases):
    return []
