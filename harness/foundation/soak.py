"""Call-history soak of a property's own functions (shared by the value properties C01-C07, C13-C20).

Every property statement fixes the value of *every call*, whatever was called before and whatever objects the caller
re-uses.  Two classes of change leave each isolated call correct and break only particular histories:

  wrap    a buffer / table / generation counter kept between calls (per thread or per module) that is recycled
          correctly until a counter wraps or the buffer is only partly cleared: the witness is "large input, then D
          calls on smaller inputs, then the large input again" for the particular distance D at which the recycled
          codes collide (D near 2^6, 2^7, 2^8, ... — all D up to 300 in the thorough tier).
  mutate  a per-object cache (keyed by id(), a weak reference, the buffer address): the caller edits an argument array
          in place between two calls and passes the very same object again; the second call must see the new content.

Each case runs in a fresh interpreter (clean history).  The judgement is metamorphic and needs no oracle: equal logical
inputs must give bit-identical results wherever they occur in the history (for `mutate`: the same result as a call on
fresh copies of the edited arrays).  The first occurrence of every input is the one the property's own cases judge
against the Lean specification, so any difference means one of the two values violates the statement.
Findings are `kind='property'`, key `history:<wrap|mutate>:<function>`.  Validation / failing-input search only.
"""
from __future__ import annotations
import json, os, subprocess, sys
from .. import core
from ..props import c12, c12_extra
from . import concurrent as _cc

ID = 'SOAK'
LEVEL = 'other'
LEAN_TARGETS: list = []
THEOREMS: dict = {}
PROPERTY = None
PY = core.PY
DIST_QUICK = [62, 63, 64, 65, 126, 127, 128, 129, 254, 255, 256, 257]
RULE = ('per function of the property, each case in a fresh interpreter: (wrap) big input, D calls cycling over three smaller '
        'inputs, big input again, for every D of a list (quick: 62-65, 126-129, 254-257 and two random ones; thorough: every D in '
        '1..300), equal inputs must give identical results; (mutate) call, edit every argument array in place (reversal), call '
        'again with the same objects, compare with a call on fresh copies of the edited arrays')
ASSUMPTIONS = ['functions are deterministic for fixed inputs (checked: the first input is evaluated twice before the history starts)']
TRUSTED = ['numpy']
SKIP_MUTATE = {'integ'}       # an integral image is not closed under reversal


def for_property(pid: str):
    global PROPERTY
    PROPERTY = pid


def cases(rng, tier):
    names = [k for k in _cc.KERNELS.get(PROPERTY or '', []) if k not in _cc.SLOW]
    if not names:
        return []
    out = []
    pick = names if tier != 'quick' else (names if len(names) <= 5 else rng.sample(names, 5))
    for k in pick:
        med = k in _cc.MEDIUM
        big = rng.choice([33, 40]) if med else rng.choice([48, 64, 80])
        smalls = rng.sample([7, 9, 12, 14, 17], 3)
        if tier == 'thorough':
            dists = list(range(1, 301)) if not med else list(range(1, 301, 7)) + DIST_QUICK
        else:
            dists = (DIST_QUICK if not med else [63, 64, 126, 127, 128, 255, 256]) + [rng.randint(1, 300), rng.randint(1, 300)]
        out.append(dict(kind='soak-wrap', kernel=k, seed=rng.randint(0, 10 ** 6), big=big, smalls=smalls, dists=dists,
                        timeout=240, foundation=__name__))
    mnames = names if (len(names) <= 30 or tier == 'thorough') else rng.sample(names, 30)
    for k in mnames:          # cheap (a handful of calls): every function of the property, every run (a sample of 30 for C08)
        out.append(dict(kind='soak-mutate', kernel=k, seed=rng.randint(0, 10 ** 6), size=rng.choice([12, 17, 24, 33]),
                        rounds=3, timeout=120, foundation=__name__))
    return out


# ------------------------------------------------------------------------------------------------ child side

def _clone(I):
    J = c12.Inputs(I.seed, I.size, False)
    for k, v in I.arrays().items():
        J._cache[k] = v.copy()
    return J


def _run(case):
    import numpy as np
    K = c12._kernels()
    name = case['kernel']
    fn, uses = K[name]
    findings = []
    ncalls = 0
    if case['kind'] == 'soak-wrap':
        mk = lambda sz, s: c12.Inputs(case['seed'] + s, sz, False)
        # the small inputs first, in the fresh interpreter: their reference results have no history at all
        small_ref = {i: c12._call(fn, mk(sz, 1 + i)) for i, sz in enumerate(case['smalls'])}
        first = c12._call(fn, mk(case['big'], 0))
        again = c12._call(fn, mk(case['big'], 0))
        if first != again:        # not deterministic even without history: nothing to conclude here (C08/C10 judge that)
            return dict(findings=[dict(kind='model', key=f'history:nondeterministic:{name}', detail={})], nontrivial=False,
                        sig=None, tags=dict(stage='soak', kind='wrap', outcome='nondeterministic'))
        j = 0
        for D in case['dists']:
            for _ in range(D - 1 if D > 1 else 0):
                i = j % len(case['smalls'])
                j += 1
                r = c12._call(fn, mk(case['smalls'][i], 1 + i))
                ncalls += 1
                if i in small_ref and r != small_ref[i] and not findings:
                    findings.append(dict(kind='property', key=f'history:wrap:{name}', detail=dict(
                        what='a small input gave different results at two places of the call history', call_index=ncalls,
                        first=c12._describe(small_ref[i]), later=c12._describe(r))))
                small_ref.setdefault(i, r)
            r = c12._call(fn, mk(case['big'], 0))
            ncalls += 1
            if r != first and not findings:
                findings.append(dict(kind='property', key=f'history:wrap:{name}', detail=dict(
                    what=f'the big input gave a different result {D} calls after its previous occurrence', distance=D,
                    call_index=ncalls, first=c12._describe(first), later=c12._describe(r))))
            if findings:
                break
        return dict(findings=findings, nontrivial=first[0] == 'ok', sig=json.dumps([name, case['big'], case['smalls']]),
                    tags=dict(stage='soak', kind='wrap', fn=name), n=ncalls + 2)
    # ---- mutate
    I = c12.Inputs(case['seed'], case['size'], False)
    r0 = c12._call(fn, I)
    for rnd in range(int(case.get('rounds', 2))):
        for k, a in I.arrays().items():
            if k in SKIP_MUTATE or k not in uses or not a.flags.writeable or a.ndim == 0:
                continue
            a[...] = a[::-1].copy() if rnd % 2 == 0 or a.ndim < 2 else a[:, ::-1].copy()
        same_objects = c12._call(fn, I)
        fresh_copies = c12._call(fn, _clone(I))
        ncalls += 2
        if same_objects != fresh_copies:
            findings.append(dict(kind='property', key=f'history:mutate:{name}', detail=dict(
                what='after an in-place edit of the argument arrays the call on the same objects differs from the call on '
                     'fresh copies with the same content', round=rnd, same_objects=c12._describe(same_objects),
                fresh_copies=c12._describe(fresh_copies))))
            break
    return dict(findings=findings, nontrivial=r0[0] == 'ok', sig=json.dumps([name, case['size'], case['seed']]),
                tags=dict(stage='soak', kind='mutate', fn=name), n=ncalls + 1)


def _child_main():
    import warnings
    warnings.simplefilter('ignore')
    case = json.loads(sys.stdin.read())
    sys.stdout.write('RESULT ' + json.dumps(_run(case), default=str) + '\n')


# ------------------------------------------------------------------------------------------------ parent side

def evaluate(cs):
    out = []
    for c in cs:
        env = dict(os.environ)
        env['PYTHONPATH'] = c12._impl_path() + os.pathsep + str(core.VERIF)
        env.setdefault('OMP_NUM_THREADS', '1')
        env.setdefault('OPENBLAS_NUM_THREADS', '1')
        case = {k: v for k, v in c.items() if k not in ('foundation', '_hist')}
        try:
            r = subprocess.run([PY, '-X', 'faulthandler', '-m', 'harness.foundation.soak', '--child'], input=json.dumps(case),
                               stdout=subprocess.PIPE, stderr=subprocess.PIPE, text=True, env=env,
                               timeout=float(c.get('timeout', 240)), cwd=str(core.VERIF))
            rc, so, se = r.returncode, r.stdout, r.stderr
        except subprocess.TimeoutExpired:
            rc, so, se = 'timeout', '', ''
        res = [json.loads(l[7:]) for l in so.splitlines() if l.startswith('RESULT ')]
        if rc == 0 and res:
            out.append(res[0])
        elif rc == 'timeout':
            # a soak that does not finish under load is not evidence of anything: recorded, not judged
            out.append(dict(findings=[], nontrivial=False, sig=None, tags=dict(stage='soak', outcome='timeout-skipped')))
        elif isinstance(rc, int) and rc < 0:
            out.append(dict(findings=[dict(kind='property', key=f'history:crash:{c["kernel"]}', detail=dict(
                returncode=str(rc), stderr=se[-1500:], note='the interpreter died (signal) during a sequence of legitimate calls'))],
                nontrivial=True, sig=None, tags=dict(stage='soak', outcome='crash')))
        else:
            raise core.Infra(f'soak child failed rc={rc}: {se[-2000:]}')
    return out


if __name__ == '__main__' and '--child' in sys.argv:
    _child_main()
