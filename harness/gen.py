"""Shared case generators: dtypes, shapes, memory layouts, protocol encoding."""
from __future__ import annotations
import numpy as np

INT_DTYPES = ['bool', 'uint8', 'uint16', 'uint32', 'uint64', 'int8', 'int16', 'int32', 'int64']
# the eleven integer/bool type codes numpy distinguishes on this platform (long and longlong are both 64 bit)
INT_TYPECODES = ['?', 'B', 'H', 'I', 'L', 'Q', 'b', 'h', 'i', 'l', 'q']
FLOAT_DTYPES = ['float32', 'float64']
DT_NAME = {'bool': 'b1', 'uint8': 'u8', 'uint16': 'u16', 'uint32': 'u32', 'uint64': 'u64',
           'int8': 'i8', 'int16': 'i16', 'int32': 'i32', 'int64': 'i64'}
LAYOUTS = ['C', 'F', 'strided', 'negstride', 'offset', 'transposed', 'readonly']


def dt_name(dtype) -> str:
    return DT_NAME[np.dtype(dtype).name]


def dt_range(dtype):
    dtype = np.dtype(dtype)
    if dtype == np.bool_:
        return 0, 1
    ii = np.iinfo(dtype)
    return int(ii.min), int(ii.max)


def relayout(a: np.ndarray, layout: str) -> np.ndarray:
    """a view/copy with the same logical content (shape, dtype, values) in another memory layout"""
    a = np.ascontiguousarray(a)
    if layout == 'C' or a.ndim == 0:
        return a
    if layout == 'F':
        return np.asfortranarray(a)
    if layout == 'strided':
        big = np.zeros(tuple(2 * s for s in a.shape), a.dtype)
        if big.dtype != np.bool_:
            big[...] = 3
        v = big[tuple(slice(None, None, 2) for _ in a.shape)]
        v[...] = a
        return v
    if layout == 'negstride':
        r = np.ascontiguousarray(a[tuple(slice(None, None, -1) for _ in a.shape)])
        return r[tuple(slice(None, None, -1) for _ in a.shape)]
    if layout == 'offset':
        big = np.zeros(tuple(s + 2 for s in a.shape), a.dtype)
        if big.dtype != np.bool_:
            big[...] = 5
        v = big[tuple(slice(1, s + 1) for s in a.shape)]
        v[...] = a
        return v
    if layout == 'transposed':
        r = np.ascontiguousarray(a.T)
        return r.T
    if layout == 'readonly':
        r = a.copy()
        r.setflags(write=False)
        return r
    raise ValueError(layout)


def small_shape(rng, ndim=None, maxlen=6, bias=(1, 2, 3)):
    if ndim is None:
        ndim = rng.choice([1, 2, 2, 2, 3])
    out = []
    for _ in range(ndim):
        if rng.random() < 0.45:
            out.append(rng.choice(bias))
        else:
            out.append(rng.randint(1, maxlen))
    return tuple(out)


def boundary_values(dtype, heights=(0, 1, 2, 3)):
    lo, hi = dt_range(dtype)
    vals = {lo, hi, 0 if lo <= 0 else lo, 1, 2, 5, hi // 2}
    for h in heights:
        vals.update({lo + h, hi - h, lo + 2 * h, hi - 2 * h})
    return sorted(v for v in vals if lo <= v <= hi)


def rand_int_array(rng, shape, dtype, dense_limits=0.35):
    dtype = np.dtype(dtype)
    n = int(np.prod(shape)) if len(shape) else 1
    if dtype == np.bool_:
        p = rng.choice([0.2, 0.5, 0.8])
        return np.array([rng.random() < p for _ in range(n)], bool).reshape(shape)
    lo, hi = dt_range(dtype)
    bv = boundary_values(dtype)
    mode = rng.random()
    out = []
    for _ in range(n):
        if rng.random() < dense_limits:
            out.append(rng.choice(bv))
        elif mode < 0.5:
            out.append(rng.randint(max(lo, -6), min(hi, 6)))
        else:
            out.append(rng.randint(lo, hi))
    return np.array(out, dtype=object).astype(dtype).reshape(shape)


def enc_arr(a) -> str:
    if isinstance(a, (list, tuple)):          # flat python ints: never through numpy (uint64 > 2^63 would go float)
        return ','.join(str(int(x)) for x in a) if len(a) else '-'
    a = np.asarray(a)
    if a.size == 0:
        return '-'
    return ','.join(str(int(x)) for x in a.ravel(order='C').tolist())


def enc_shape(shape) -> str:
    return ','.join(str(int(s)) for s in shape) if len(shape) else '-'
