"""A fixed history of legitimate calls, run once in a worker process before the cases marked `_hist`.

Every property quantifies over every input *whatever was called before*: a result may not depend on state a previous
call left behind (a memoised default structuring element that a later caller receives by reference and edits, a
cached kernel modified in place by the derivative code, ...).  The per-property checks evaluate stateless calls, so
such state would never be populated.  The prelude populates it the way a user legitimately could:

* every function that takes a structuring element / neighbourhood is called with every default form (None, the
  connectivity integers) on 1-, 2- and 3-D images of every dtype;
* whatever a call returns belongs to the caller: it is overwritten in place afterwards (an array handed out twice
  would carry the scribble into the next answer);
* the arguments belong to the caller too: they are overwritten after the call (a cache holding a view of an argument
  would change under the library's feet).

Exceptions are ignored: the prelude asserts nothing, it only creates history.  The cases that follow are judged as
always."""
from __future__ import annotations

_done = False

DTYPES = ['bool', 'uint8', 'uint16', 'uint32', 'uint64', 'int8', 'int16', 'int32', 'int64', 'float32', 'float64']


def _scribble(x):
    import numpy as np
    if isinstance(x, (tuple, list)):
        for y in x:
            _scribble(y)
    elif isinstance(x, np.ndarray) and x.flags.writeable and x.size:
        try:
            x[...] = 0 if x.dtype == bool else (x.flat[0] * 0 + 3)
        except Exception:
            pass


def _call(fn, *a, **k):
    try:
        r = fn(*a, **k)
    except Exception:
        return
    _scribble(r)
    for x in a:
        _scribble(x)


def prelude():
    import numpy as np
    import mahotas as mh
    import mahotas.labeled, mahotas.morph, mahotas.convolve, mahotas.thin, mahotas.distance   # noqa: F401
    rs = np.random.RandomState(12345)
    forms = {1: [None, 1, 2], 2: [None, 1, 2, 4, 8], 3: [None, 1, 2, 3, 6, 26]}
    for nd in (1, 2, 3):
        shape = (5,) * nd
        for dt in DTYPES:
            def img():
                return (rs.rand(*shape) * 7).astype(dt)
            for form in forms[nd]:
                for fn in (mh.locmax, mh.locmin, mh.regmax, mh.regmin, mh.erode, mh.dilate, mh.open, mh.close,
                           mh.close_holes, mh.label, mh.labeled.borders, mh.labeled.bwperim, mh.morph.tophat_open,
                           mh.morph.tophat_close):
                    _call(fn, img(), form)
                _call(mh.morph.cerode, img(), img(), form)
                _call(mh.morph.cdilate, img(), img(), form)
                _call(mh.cwatershed, img(), (rs.rand(*shape) * 3).astype(np.int32), form)
                _call(mh.get_structuring_elem, img(), form)
                _call(mh.labeled.border, (rs.rand(*shape) * 3).astype(np.int32), 1, 2, form)
            _call(mh.morph.hitmiss, img(), np.ones((3,) * nd, np.uint8))
            _call(mh.majority_filter, img())
            _call(mh.thin, img())
            _call(mh.distance, img())
            _call(mh.labeled.remove_bordering, (rs.rand(*shape) * 3).astype(np.int32))
    for r in (0, 1, 2, 3):
        for dim in (1, 2, 3):
            _call(mh.disk, r, dim)
    # kernels a filter might memoise: the same sigma asked for with every derivative order, on two ranks
    for sigma in (0.5, 1.0, 2.0, 3.0):
        for order in (2, 1, 0, 3):
            _call(mh.gaussian_filter1d, rs.rand(24), sigma, order=order)
            _call(mh.gaussian_filter, rs.rand(12, 12), sigma, order=order)
    for name in ('D2', 'D4', 'D8'):
        _call(mh.daubechies, rs.rand(16, 16), name)
        _call(mh.idaubechies, rs.rand(16, 16), name)
    _call(mh.haar, rs.rand(8, 8))
    _call(mh.ihaar, rs.rand(8, 8))
    _call(mh.sobel, rs.rand(8, 8))
    _call(mh.dog, rs.rand(16, 16))
    _call(mh.features.haralick, (rs.rand(8, 8) * 4).astype(np.uint8))
    _call(mh.features.lbp, rs.rand(12, 12), 2, 8)
    _call(mh.features.zernike_moments, rs.rand(12, 12), 5)
    _call(mh.features.tas, (rs.rand(12, 12) * 255).astype(np.uint8))
    _call(mh.features.pftas, (rs.rand(12, 12) * 255).astype(np.uint8))


def ensure():
    """run the prelude once per process"""
    global _done
    if _done:
        return
    _done = True
    import warnings
    with warnings.catch_warnings():
        warnings.simplefilter('ignore')
        try:
            import numpy as np
            with np.errstate(all='ignore'):
                prelude()
        except Exception:
            pass
