"""Persistent isolated workers with a wall-clock limit (used by C10, C11).

A `Worker` owns one subprocess running harness/iso_worker.py against a staged build (plain or ASan). `call(spec)`
returns the worker's answer, or — when the process died, printed an AddressSanitizer report, or did not answer in
time — an outcome {'st': 'signal'|'asan'|'timeout', ...} and restarts the process. The spec that was running is the
replay."""
from __future__ import annotations
import json, os, re, resource, select, signal, subprocess, sys, tempfile, time
from pathlib import Path
from . import core

WORKER = Path(__file__).resolve().parent / 'iso_worker.py'
SIGNAMES = {int(getattr(signal, n)): n for n in dir(signal) if n.startswith('SIG') and not n.startswith('SIG_')}


def worker_env(src: Path, asan: bool) -> dict:
    env = dict(os.environ)
    env['PYTHONPATH'] = str(src)
    env['PYTHONWARNINGS'] = 'ignore'
    env['OMP_NUM_THREADS'] = env['OPENBLAS_NUM_THREADS'] = '1'
    env.pop('MALLOC_PERTURB_', None)
    if asan:
        env['LD_PRELOAD'] = core.ASAN_RT
        # allocations above 1 GiB fail (MemoryError) instead of eating the machine; a report ends the process with 99
        env['ASAN_OPTIONS'] = ('detect_leaks=0:abort_on_error=0:exitcode=99:allocator_may_return_null=1:'
                               'max_allocation_size_mb=1024:soft_rss_limit_mb=4096:handle_sigfpe=1:'
                               'detect_stack_use_after_return=0:print_summary=1')
    else:
        env['MALLOC_CHECK_'] = '3'       # glibc aborts on detected heap corruption
    return env


def _limit_as():
    # plain build: a runaway allocation fails (MemoryError / bad_alloc) instead of eating the machine
    resource.setrlimit(resource.RLIMIT_AS, (8 << 30, 8 << 30))


def parse_asan(err: str) -> dict:
    """kind of error and the first frames inside mahotas from an AddressSanitizer report"""
    m = re.search(r'ERROR: AddressSanitizer: ([\w-]+)(?: on (?:unknown )?address)?', err)
    kind = m.group(1) if m else None
    acc = re.search(r'\n(READ|WRITE) of size (\d+)', err)
    frames = []
    for fm in re.finditer(r'#\d+ 0x[0-9a-f]+ in (.+?) (/\S+?):\d+', err):
        fn, loc = fm.group(1), fm.group(2)
        if '/mahotas/' in loc and 'site-packages' not in loc:
            f = fn.replace('(anonymous namespace)::', '')
            f = re.sub(r'^(?:void|bool|int|long|double|float|unsigned|char|_object\*?|[\w:]+(?:<[^()]*>)?[*&]?) +(?=[\w:]+[<(])', '', f)
            f = re.split(r'[<(]', f, maxsplit=1)[0].split('::')[-1].strip()
            frames.append(f + '@' + os.path.basename(loc))
        if len(frames) >= 3:
            break
    return dict(kind=kind, access=acc.group(1) if acc else None, frames=frames)


_TIMEOUTS: dict = {}          # timeouts per function in this process (see Worker.call)


class Worker:
    def __init__(self, src: Path, asan: bool):
        self.src, self.asan = Path(src), asan
        self.p = None
        self.errf = None
        self.restarts = 0

    def _start(self):
        self.errf = tempfile.TemporaryFile(mode='w+b')
        self.p = subprocess.Popen([core.PY, str(WORKER)], stdin=subprocess.PIPE, stdout=subprocess.PIPE,
                                  stderr=self.errf, env=worker_env(self.src, self.asan), cwd='/var/tmp', bufsize=0,
                                  preexec_fn=None if self.asan else _limit_as)
        ans = self._read(120)
        if not ans or json.loads(ans).get('st') != 'ready':
            err = self._stderr()
            self._kill()
            raise core.Infra(f'isolated worker did not start: {ans!r} {err[-1500:]}')
        got = json.loads(ans)['mahotas']
        if not Path(got).resolve().is_relative_to(self.src.resolve()):
            self._kill()
            raise core.Infra(f'isolated worker imported mahotas from {got}, expected {self.src}')

    def _stderr(self) -> str:
        try:
            self.errf.flush()
            self.errf.seek(0)
            return self.errf.read().decode('utf8', 'replace')
        except Exception:
            return ''

    def _read(self, timeout: float):
        """one line from the worker's stdout, None on timeout, '' on EOF"""
        fd = self.p.stdout.fileno()
        buf = getattr(self, '_buf', b'')
        end = time.time() + timeout
        while b'\n' not in buf:
            left = end - time.time()
            if left <= 0:
                self._buf = buf
                return None
            r, _, _ = select.select([fd], [], [], left)
            if not r:
                continue
            chunk = os.read(fd, 65536)
            if not chunk:
                self._buf = b''
                return ''
            buf += chunk
        line, _, rest = buf.partition(b'\n')
        self._buf = rest
        return line.decode('utf8', 'replace')

    def _kill(self):
        if self.p is not None:
            try:
                self.p.kill()
            except Exception:
                pass
            try:
                self.p.wait(timeout=10)
            except Exception:
                pass
            for f in (self.p.stdin, self.p.stdout):
                try:
                    f.close()
                except Exception:
                    pass
        if self.errf is not None:
            try:
                self.errf.close()
            except Exception:
                pass
        self.p = None
        self._buf = b''

    def close(self):
        self._kill()

    def call(self, spec: dict, timeout: float = 30.0) -> dict:
        if self.p is None or self.p.poll() is not None:
            self._kill()
            self._start()
        try:
            self.p.stdin.write((json.dumps(spec) + '\n').encode())
            self.p.stdin.flush()
        except (BrokenPipeError, OSError):
            self._kill()
            self._start()
            self.p.stdin.write((json.dumps(spec) + '\n').encode())
            self.p.stdin.flush()
        # a kernel that hangs (e.g. an unbounded loop introduced by a change) makes every call that meets it wait for the full
        # limit: after three timeouts of the same function in this process the violation is established and further calls of that
        # function only get a tenth of the limit (still reported as timeouts), so that the check ends in minutes, not hours
        fnkey = str((spec.get('call') or {}).get('fn') or spec.get('fn') or spec.get('name') or 'any') if isinstance(spec, dict) else 'any'
        if _TIMEOUTS.get(fnkey, 0) >= 3:
            timeout = max(2.0, timeout / 10.0)
        t0 = time.time()
        ans = self._read(timeout)
        dt = time.time() - t0
        if ans is None:
            self._kill()
            self.restarts += 1
            _TIMEOUTS[fnkey] = _TIMEOUTS.get(fnkey, 0) + 1
            return dict(st='timeout', wall=round(dt, 1))
        if ans == '':
            try:
                rc = self.p.wait(timeout=20)
            except Exception:
                rc = None
            err = self._stderr()
            self._kill()
            self.restarts += 1
            if 'AddressSanitizer' in err:
                info = parse_asan(err)
                cut = err.find('ERROR: AddressSanitizer')
                return dict(st='asan', rc=rc, report=err[cut:cut + 2500], **info)
            sig = SIGNAMES.get(-rc, str(rc)) if rc is not None and rc < 0 else f'exit{rc}'
            return dict(st='signal', rc=rc, signal=sig, stderr=err[-1500:])
        try:
            out = json.loads(ans)
        except ValueError:
            self._kill()
            self.restarts += 1
            return dict(st='garbled', raw=ans[:300])
        out['wall'] = round(dt, 3)
        return out


_workers = {}


def get_worker(src: Path, asan: bool) -> Worker:
    """one persistent worker per (process, build)"""
    key = (os.getpid(), str(src), asan)
    w = _workers.get(key)
    if w is None:
        for k in list(_workers):
            if k[0] != os.getpid():       # inherited across fork: not ours
                del _workers[k]
        w = _workers[key] = Worker(src, asan)
    return w
