"""Isolated worker: executes call specifications against the staged mahotas build, one JSON line in, one JSON
line out. It is started by harness/iso.py with PYTHONPATH pointing at the staged (plain or ASan) build, so a crash,
an AddressSanitizer abort or a hang takes down only this process; the parent records the spec that was running.

Spec (JSON):  {"fn": "mahotas.erode", "args": [A, ...], "kw": {name: A, ...}, "twice": bool}
  A := {"a": {"dtype":…, "shape":[…], "fill":…, "seed":…, "layout":…, "hi":…}}   an array built deterministically
     | {"v": <json value>}                                                          a plain python value
     | {"e": "<python expression>"}                                                 evaluated with np / mh in scope
     | {"t": [A, …]} | {"l": [A, …]}                                                tuple / list of the above
Answer:  {"st": "ok", "digest": …, "summary": …} | {"st": "exc", "type": …, "msg": …} and, when the interpreter no
longer behaves after the call, {"st": "corrupt", "why": …}.
"""
import gc, hashlib, json, os, sys, warnings

warnings.simplefilter('ignore')
import numpy as np  # noqa: E402

np.seterr(all='ignore')
import mahotas as mh  # noqa: E402
import mahotas.features, mahotas.labeled, mahotas.segmentation, mahotas.polygon, mahotas.interpolate  # noqa
import mahotas.features.surf, mahotas.features.texture, mahotas.features.lbp, mahotas.features.tas  # noqa
import mahotas.features.zernike, mahotas.features.shape, mahotas.features.moments  # noqa
import mahotas.colors, mahotas.thresholding, mahotas.edge, mahotas.stretch, mahotas.resize  # noqa
import mahotas.histogram, mahotas.bbox, mahotas.euler, mahotas.thin, mahotas.distance, mahotas.center_of_mass  # noqa
import mahotas.morph, mahotas.convolve, mahotas.bwperim  # noqa


sys.path.insert(0, os.path.dirname(os.path.dirname(os.path.abspath(__file__))))
from harness.specs import build, build_array, relayout  # noqa: E402


def resolve(name):
    import importlib
    parts = name.split('.')
    assert parts[0] == 'mahotas'
    for i in range(len(parts) - 1, 0, -1):
        try:
            obj = importlib.import_module('.'.join(parts[:i]))
        except ImportError:
            continue
        for p in parts[i:]:
            obj = getattr(obj, p)
        return obj
    raise AttributeError(name)


def digest(r, h=None, depth=0):
    """structural digest of a result: type, shape, dtype and bytes of arrays; floats by repr"""
    top = h is None
    if top:
        h = hashlib.sha1()
    if isinstance(r, np.ndarray):
        h.update(('A%s%s' % (r.dtype.str, r.shape)).encode())
        if r.dtype.kind == 'O':
            h.update(repr(r.tolist())[:10000].encode())
        else:
            h.update(np.ascontiguousarray(r).tobytes())
    elif isinstance(r, (tuple, list)) and depth < 4:
        h.update(('T%d' % len(r)).encode())
        for x in r[:64]:
            digest(x, h, depth + 1)
    elif isinstance(r, np.generic):
        h.update(('G%s' % r.dtype.str).encode() + r.tobytes())
    elif isinstance(r, (int, float, bool, str, type(None), complex)):
        h.update(('S%s%r' % (type(r).__name__, r)).encode())
    elif isinstance(r, slice):
        h.update(repr(r).encode())
    else:
        h.update(('O%s' % type(r).__name__).encode())
    if top:
        return h.hexdigest()[:16]


def summary(r):
    if isinstance(r, np.ndarray):
        return 'ndarray%s%s' % (r.dtype.name, list(r.shape))
    if isinstance(r, (tuple, list)):
        return type(r).__name__ + '(' + ','.join(summary(x) for x in r[:4]) + ')'
    return type(r).__name__


_REF_IN = (np.arange(20).reshape(4, 5) % 3 == 0)
_REF_OUT = None


def sanity():
    """the interpreter still works: no pending error, allocation, a reference mahotas call"""
    global _REF_OUT
    x = np.arange(7).sum()
    if int(x) != 21:
        return 'numpy arithmetic broken'
    r = mh.dilate(_REF_IN)
    if _REF_OUT is None:
        _REF_OUT = r.copy()
    elif not np.array_equal(r, _REF_OUT):
        return 'reference call changed its result'
    if sys.exc_info()[0] is not None:
        return 'exception state leaked'
    return None


def perturb(byte, spec=None):
    """fill freed heap cells (numpy's small-block cache and malloc free lists) with a byte pattern. numpy caches freed
    data buffers below 1024 bytes per EXACT byte size, so the sizes the call is likely to request (element count of
    each array argument times every item size) are dirtied specifically."""
    sizes = {16, 64, 200, 1000, 5000, 40000, 200000}
    if spec is not None:
        try:
            for a in list(spec.get('args', [])) + list(spec.get('kw', {}).values()):
                if isinstance(a, dict) and 'a' in a:
                    n = 1
                    for d in a['a'].get('shape', []):
                        n *= int(d)
                    for item in (1, 2, 4, 8, 16):
                        for k in (1, 2, 3):
                            if 0 < n * item * k <= 1 << 22:
                                sizes.add(n * item * k)
        except Exception:
            pass
    junk = [np.full(sz, byte, np.uint8) for sz in sorted(sizes) for _ in range(8)]
    del junk
    if 'asan' not in os.environ.get('LD_PRELOAD', ''):
        # plain build: glibc fills every block it hands out from now on with a byte that differs between the two
        # executions (M_PERTURB = -6), which also reaches the C++ temporaries (`new T[n]`, malloc) that never pass
        # through numpy's cache. Under AddressSanitizer its own allocator fills with a constant, hence the plain build.
        try:
            _libc().mallopt(-6, 0x5A if byte == 0 else 0xA5)
        except Exception:
            pass


_LIBC = []


def _libc():
    if not _LIBC:
        import ctypes
        _LIBC.append(ctypes.CDLL('libc.so.6'))
    return _LIBC[0]


def run_once(spec, dirty=None):
    fn = resolve(spec['fn'])
    args = [build(a) for a in spec.get('args', [])]
    kw = {k: build(v) for k, v in spec.get('kw', {}).items()}
    if dirty is not None:
        # AFTER the arguments exist (building them recycles the cached blocks) and right before the call
        perturb(dirty, spec)
    r = fn(*args, **kw)
    return r, None


def handle(spec):
    try:
        r, mod = run_once(spec, 0x00 if spec.get('twice') else None)
        out = dict(st='ok', digest=digest(r), summary=summary(r))
        if spec.get('twice'):
            r2, _ = run_once(spec, 0xFF)
            out['digest2'] = digest(r2)
            if 'asan' not in os.environ.get('LD_PRELOAD', ''):
                _libc().mallopt(-6, 0)
    except BaseException as e:  # noqa
        if isinstance(e, (KeyboardInterrupt, SystemExit)):
            raise
        out = dict(st='exc', type=type(e).__name__, msg=str(e)[:200])
    try:
        why = sanity()
    except BaseException as e:  # noqa
        why = 'sanity raised %s: %s' % (type(e).__name__, str(e)[:120])
    if why:
        out = dict(st='corrupt', why=why, after=out)
    return out


def main():
    sanity()
    inp = sys.stdin
    out = sys.stdout
    out.write(json.dumps(dict(st='ready', mahotas=os.path.dirname(mh.__file__))) + '\n')
    out.flush()
    n = 0
    for line in inp:
        line = line.strip()
        if not line:
            continue
        spec = json.loads(line)
        res = handle(spec)
        n += 1
        if n % 200 == 0:
            gc.collect()
        out.write(json.dumps(res) + '\n')
        out.flush()


if __name__ == '__main__':
    main()
