"""C01 — erosion and dilation equal the lattice definition."""
from __future__ import annotations
import itertools, json
import numpy as np
from .. import core, gen

ID = 'C01'
FOUNDATIONS = ['harness.foundation.filteriter']   # the models use the closed form proved by F6 (filterIter_refines)
LEAN_TARGETS = ['Mahotas.Proofs.FilterIter']
LEVEL = 'proof'
RULE = ('corpus; exhaustive boolean scope (all 3x4 images x 3x3 elements, also 1xn/nx1/2x2; quick = seeded slice); '
        'random 1-3 D x 9 integer dtypes x 7 layouts x elements (odd/even, empty, larger than the image, non-flat, '
        'dtype-minimum entries) with values dense at the dtype limits. Non-trivial = result differs from the input '
        'or element is irregular; distinct = distinct (op,dtype,shape,data,element,layout).')
ASSUMPTIONS = ['heights of the structuring element are non-negative (or the dtype minimum = absent)',
               'an image value equal to the dtype minimum is absorbing (-inf) under dilation, as an element entry is',
               'dilation with an irregular element is compared with the gather definition only at pixels whose element '
               'box and reflected box lie inside the image; elsewhere only path independence and the scatter model apply',
               'array sizes < 2^31']
EXHAUSTIVE = {'thorough': True}
TRUSTED = ['numpy (array construction, layout views)']


def _mk(case):
    A = np.array(case['data'], dtype=object).astype(case['dtype']).reshape(case['shape'])
    Bc = np.array(case['bc'], dtype=object).astype(case['dtype']).reshape(case['bshape'])
    return A, Bc


def _line(case):
    return (f"c01 kind={case['kind']} dt={gen.DT_NAME[case['dtype']]} shape={gen.enc_shape(case['shape'])} "
            f"data={gen.enc_arr(case['data'])} "
            f"bshape={gen.enc_shape(case['bshape'])} bc={gen.enc_arr(case['bc'])}")


def _path(A):
    fl = A.flags
    return 'fast' if (A.dtype == np.bool_ and A.ndim == 2 and fl.c_contiguous and fl.writeable and fl.aligned) else 'generic'


def _call(kind, A, Bc):
    import mahotas as mh
    f = mh.erode if kind == 'erode' else mh.dilate
    return np.asarray(f(A, Bc))


def _judge(case, got, drv, path, other=None):
    """got: impl output (C order ints); drv: driver dict"""
    out = []
    spec = core.ints(drv['spec'])
    model = core.ints(drv['model'])
    g = [int(x) for x in got.ravel(order='C').tolist()]
    kind = case['kind']
    if kind == 'erode':
        bad = [i for i, (a, b) in enumerate(zip(g, spec)) if a != b]
        if bad:
            out.append(dict(kind='property', key=f'erode:{path}',
                            detail=dict(pixels=bad[:8], got=g, spec=spec, path=path)))
        elif path == 'fast' and 'loops' in drv:
            # diagnostic tie of the loop-by-loop transliteration of the fast erosion branch
            # (C01_fast_erode_loops_eq_pointwise proves it equal to the pointwise model and hence to the spec)
            loops = core.ints(drv['loops'])
            badm = [i for i, (a, b) in enumerate(zip(g, loops)) if a != b]
            if badm:
                out.append(dict(kind='model', key='erode-loops-model:fast',
                                detail=dict(pixels=badm[:8], got=g, model=loops, path=path)))
    else:
        obs = core.ints(drv['obs'])
        bad = [i for i, (a, b, o) in enumerate(zip(g, spec, obs)) if o and a != b]
        if bad:
            out.append(dict(kind='property', key=f'dilate:{path}',
                            detail=dict(pixels=bad[:8], got=g, spec=spec, obs=obs, path=path)))
        else:
            m = model if path == 'generic' else core.ints(drv['fast'])
            badm = [i for i, (a, b) in enumerate(zip(g, m)) if a != b]
            if badm:
                out.append(dict(kind='model', key=f'dilate-model:{path}',
                                detail=dict(pixels=badm[:8], got=g, model=m, path=path)))
            elif path == 'fast' and 'loops' in drv:
                # loop-by-loop transliteration of the fast dilation branch (C01_fast_dilate_loops_eq_pointwise)
                loops = core.ints(drv['loops'])
                badl = [i for i, (a, b) in enumerate(zip(g, loops)) if a != b]
                if badl:
                    out.append(dict(kind='model', key='dilate-loops-model:fast',
                                    detail=dict(pixels=badl[:8], got=g, model=loops, path=path)))
    if other is not None:
        o = [int(x) for x in other.ravel(order='C').tolist()]
        if o != g:
            out.append(dict(kind='property', key=f'path-independence:{kind}',
                            detail=dict(fast=g if path == 'fast' else o, generic=o if path == 'fast' else g)))
    return out


def _eval_single(cases):
    res = []
    lines = [_line(c) for c in cases]
    drvs = core.drive(lines)
    for case, drv in zip(cases, drvs):
        A, Bc = _mk(case)
        Al = gen.relayout(A, case.get('layout', 'C'))
        before = Al.copy()
        path = _path(Al)
        got = _call(case['kind'], Al, Bc)
        other = None
        if A.dtype == np.bool_ and A.ndim == 2:
            # the same logical input through the other code path
            Ao = np.asfortranarray(A) if path == 'fast' else np.ascontiguousarray(A)
            if _path(Ao) != path:
                other = _call(case['kind'], Ao, Bc)
        f = _judge(case, got, drv, path, other)
        if not np.array_equal(before, Al):
            f.append(dict(kind='property', key='input-modified', detail={}))
        irregular = ('obs' in drv and '0' in drv['obs'])
        res.append(dict(findings=f, nontrivial=bool(irregular or not np.array_equal(got, A)),
                        sig=lines[len(res)] + case.get('layout', 'C'),
                        tags=dict(kind=case['kind'], dtype=case['dtype'], ndim=len(case['shape']),
                                  layout=case.get('layout', 'C'), path=path,
                                  elem=('empty' if not any(case['bc']) else 'larger' if any(
                                      b > s for b, s in zip(case['bshape'], case['shape'])) else 'even' if any(
                                      b % 2 == 0 for b in case['bshape']) else 'odd'))))
    return res


def _eval_block(case):
    """exhaustive block: all boolean images of `shape` against the elements bcs[lo:hi] of shape `bshape`"""
    shape, bshape = case['shape'], case['bshape']
    n = int(np.prod(shape))
    nb = int(np.prod(bshape))
    imgs = list(range(1 << n)) if case.get('imgs') is None else case['imgs']
    findings = []
    count = 0
    nontriv = 0
    for bi in case['bcs']:
        bc = [(bi >> k) & 1 for k in range(nb)]
        Bc = np.array(bc, bool).reshape(bshape)
        for kind in ('erode', 'dilate'):
            lines, arrs = [], []
            for ii in imgs:
                data = [(ii >> k) & 1 for k in range(n)]
                lines.append(f"c01 kind={kind} dt=b1 shape={gen.enc_shape(shape)} data={','.join(map(str, data))} "
                             f"bshape={gen.enc_shape(bshape)} bc={','.join(map(str, bc))}")
                arrs.append(data)
            drvs = core.drive(lines)
            for data, drv in zip(arrs, drvs):
                A = np.array(data, bool).reshape(shape)
                got = _call(kind, A, Bc)
                other = _call(kind, np.asfortranarray(A), Bc) if len(shape) == 2 else None
                c = dict(kind=kind, dtype='bool', shape=list(shape), data=data, bshape=list(bshape), bc=bc, layout='C')
                f = _judge(c, got, drv, _path(A), other)
                for x in f:
                    if len(findings) < 40:
                        x['case'] = c
                        findings.append(x)
                count += 1
                if not np.array_equal(got, A):
                    nontriv += 1
    # keep one finding per key (the engine groups by key anyway)
    seen, keep = set(), []
    for f in findings:
        if (f['key']) not in seen:
            seen.add(f['key'])
            keep.append(f)
    return dict(findings=keep, n=count, nontrivial_n=nontriv, nontrivial=False, sig=None,
                tags=dict(kind='exhaustive-block', dtype='bool', ndim=len(shape)))


def evaluate(cases):
    out = []
    singles = [c for c in cases if 'block' not in c]
    sres = iter(_eval_single(singles))
    for c in cases:
        out.append(_eval_block(c) if 'block' in c else next(sres))
    return out


def _corpus():
    d = core.VERIF / 'corpus' / ID
    out = []
    if d.exists():
        for p in sorted(d.glob('*.json')):
            out.append(json.loads(p.read_text())['case'])
    return out


def _rand_elem(rng, dtype, ndim, shape):
    lo, hi = gen.dt_range(dtype)
    r = rng.random()
    if r < 0.25:
        bshape = [3] * ndim
    elif r < 0.5:
        bshape = [rng.choice([1, 2, 3, 4, 5]) for _ in range(ndim)]
    elif r < 0.58:
        bshape = [s + rng.choice([0, 1, 2, 3]) for s in shape]          # as large as / larger than the image
    elif r < 0.65:
        # on one axis the half-width exceeds the whole image axis (every offset on that side leaves the image)
        ax = rng.randrange(ndim)
        bshape = [(2 * s + rng.choice([2, 3, 4, 7])) if i == ax else rng.choice([1, 2, 3]) for i, s in enumerate(shape)]
    else:
        bshape = [rng.choice([1, 2, 3]) for _ in range(ndim)]
    n = int(np.prod(bshape))
    style = rng.random()
    if dtype == 'bool':
        p = 0.0 if style < 0.05 else rng.choice([0.3, 0.6, 1.0])
        bc = [1 if rng.random() < p else 0 for _ in range(n)]
    else:
        hmax = min(hi, rng.choice([1, 1, 2, 3, 10, hi // 3, hi]))
        bc = []
        for _ in range(n):
            u = rng.random()
            if style < 0.05:
                bc.append(lo if lo < 0 else 0)
            elif u < 0.3:
                bc.append(lo)                  # dtype minimum: absent
            elif u < 0.5:
                bc.append(0 if lo < 0 else 1)  # height 0 (signed) / 1
            else:
                bc.append(rng.randint(0 if lo < 0 else 1, max(1, hmax)))
    return bshape, bc


def _regular_elem(rng, dtype, ndim):
    import mahotas as mh
    r = rng.random()
    if r < 0.4:
        A = np.zeros((3,) * ndim, dtype)
        Bc = mh.get_structuring_elem(A, rng.choice([None, 1, 2, 3][:ndim + 1]) if ndim != 2 else rng.choice([None, 1, 2, 4, 8]))
    elif r < 0.7:
        Bc = np.ones([rng.choice([1, 3, 5]) for _ in range(ndim)], dtype)
    else:
        Bc = mh.disk(rng.choice([1, 2, 3]), ndim).astype(dtype)
    return list(Bc.shape), [int(x) for x in Bc.ravel().tolist()]


def cases(rng, tier):
    out = list(_corpus()) if tier != 'search' else []
    nrand = dict(quick=2500, thorough=30000, search=12000)[tier]
    # exhaustive boolean scope
    allb = list(range(512))
    if tier == 'thorough':
        for lo in range(0, 512, 4):
            out.append(dict(block='exh', shape=[3, 4], bshape=[3, 3], bcs=allb[lo:lo + 4]))
        for shp in ([1, 5], [5, 1], [2, 2], [1, 1], [2, 3]):
            for lo in range(0, 512, 64):
                out.append(dict(block='exh', shape=shp, bshape=[3, 3], bcs=allb[lo:lo + 64]))
        for shp, bshp in (([3, 4], [2, 2]), ([3, 4], [4, 2]), ([3, 3], [1, 4]), ([2, 4], [2, 3]), ([3, 4], [3, 2])):
            out.append(dict(block='exh', shape=shp, bshape=bshp, bcs=list(range(1 << int(np.prod(bshp))))))
    else:
        nb, ni = (12, 256) if tier == 'quick' else (40, 512)
        for bi in rng.sample(allb, nb):
            out.append(dict(block='exh', shape=[3, 4], bshape=[3, 3], bcs=[bi], imgs=sorted(rng.sample(range(4096), ni))))
        for shp, bshp in (([1, 4], [3, 3]), ([4, 1], [3, 3]), ([2, 2], [3, 3]), ([3, 4], [2, 2]), ([3, 3], [4, 2])):
            nbc = 1 << int(np.prod(bshp))
            out.append(dict(block='exh', shape=shp, bshape=bshp, bcs=sorted(rng.sample(range(nbc), min(nbc, 16)))))
    # structured random cases
    for i in range(nrand):
        dtype = rng.choice(gen.INT_DTYPES)
        shape = list(gen.small_shape(rng))
        ndim = len(shape)
        A = gen.rand_int_array(rng, shape, dtype)
        if rng.random() < 0.35:
            bshape, bc = _regular_elem(rng, dtype, ndim)
        else:
            bshape, bc = _rand_elem(rng, dtype, ndim, shape)
        out.append(dict(kind=rng.choice(['erode', 'dilate']), dtype=dtype, shape=shape,
                        data=[int(x) for x in A.ravel().tolist()], bshape=bshape, bc=bc,
                        layout=rng.choice(gen.LAYOUTS)))
    return out


def shrink(case):
    if 'block' in case:
        return
    shape, data = case['shape'], case['data']
    A = np.array(data, dtype=object).reshape(shape)
    # drop a slice along an axis
    for ax in range(len(shape)):
        if shape[ax] > 1:
            for j in (shape[ax] - 1, 0):
                B = np.delete(A, j, axis=ax)
                c = dict(case, shape=list(B.shape), data=[int(x) for x in B.ravel().tolist()])
                yield c
    if case.get('layout', 'C') != 'C':
        yield dict(case, layout='C')
    lo, hi = gen.dt_range(case['dtype'])
    for i, v in enumerate(data):
        if v != 0 and lo <= 0:
            d = list(data); d[i] = 0
            yield dict(case, data=d)
    absent = lo if case['dtype'] != 'bool' else 0
    for i, v in enumerate(case['bc']):
        if v != absent:
            b = list(case['bc']); b[i] = absent
            yield dict(case, bc=b)
