"""C01 — erosion and dilation equal the lattice definition."""
from __future__ import annotations
import itertools, json
import numpy as np
from .. import core, gen

ID = 'C01'
FOUNDATIONS = ['harness.foundation.filteriter', 'harness.foundation.cscalar', 'harness.foundation.pybody']   # the models use the closed form proved by F6 (filterIter_refines)
LEAN_TARGETS = ['Mahotas.Proofs.FilterIter']
LEVEL = 'proof'
RULE = ('corpus; exhaustive boolean scope (all 3x4 images x 3x3 elements, also 1xn/nx1/2x2; quick = seeded slice); '
        'get_structuring_elem on rank 1-4 arrays: None, a grid of ints (negative, zero, translate_sizes keys, huge), arrays of '
        'equal/other rank, zero-length axes, other dtypes/layouts; erode/dilate called with None/int arguments; '
        'random 1-3 D x 9 integer dtypes x 7 layouts x elements (odd/even, empty, larger than the image, non-flat, pyramids = '
        'height-monotone towards the centre, dtype-minimum entries) with values dense at the dtype limits; a size-threshold '
        'stream (1x65537, 257x256, 65537x1, 32769: element count / row length across 2^8, 2^15, 2^16; bool fast path and generic '
        'path; cross and 3x3 box) judged by the same Lean driver. Non-trivial = result differs from the input '
        'or element is irregular; distinct = distinct (op,dtype,shape,data,element,layout).')
ASSUMPTIONS = ['heights of the structuring element are non-negative (or the dtype minimum = absent)',
               'an image value equal to the dtype minimum is absorbing (-inf) under dilation, as an element entry is',
               'dilation is compared with the gather definition at EVERY pixel when the members are star-shaped and flat '
               '(C01_dilate_regular_everywhere) or star-shaped and height-monotone towards the centre (C01_dilate_height_monotone_everywhere: '
               'pyramids, and cross/box/disk on signed dtypes where 0 entries are members of height 0); with any other element only at '
               'pixels whose element box and reflected box lie inside the image; elsewhere only path independence and the scatter model apply',
               'array sizes < 2^31']
EXHAUSTIVE = {'thorough': True}
TRUSTED = ['numpy (array construction, layout views)']


def _mk(case):
    A = np.array(case['data'], dtype=object).astype(case['dtype']).reshape(case['shape'])
    Bc = np.array(case['bc'], dtype=object).astype(case['dtype']).reshape(case['bshape'])
    return A, Bc


def _flags(A):
    """the four facts PyArray_ISCARRAY looks at, as the driver's `flags=c,a,w,s`"""
    fl = A.flags
    return ','.join('1' if b else '0' for b in (fl.c_contiguous, fl.aligned, fl.writeable, A.dtype.isnative))


def _line(case, flags=None):
    head = (f"c01 kind={case['kind']} dt={gen.DT_NAME[case['dtype']]} shape={gen.enc_shape(case['shape'])} "
            f"data={gen.enc_arr(case['data'])} ")
    if 'pyarg' in case:
        # the Python-level argument (None / int): the driver runs its own getStructuringElem
        elem = 'arg=none' if case['pyarg'] == 'none' else f"arg=int v={int(case['pyarg'])}"
    else:
        elem = f"bshape={gen.enc_shape(case['bshape'])} bc={gen.enc_arr(case['bc'])}"
    return head + elem + (f" flags={flags}" if flags is not None else '')


def _path(A):
    fl = A.flags
    return 'fast' if (A.dtype == np.bool_ and A.ndim == 2 and fl.c_contiguous and fl.writeable and fl.aligned) else 'generic'


def _call(kind, A, Bc):
    import mahotas as mh
    f = mh.erode if kind == 'erode' else mh.dilate
    return np.asarray(f(A, Bc))


def _judge(case, got, drv, path, other=None):
    """got: impl output (C order ints); drv: driver dict"""
    out = []
    spec = core.ints(drv['spec'])
    model = core.ints(drv['model'])
    g = [int(x) for x in got.ravel(order='C').tolist()]
    kind = case['kind']
    if kind == 'erode':
        bad = [i for i, (a, b) in enumerate(zip(g, spec)) if a != b]
        if bad:
            out.append(dict(kind='property', key=f'erode:{path}',
                            detail=dict(pixels=bad[:8], got=g, spec=spec, path=path)))
        elif path == 'fast' and 'loops' in drv:
            # diagnostic tie of the loop-by-loop transliteration of the fast erosion branch
            # (C01_fast_erode_loops_eq_pointwise proves it equal to the pointwise model and hence to the spec)
            loops = core.ints(drv['loops'])
            badm = [i for i, (a, b) in enumerate(zip(g, loops)) if a != b]
            if badm:
                out.append(dict(kind='model', key='erode-loops-model:fast',
                                detail=dict(pixels=badm[:8], got=g, model=loops, path=path)))
    else:
        obs = core.ints(drv['obs'])
        bad = [i for i, (a, b, o) in enumerate(zip(g, spec, obs)) if o and a != b]
        if bad:
            out.append(dict(kind='property', key=f'dilate:{path}',
                            detail=dict(pixels=bad[:8], got=g, spec=spec, obs=obs, path=path)))
        else:
            m = model if path == 'generic' else core.ints(drv['fast'])
            badm = [i for i, (a, b) in enumerate(zip(g, m)) if a != b]
            if badm:
                out.append(dict(kind='model', key=f'dilate-model:{path}',
                                detail=dict(pixels=badm[:8], got=g, model=m, path=path)))
            elif path == 'fast' and 'loops' in drv:
                # loop-by-loop transliteration of the fast dilation branch (C01_fast_dilate_loops_eq_pointwise)
                loops = core.ints(drv['loops'])
                badl = [i for i, (a, b) in enumerate(zip(g, loops)) if a != b]
                if badl:
                    out.append(dict(kind='model', key='dilate-loops-model:fast',
                                    detail=dict(pixels=badl[:8], got=g, model=loops, path=path)))
    if other is not None:
        o = [int(x) for x in other.ravel(order='C').tolist()]
        if o != g:
            out.append(dict(kind='property', key=f'path-independence:{kind}',
                            detail=dict(fast=g if path == 'fast' else o, generic=o if path == 'fast' else g)))
    if 'dispatch' in drv and not out:
        # tie of pathOf / erodeDispatch / dilateDispatch (C01_path_independent, C01_dispatch_eq_spec): the driver
        # was told the flags of the array actually passed; it must choose the same path and return the same array
        if drv.get('path') != path:
            out.append(dict(kind='model', key='pathOf', detail=dict(driver=drv.get('path'), harness=path)))
        d = core.ints(drv['dispatch'])
        if d != g:
            out.append(dict(kind='model', key=f'dispatch:{kind}:{path}', detail=dict(got=g, model=d, path=path)))
    return out


def _eval_single(cases):
    res = []
    prepared = []
    for case in cases:
        A, Bc = _mk(case)
        if 'pyarg' in case:
            Bc = None if case['pyarg'] == 'none' else int(case['pyarg'])
        elif case.get('bc_dtype') or case.get('bc_layout'):
            # the same element handed over in another dtype (converted by get_structuring_elem) and/or memory layout
            # (copied by get_structuring_elem when not C-contiguous): the answer may not depend on either
            B2 = Bc
            bd = case.get('bc_dtype')
            if bd:
                try:
                    C = Bc.astype(object).astype(bd)
                    if np.array_equal(C.astype(object), Bc.astype(object)) and np.array_equal(
                            np.asanyarray(C, A.dtype).astype(object), Bc.astype(object)):
                        B2 = C
                except (OverflowError, ValueError, TypeError):
                    pass
            Bc = gen.relayout(B2, case.get('bc_layout') or 'C')
        prepared.append((A, Bc, gen.relayout(A, case.get('layout', 'C'))))
    lines = [_line(c, _flags(p[2])) for c, p in zip(cases, prepared)]
    drvs = core.drive(lines)
    for case, drv, (A, Bc, Al) in zip(cases, drvs, prepared):
        before = Al.copy()
        path = _path(Al)
        got = _call(case['kind'], Al, Bc)
        other = None
        if A.dtype == np.bool_ and A.ndim == 2:
            # the same logical input through the other code path
            Ao = np.asfortranarray(A) if path == 'fast' else np.ascontiguousarray(A)
            if _path(Ao) != path:
                other = _call(case['kind'], Ao, Bc)
        f = _judge(case, got, drv, path, other)
        if case.get('outalias'):
            # erode(A, Bc, out=A): the statement quantifies over every call; _get_output accepts a C-contiguous array of the dtype and
            # shape of A, so the image itself qualifies. Same specification as the out-less call (compared with it, which is judged above).
            Ac = np.ascontiguousarray(Al).copy()
            import mahotas as mh
            fn_ = mh.erode if case['kind'] == 'erode' else mh.dilate
            form = (len(case['data']) + int(Ac.size)) % 3
            if form == 0:
                o_ = Ac                                   # the very object
                r2 = fn_(Ac, Bc, out=o_)
            elif form == 1 or Ac.ndim == 0 or Ac.size < 2:
                o_ = Ac[...]                              # another view object of exactly the same memory
                r2 = fn_(Ac, Bc, out=o_)
            else:
                # `out` overlaps the input at a different start address: both are C-contiguous views of one buffer, shifted by
                # one element (a rolling buffer); the result must still be the erosion/dilation of the image passed in
                n_ = int(Ac.size)
                buf = np.zeros(n_ + 1, Ac.dtype)
                up = bool(case['data'][0]) if len(case['data']) else False
                src, dst = (buf[1:], buf[:-1]) if up else (buf[:-1], buf[1:])
                src[...] = Ac.ravel()
                Ain, o_ = src.reshape(Ac.shape), dst.reshape(Ac.shape)
                r2 = fn_(Ain, Bc, out=o_)
            if not np.array_equal(np.asarray(r2), got):
                f.append(dict(kind='property', key=f"{case['kind']}:out=" + ('alias-a', 'alias-view', 'overlap-shifted')[form if form < 2 or Ac.size >= 2 else 1],
                              detail=dict(got=[int(x) for x in np.asarray(r2).ravel().tolist()], without_out=[int(x) for x in got.ravel().tolist()])))
            if r2 is not o_:
                f.append(dict(kind='model', key=f"{case['kind']}:out-not-returned", detail={}))
        if not np.array_equal(before, Al):
            f.append(dict(kind='property', key='input-modified', detail={}))
        irregular = ('obs' in drv and '0' in drv['obs'])
        # which theorem licenses the dilation comparison: every pixel (flat star-shaped: C01_dilate_regular_everywhere; non-flat
        # height-monotone, e.g. the cross on a signed dtype: C01_dilate_height_monotone_everywhere) or box-interior pixels only
        judged = ('n/a' if case['kind'] != 'dilate' else {'flat': 'all-pixels:flat-star', 'monotone': 'all-pixels:height-monotone'}.get(
            drv.get('cls', ''), 'box-interior-only'))
        res.append(dict(findings=f, nontrivial=bool(irregular or not np.array_equal(got, A)),
                        sig=lines[len(res)] + case.get('layout', 'C'),
                        tags=dict(kind=case['kind'], dtype=case['dtype'], ndim=len(case['shape']),
                                  layout=case.get('layout', 'C'), path=path, dilate_judged=judged, size=case.get('size', 'small'),
                                  out=('alias-a' if case.get('outalias') else 'none'),
                                  signed=('signed' if case['dtype'].startswith('int') else 'unsigned-or-bool'),
                                  elem=('pyarg' if 'pyarg' in case else 'empty' if not any(case['bc']) else 'larger' if any(
                                      b > s for b, s in zip(case['bshape'], case['shape'])) else 'even' if any(
                                      b % 2 == 0 for b in case['bshape']) else 'odd'))))
    return res


_BC_DTYPES = ['bool', 'uint8', 'int8', 'uint16', 'int32', 'int64', 'uint64']


def _getse_line(case):
    head = f"c01 kind=getse dt={gen.DT_NAME[case['dtype']]} ndim={case['ndim']} "
    if case['arg'] == 'none':
        return head + 'arg=none'
    if case['arg'] == 'int':
        return head + f"arg=int v={int(case['v'])}"
    return head + f"arg=array bshape={gen.enc_shape(case['bshape'])} bc={gen.enc_arr(case['bc'])}"


def _eval_getse(cases):
    """tie of `getStructuringElem` (C01_get_structuring_elem_spec): the real `mahotas.morph.get_structuring_elem`
    on an array of the stated rank and dtype against the driver's answer: shape, entries, dtype, contiguity, or
    which ValueError is raised"""
    from mahotas import morph
    res = []
    drvs = core.drive([_getse_line(c) for c in cases])
    for case, drv in zip(cases, drvs):
        A = np.zeros((2,) * case['ndim'], case['dtype'])
        if case['arg'] == 'none':
            Bc = None
        elif case['arg'] == 'int':
            Bc = int(case['v'])
        else:
            Bc = np.array(case['bc'], dtype=object).astype(case['bdtype']).reshape(case['bshape'])
            Bc = gen.relayout(Bc, case.get('blayout', 'C')) if Bc.size and Bc.ndim else Bc   # (ascontiguousarray makes 0-d 1-d)
        keep = None if not isinstance(Bc, np.ndarray) else Bc.copy()
        try:
            out = morph.get_structuring_elem(A, Bc)
            got = dict(ok='1', bshape=list(out.shape), elem=[int(x) for x in out.ravel(order='C').tolist()])
        except ValueError as e:
            out = None
            msg = str(e)
            got = dict(error='rank' if 'number of dimensions' in msg else 'empty' if 'empty' in msg else msg[:80])
        f = []
        key = f"get_structuring_elem:{case['arg']}"
        if 'error' in drv or 'error' in got:
            if drv.get('error') != got.get('error'):
                f.append(dict(kind='model', key=key + ':error', detail=dict(driver=drv, got=got)))
        else:
            want = dict(ok='1', bshape=core.ints(drv.get('bshape', '')), elem=core.ints(drv.get('elem', '')))
            if want != got:
                f.append(dict(kind='model', key=key, detail=dict(driver=want, got=got)))
            elif out.dtype != A.dtype or not out.flags.c_contiguous:
                # "This array will be of the same type as A, C-contiguous" (docstring of get_structuring_elem)
                f.append(dict(kind='model', key=key + ':dtype-or-layout',
                              detail=dict(dtype=str(out.dtype), c_contiguous=bool(out.flags.c_contiguous))))
        if keep is not None and not np.array_equal(keep, Bc):
            f.append(dict(kind='model', key=key + ':argument-modified', detail={}))
        res.append(dict(findings=f, nontrivial=bool(case['arg'] != 'none'), sig=_getse_line(case) + case.get('bdtype', '') +
                        case.get('blayout', ''),
                        tags=dict(kind='getse', dtype=case['dtype'], ndim=case['ndim'], arg=case['arg'],
                                  outcome=got.get('error', 'ok'))))
    return res


def _getse_cases(rng, tier):
    """None and a grid of Python ints (negative, zero, the translate_sizes keys 4, 8, 6, larger than the rank, huge)
    on arrays of rank 1..4; arrays of equal/different rank, with zero-length axes, of another dtype (cast) and layout"""
    out = []
    ints = list(range(-3, 11)) + [26, 27, 81, 2 ** 31, 2 ** 70, -2 ** 70]
    for ndim in (1, 2, 3, 4):
        for dtype in ('bool', 'uint8', 'int32') if tier != 'thorough' else gen.INT_DTYPES:
            out.append(dict(kind='getse', dtype=dtype, ndim=ndim, arg='none'))
            for v in ints:
                out.append(dict(kind='getse', dtype=dtype, ndim=ndim, arg='int', v=v))
    for _ in range(dict(quick=150, thorough=3000, search=600)[tier]):
        ndim = rng.choice([1, 2, 3, 4])
        dtype = rng.choice(gen.INT_DTYPES)
        r = rng.random()
        brank = ndim if r < 0.6 else rng.choice([k for k in range(0, 6) if k != ndim])
        bshape = [rng.choice([0, 1, 2, 3, 3, 4]) if rng.random() < 0.35 else rng.choice([1, 2, 3]) for _ in range(brank)]
        bdtype = dtype if rng.random() < 0.5 else rng.choice(_BC_DTYPES)
        lo, hi = gen.dt_range(bdtype)
        n = int(np.prod(bshape)) if bshape else 1
        bc = [rng.choice([lo, hi, 0, 1, 1, 2, 255, 256, -1, -129, 65536 + 7, rng.randint(lo, hi)]) for _ in range(n)]
        bc = [min(hi, max(lo, x)) for x in bc]
        out.append(dict(kind='getse', dtype=dtype, ndim=ndim, arg='array', bshape=bshape, bc=bc, bdtype=bdtype,
                        blayout=rng.choice(['C', 'C', 'F', 'strided', 'transposed', 'readonly'])))
    return out


def _eval_block(case):
    """exhaustive block: all boolean images of `shape` against the elements bcs[lo:hi] of shape `bshape`"""
    shape, bshape = case['shape'], case['bshape']
    n = int(np.prod(shape))
    nb = int(np.prod(bshape))
    imgs = list(range(1 << n)) if case.get('imgs') is None else case['imgs']
    findings = []
    count = 0
    nontriv = 0
    for bi in case['bcs']:
        bc = [(bi >> k) & 1 for k in range(nb)]
        Bc = np.array(bc, bool).reshape(bshape)
        for kind in ('erode', 'dilate'):
            lines, arrs = [], []
            for ii in imgs:
                data = [(ii >> k) & 1 for k in range(n)]
                lines.append(f"c01 kind={kind} dt=b1 shape={gen.enc_shape(shape)} data={','.join(map(str, data))} "
                             f"bshape={gen.enc_shape(bshape)} bc={','.join(map(str, bc))}")
                arrs.append(data)
            drvs = core.drive(lines)
            for data, drv in zip(arrs, drvs):
                A = np.array(data, bool).reshape(shape)
                got = _call(kind, A, Bc)
                other = _call(kind, np.asfortranarray(A), Bc) if len(shape) == 2 else None
                c = dict(kind=kind, dtype='bool', shape=list(shape), data=data, bshape=list(bshape), bc=bc, layout='C')
                f = _judge(c, got, drv, _path(A), other)
                for x in f:
                    if len(findings) < 40:
                        x['case'] = c
                        findings.append(x)
                count += 1
                if not np.array_equal(got, A):
                    nontriv += 1
    # keep one finding per key (the engine groups by key anyway)
    seen, keep = set(), []
    for f in findings:
        if (f['key']) not in seen:
            seen.add(f['key'])
            keep.append(f)
    return dict(findings=keep, n=count, nontrivial_n=nontriv, nontrivial=False, sig=None,
                tags=dict(kind='exhaustive-block', dtype='bool', ndim=len(shape)))


def evaluate(cases):
    out = []
    singles = [c for c in cases if 'block' not in c and c.get('kind') != 'getse']
    sres = iter(_eval_single(singles))
    gres = iter(_eval_getse([c for c in cases if c.get('kind') == 'getse']))
    for c in cases:
        out.append(_eval_block(c) if 'block' in c else next(gres) if c.get('kind') == 'getse' else next(sres))
    return out


def _corpus():
    d = core.VERIF / 'corpus' / ID
    out = []
    if d.exists():
        for p in sorted(d.glob('*.json')):
            out.append(json.loads(p.read_text())['case'])
    return out


def _rand_elem(rng, dtype, ndim, shape):
    lo, hi = gen.dt_range(dtype)
    r = rng.random()
    if r < 0.25:
        bshape = [3] * ndim
    elif r < 0.5:
        bshape = [rng.choice([1, 2, 3, 4, 5]) for _ in range(ndim)]
    elif r < 0.58:
        bshape = [s + rng.choice([0, 1, 2, 3]) for s in shape]          # as large as / larger than the image
    elif r < 0.65:
        # on one axis the half-width exceeds the whole image axis (every offset on that side leaves the image)
        ax = rng.randrange(ndim)
        bshape = [(2 * s + rng.choice([2, 3, 4, 7])) if i == ax else rng.choice([1, 2, 3]) for i, s in enumerate(shape)]
    else:
        bshape = [rng.choice([1, 2, 3]) for _ in range(ndim)]
    n = int(np.prod(bshape))
    style = rng.random()
    if dtype != 'bool' and rng.random() < 0.2:
        # "pyramid": heights fall off with the distance from the centre (l1 or linf), cells beyond the reach are absent or
        # (signed) of height 0 -- coordinate-wise star-shaped and height-monotone towards the centre, not flat: the
        # dilation is judged at EVERY pixel (C01_dilate_height_monotone_everywhere), also for even sides
        top = rng.choice([1, 2, 3, 5, min(hi, 40)])
        step = rng.choice([1, 1, 2])
        norm = rng.choice(['l1', 'linf'])
        floor = rng.choice([lo, lo, 0]) if lo < 0 else lo
        bc = []
        for idx in np.ndindex(*bshape):
            ds = [abs(i - b // 2) for i, b in zip(idx, bshape)]
            dist = sum(ds) if norm == 'l1' else max(ds)
            h = top - step * dist
            bc.append(h if h >= (0 if lo < 0 else 1) else floor)
        return bshape, bc
    if dtype == 'bool':
        p = 0.0 if style < 0.05 else rng.choice([0.3, 0.6, 1.0])
        bc = [1 if rng.random() < p else 0 for _ in range(n)]
    else:
        hmax = min(hi, rng.choice([1, 1, 2, 3, 10, hi // 3, hi]))
        bc = []
        for _ in range(n):
            u = rng.random()
            if style < 0.05:
                bc.append(lo if lo < 0 else 0)
            elif u < 0.3:
                bc.append(lo)                  # dtype minimum: absent
            elif u < 0.5:
                bc.append(0 if lo < 0 else 1)  # height 0 (signed) / 1
            else:
                bc.append(rng.randint(0 if lo < 0 else 1, max(1, hmax)))
    return bshape, bc


def _regular_elem(rng, dtype, ndim):
    """-> bshape, bc, pyarg: pyarg is the Python-level argument (None / int) when the element is to be built by the
    call itself (erode(A, 8)): the real get_structuring_elem + dispatch against the driver's erodePy/dilatePy"""
    import mahotas as mh
    r = rng.random()
    pyarg = None
    if r < 0.4:
        A = np.zeros((3,) * ndim, dtype)
        arg = (rng.choice([None, 1, 2, 3][:ndim + 1]) if ndim != 2 else rng.choice([None, 1, 2, 4, 8])) \
            if rng.random() < 0.8 else rng.choice([0, -1, 4, 6, 8, 5])
        Bc = mh.get_structuring_elem(A, arg)
        if rng.random() < 0.6:
            pyarg = 'none' if arg is None else int(arg)
    elif r < 0.7:
        Bc = np.ones([rng.choice([1, 3, 5]) for _ in range(ndim)], dtype)
    else:
        Bc = mh.disk(rng.choice([1, 2, 3]), ndim).astype(dtype)
    return list(Bc.shape), [int(x) for x in Bc.ravel().tolist()], pyarg


def _threshold_cases(rng, tier):
    """SIZE-THRESHOLD stream: a handful of images whose element count / row length crosses 2^8, 2^15, 2^16 (+-1), so that a
    counter, index or accumulator narrowed to 8/16 bits cannot pass: 1 x 65537 and 257 x 256 (bool C-contiguous = fast path;
    strided / uint8 / int16 = generic path), 1-D 65537 and 32769, cross (Python-level argument) and 3x3 box. Judged by the Lean
    driver like every other case (the native driver handles 65k pixels in well under a second)."""
    plans = [('bool', [1, 65537], 'C', 'none'), ('uint8', [1, 65537], 'strided', 'box'), ('bool', [257, 256], 'C', 'box'),
             ('int16', [65537], 'C', 'none'), ('uint8', [257, 256], 'C', 'none'), ('int8', [32769], 'negstride', 'box'),
             ('uint16', [256, 257], 'F', 'none'), ('bool', [65537, 1], 'C', 'box')]
    if tier == 'quick':
        plans = rng.sample(plans[:3], 2) + rng.sample(plans[3:], 2)
    out = []
    for dtype, shape, layout, el in plans:
        lo, hi = gen.dt_range(dtype)
        n = int(np.prod(shape))
        if dtype == 'bool':
            pbit = rng.choice([0.5, 0.9])
            data = [1 if rng.random() < pbit else 0 for _ in range(n)]
        else:
            band = rng.choice([3, 40, hi - lo])
            base = rng.randint(lo, hi - band)
            data = [base + rng.randint(0, band) for _ in range(n)]
        nd = len(shape)
        for kind in ('erode', 'dilate'):
            c = dict(kind=kind, dtype=dtype, shape=shape, data=data, layout=layout, size='threshold')
            if el == 'none':
                import mahotas as mh
                Bc = mh.get_structuring_elem(np.zeros((3,) * nd, dtype), None)
                c.update(bshape=list(Bc.shape), bc=[int(x) for x in Bc.ravel().tolist()], pyarg='none')
            else:
                c.update(bshape=[3] * nd, bc=[1] * 3 ** nd)
            out.append(c)
    return out


def cases(rng, tier):
    out = list(_corpus()) if tier != 'search' else []
    nrand = dict(quick=2500, thorough=30000, search=12000)[tier]
    # exhaustive boolean scope
    allb = list(range(512))
    if tier == 'thorough':
        for lo in range(0, 512, 4):
            out.append(dict(block='exh', shape=[3, 4], bshape=[3, 3], bcs=allb[lo:lo + 4]))
        for shp in ([1, 5], [5, 1], [2, 2], [1, 1], [2, 3]):
            for lo in range(0, 512, 64):
                out.append(dict(block='exh', shape=shp, bshape=[3, 3], bcs=allb[lo:lo + 64]))
        for shp, bshp in (([3, 4], [2, 2]), ([3, 4], [4, 2]), ([3, 3], [1, 4]), ([2, 4], [2, 3]), ([3, 4], [3, 2])):
            out.append(dict(block='exh', shape=shp, bshape=bshp, bcs=list(range(1 << int(np.prod(bshp))))))
    else:
        nb, ni = (12, 256) if tier == 'quick' else (40, 512)
        for bi in rng.sample(allb, nb):
            out.append(dict(block='exh', shape=[3, 4], bshape=[3, 3], bcs=[bi], imgs=sorted(rng.sample(range(4096), ni))))
        for shp, bshp in (([1, 4], [3, 3]), ([4, 1], [3, 3]), ([2, 2], [3, 3]), ([3, 4], [2, 2]), ([3, 3], [4, 2])):
            nbc = 1 << int(np.prod(bshp))
            out.append(dict(block='exh', shape=shp, bshape=bshp, bcs=sorted(rng.sample(range(nbc), min(nbc, 16)))))
    # structured random cases
    for i in range(nrand):
        dtype = rng.choice(gen.INT_DTYPES)
        shape = list(gen.small_shape(rng))
        ndim = len(shape)
        A = gen.rand_int_array(rng, shape, dtype)
        pyarg = None
        if rng.random() < 0.35:
            bshape, bc, pyarg = _regular_elem(rng, dtype, ndim)
        else:
            bshape, bc = _rand_elem(rng, dtype, ndim, shape)
        c = dict(kind=rng.choice(['erode', 'dilate']), dtype=dtype, shape=shape,
                 data=[int(x) for x in A.ravel().tolist()], bshape=bshape, bc=bc,
                 layout=rng.choice(gen.LAYOUTS))
        if rng.random() < 0.25:
            c['outalias'] = True       # also called in place (out = the image itself)
        if pyarg is not None:
            c['pyarg'] = pyarg
        else:
            if rng.random() < 0.25:
                c['bc_dtype'] = rng.choice(['int64', 'uint8', 'int32', 'bool', 'float64'])
            if rng.random() < 0.25:
                c['bc_layout'] = rng.choice(['F', 'strided', 'negstride', 'transposed', 'readonly'])
        out.append(c)
    out.extend(_threshold_cases(rng, tier))
    out.extend(_getse_cases(rng, tier))
    return out


def shrink(case):
    if 'block' in case:
        return
    if case.get('kind') == 'getse':
        if case['arg'] == 'array':
            if case.get('blayout', 'C') != 'C':
                yield dict(case, blayout='C')
            if case.get('bdtype') != case['dtype']:
                lo, hi = gen.dt_range(case['dtype'])
                if all(lo <= x <= hi for x in case['bc']):
                    yield dict(case, bdtype=case['dtype'])
            for i, v in enumerate(case['bc']):
                if v != 0:
                    b = list(case['bc']); b[i] = 0
                    yield dict(case, bc=b)
        return
    if case.get('outalias'):
        yield {k: v for k, v in case.items() if k != 'outalias'}
    if 'pyarg' in case:
        # the same element passed as an explicit array (bshape/bc hold what get_structuring_elem returned)
        yield {k: v for k, v in case.items() if k != 'pyarg'}
        case = dict(case)
    if case.get('size') == 'threshold':
        # no one-slice-at-a-time deletion on a 65k-pixel case: cut the longest axis to the powers of two the stream is about, then halve
        shape = list(case['shape'])
        ax = max(range(len(shape)), key=lambda i: shape[i])
        rest = int(np.prod(shape)) // shape[ax]
        A = np.array(case['data'], dtype=object).reshape(shape)
        for m in (65536 // rest, 32768 // rest, 256, shape[ax] // 2):
            if 1 <= m < shape[ax]:
                B = np.take(A, range(m), axis=ax)
                c = dict(case, shape=list(B.shape), data=[int(x) for x in B.ravel().tolist()])
                if B.size < 4096:
                    c.pop('size', None)
                yield c
        if case.get('layout', 'C') != 'C':
            yield dict(case, layout='C')
        return
    shape, data = case['shape'], case['data']
    A = np.array(data, dtype=object).reshape(shape)
    # drop a slice along an axis
    for ax in range(len(shape)):
        if shape[ax] > 1:
            for j in (shape[ax] - 1, 0):
                B = np.delete(A, j, axis=ax)
                c = dict(case, shape=list(B.shape), data=[int(x) for x in B.ravel().tolist()])
                yield c
    if case.get('layout', 'C') != 'C':
        yield dict(case, layout='C')
    lo, hi = gen.dt_range(case['dtype'])
    for i, v in enumerate(data):
        if v != 0 and lo <= 0:
            d = list(data); d[i] = 0
            yield dict(case, data=d)
    if 'pyarg' in case:
        return
    absent = lo if case['dtype'] != 'bool' else 0
    for i, v in enumerate(case['bc']):
        if v != absent:
            b = list(case['bc']); b[i] = absent
            yield dict(case, bc=b)
