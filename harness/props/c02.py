"""C02 — opening, closing, conditional and top-hat operators obey the lattice laws."""
from __future__ import annotations
import json
import numpy as np
from .. import core, gen

ID = 'C02'
FOUNDATIONS = ['harness.foundation.pybody', 'harness.foundation.cscalar']   # see each foundation module's docstring
LEVEL = 'proof'
RULE = ('corpus; subm: all 65536 pairs of int8 and of uint8 values (both tiers) and boundary-dense random pairs of the '
        'wider dtypes and bool; operators: random 1-3 D images x {bool, uint8, uint16, uint32, uint64, int8, int16, int32, int64} '
        'x 7 layouts x {cross, boxes of odd sides <= 5, disks r=1..3, user-supplied even-sided / asymmetric / non-flat arrays} '
        'x {fresh output, dirty out= buffer for open/close} x pairs (f,g) with '
        'f<=g, f>=g, unrelated, g ~ dilate(f), f ~ erode(g); about 70 % of the unsigned images are clear of the saturation '
        'limits by construction. Laws are evaluated on the real outputs; every real output is also compared with the Lean '
        'model. Non-trivial = open(f) != f or close(f) != f; distinct = distinct protocol line + layouts.')
ASSUMPTIONS = ['laws are judged for bool images and for unsigned images whose values lie in [lo+2H, hi-2H] (H = largest '
               'height of the element = 1 for the regular elements): "clear of the saturation limits" for two composed operators',
               'regular structuring elements only: centred cross (get_structuring_elem), boxes of odd sides up to 5, disks of radius 1-3',
               'cdilate/cerode bounds and top-hat = clamp(difference) are judged for every bool/unsigned input, clear or not',
               'signed dtypes and user-supplied (non-regular) elements are outside the statement: every real output is compared with the '
               'model, and the laws proved in Lean for them (C02_*_signed, the every-element theorems C02_adjunction / C02_open_* / '
               'C02_close_* / C02_open_close_increasing) are judged on the real outputs inside exactly the proved hypotheses '
               '(no pixel at hi / f + h < hi / centre is a member) as kind=model findings keyed proved-law:*',
               'open/close with out=: the buffer is C-contiguous, of the dtype and shape of f (what _get_output accepts), arbitrary contents; '
               'the result must be that very buffer and equal the buffer program of the Lean model (= the pure composition, C02_open_close_buffer_program)',
               'f and g have the same dtype and shape; array sizes < 2^31']
EXHAUSTIVE = {'thorough': True, 'quick': True}
TRUSTED = ['numpy (array construction, layout views, elementwise comparisons of the real outputs)']
UNSIGNED = ['uint8', 'uint16', 'uint32', 'uint64']
OPS = ['erode', 'dilate', 'open', 'close', 'cerode', 'cdilate', 'thopen', 'thclose']


def _arr(vals, dtype, shape):
    return np.array(vals, dtype=object).astype(dtype).reshape(shape)


def _line(case):
    s = (f"c02 kind=ops dt={gen.DT_NAME[case['dtype']]} shape={gen.enc_shape(case['shape'])} f={gen.enc_arr(case['f'])} "
         f"g={gen.enc_arr(case['g'])} bshape={gen.enc_shape(case['bshape'])} bc={gen.enc_arr(case['bc'])} n={case['n']}")
    if case.get('outbuf'):
        F = np.zeros(case['shape'])
        s += f" buf1={gen.enc_arr(_ints(_dirty(case, F, 0)))} buf2={gen.enc_arr(_ints(_dirty(case, F, 3)))}"
    return s


def _ints(a):
    return [int(x) for x in np.asarray(a).ravel(order='C').tolist()]


def _O(a):
    """exact integers (uint64 arithmetic must not wrap or go through float)"""
    return np.asarray(a).astype(object) if np.asarray(a).dtype != np.bool_ else np.asarray(a).astype(int).astype(object)


def _le(a, b):
    return bool(np.all(_O(a) <= _O(b)))


def _dirty(case, F, salt):
    """a C-contiguous buffer of the dtype and shape of F with arbitrary contents (replayable from the case)"""
    vals = case['outbuf']
    n = int(np.prod(F.shape))
    lo, hi = gen.dt_range(case['dtype'])
    seq = [vals[(i * 7 + salt) % len(vals)] for i in range(n)]
    return _arr([min(hi, max(lo, v)) for v in seq], case['dtype'], F.shape)


def _real(case, F, G, Bc):
    import mahotas as mh
    out = {}
    out['erode'] = mh.erode(F, Bc)
    out['dilate'] = mh.dilate(F, Bc)
    if case.get('outbuf'):
        b1, b2 = _dirty(case, F, 0), _dirty(case, F, 3)
        out['open'] = mh.open(F, Bc, out=b1)
        out['close'] = mh.close(F, Bc, out=b2)
        out['_same_buffer'] = (out['open'] is b1) and (out['close'] is b2)
        out['_bufs'] = (_ints(_dirty(case, F, 0)), _ints(_dirty(case, F, 3)))
    else:
        out['open'] = mh.open(F, Bc)
        out['close'] = mh.close(F, Bc)
    out['_extra'] = {}
    if case.get('outbuf'):     # the other wrappers that take `out=`: a separate pre-dirtied buffer
        b3, b4, b5 = _dirty(case, F, 5), _dirty(case, F, 6), _dirty(case, F, 2)
        out['_extra']['thopen:out=fresh-dirty'] = (mh.morph.tophat_open(F, Bc, out=b3), b3, 'thopen')
        out['_extra']['thclose:out=fresh-dirty'] = (mh.morph.tophat_close(F, Bc, out=b4), b4, 'thclose')
        out['_extra']['cerode:out=fresh-dirty'] = (mh.cerode(F, G, Bc, out=b5), b5, 'cerode')
    if case.get('alias'):      # `out=` is the input image itself (elementwise last stage: the top-hats)
        f1, f2 = np.ascontiguousarray(F).copy(), np.ascontiguousarray(F).copy()
        v2 = f2[...]
        out['_extra']['thopen:out=alias-f'] = (mh.morph.tophat_open(f1, Bc, out=f1), f1, 'thopen')
        out['_extra']['thclose:out=alias-f'] = (mh.morph.tophat_close(f2, Bc, out=v2), v2, 'thclose')
        # in place on the image (and, for cerode, on the condition): accepted by _get_output; since fix be1beaf the wrappers copy
        # the input the kernel would otherwise read while overwriting it
        f3, f4, f5, g5 = (np.ascontiguousarray(F).copy() for _ in range(3)), None, None, None
        f3, f4, f5 = f3
        g5 = np.ascontiguousarray(G).copy()
        # the alias is handed over as ANOTHER view object of the same memory for open and cerode (`vol[z]` twice, `f[...]`): an
        # in-place test by object identity (`out is f`) must not be what protects the input
        v3, v5 = f3[...], f5.reshape(f5.shape)
        out['_extra']['open:out=alias-f'] = (mh.open(f3, Bc, out=v3), v3, 'open')
        out['_extra']['close:out=alias-f'] = (mh.close(f4, Bc, out=f4), f4, 'close')
        out['_extra']['cerode:out=alias-f'] = (mh.cerode(f5, G, Bc, out=v5), v5, 'cerode')
        out['_extra']['cerode:out=alias-g'] = (mh.cerode(F, g5, Bc, out=g5), g5, 'cerode')
    out['cerode'] = mh.cerode(F, G, Bc)
    out['cdilate'] = mh.cdilate(F, G, Bc, case['n'])
    out['thopen'] = mh.morph.tophat_open(F, Bc)
    out['thclose'] = mh.morph.tophat_close(F, Bc)
    return out


def _proved_laws(case, dtype, f0, g0, F, G, Bc, R):
    """signed dtypes / user-supplied elements (outside the statement of C02): the laws PROVED for them in Lean, judged on the real
    outputs inside exactly the proved hypotheses. Findings are kind='model' (the laws hold on the model; a failure means the
    implementation left the model), keyed proved-law:*."""
    import mahotas as mh
    fnd = []
    lo, hi = gen.dt_range(dtype)
    hs = [int(v) for v in case['bc']]
    if dtype == 'bool':
        adm = all(h in (0, 1) for h in hs)
        member = [h != 0 for h in hs]
    else:
        adm = all(h == lo or 0 <= h <= hi for h in hs)      # AdmissibleEntry (unsigned: lo = 0 is itself a height-range value)
        member = [h != lo for h in hs]
    info = dict(proved_laws='element-not-admissible')
    if not adm:
        return fnd, info
    H = [h for h, m in zip(hs, member) if m]
    Hmax = max(H) if H else 0
    isb = dtype == 'bool'
    fO, gO = _O(f0), _O(g0)
    fmax, gmax = int(fO.max()), int(gO.max())
    hiclear_f = isb or fmax < hi                                  # HiClear f
    below_f = isb or not H or fmax + Hmax < hi                    # f i + h < hi for every member height
    centre = int(np.ravel_multi_index(tuple(b // 2 for b in case['bshape']), tuple(case['bshape']))) if case['bshape'] else 0
    centre_member = bool(member[centre]) and (isb or hs[centre] >= 0)

    def bad(key, **detail):
        fnd.append(dict(kind='model', key='proved-law:' + key, detail=detail))
    if hiclear_f:      # C02_open_laws_signed / C02_open_anti_extensive + C02_open_idempotent (every element)
        if not _le(R['open'], f0):
            bad('open:anti-extensive', open=_ints(R['open']))
        oo = mh.open(R['open'], Bc)
        if not np.array_equal(oo, R['open']):
            bad('open:idempotent', once=_ints(R['open']), twice=_ints(oo))
    if below_f:        # C02_close_laws_signed via C02_dilate_below_max(_signed)
        if not _le(f0, R['close']):
            bad('close:extensive', close=_ints(R['close']))
        cc = mh.close(R['close'], Bc)
        if not np.array_equal(cc, R['close']):
            bad('close:idempotent', once=_ints(R['close']), twice=_ints(cc))
    # C02_open_close_increasing(_signed): no hypothesis
    m = np.minimum(f0, g0)
    M = gen.relayout(m, case.get('layout', 'C'))
    if not _le(mh.open(M, Bc), mh.open(G, Bc)):
        bad('open:increasing')
    if not _le(mh.close(M, Bc), mh.close(G, Bc)):
        bad('close:increasing')
    # C02_adjunction(_signed): NoSat for every pair that meets  <=  no pixel of g at hi, or f + h <= hi everywhere
    if isb or gmax < hi or not H or fmax + Hmax <= hi:
        lhs = _le(R['dilate'], g0)
        rhs = _le(f0, mh.erode(G, Bc))
        if lhs != rhs:
            bad('adjunction', dilate_le_g=lhs, f_le_erode=rhs)
        info['adjunction'] = 'both' if lhs else 'neither'
    info['proved_laws'] = '+'.join(['increasing'] + [n for n, c in (('open', hiclear_f), ('close', below_f), ('bounds', centre_member)) if c])
    if centre_member:  # C02_cerode_cdilate_bounds_signed / C02_cerode_bounds + C02_cdilate_bounds
        mn, mx = np.minimum(f0, g0), np.maximum(f0, g0)
        if not (_le(mn, R['cdilate']) and _le(R['cdilate'], g0)):
            bad('cdilate:bounds', got=_ints(R['cdilate']))
        if not (_le(g0, R['cerode']) and _le(R['cerode'], mx)):
            bad('cerode:bounds', got=_ints(R['cerode']))
    # C02_subm_image on the real compositions (every input) ...
    d1 = np.clip(fO - _O(R['open']), lo, hi)
    d2 = np.clip(_O(R['close']) - fO, lo, hi)
    if not np.array_equal(_O(R['thopen']), d1):
        bad('tophat_open:def', got=_ints(R['thopen']), expected=_ints(d1))
    if not np.array_equal(_O(R['thclose']), d2):
        bad('tophat_close:def', got=_ints(R['thclose']), expected=_ints(d2))
    # ... and C02_tophats_signed: min(difference, hi) under the hypotheses of both opening and closing laws
    if hiclear_f and below_f:
        if not np.array_equal(_O(R['thopen']), np.minimum(fO - _O(R['open']), hi)):
            bad('tophat_open:min', got=_ints(R['thopen']))
        if not np.array_equal(_O(R['thclose']), np.minimum(_O(R['close']) - fO, hi)):
            bad('tophat_close:min', got=_ints(R['thclose']))
    return fnd, info


def _eval_ops(cases):
    import mahotas as mh
    res = []
    lines = [_line(c) for c in cases]
    drvs = core.drive(lines)
    for case, drv, line in zip(cases, drvs, lines):
        if 'error' in drv:
            raise core.Infra('driver: ' + drv['error'])
        dtype = case['dtype']
        f0 = _arr(case['f'], dtype, case['shape'])
        g0 = _arr(case['g'], dtype, case['shape'])
        F = gen.relayout(f0, case.get('layout', 'C'))
        G = gen.relayout(g0, case.get('layoutg', 'C'))
        Fb, Gb = F.copy(), G.copy()
        Bc = None if case.get('usenone') else _arr(case['bc'], dtype, case['bshape'])
        R = _real(case, F, G, Bc)
        fnd = []
        for op in OPS:
            if _ints(R[op]) != core.ints(drv[op]):
                fnd.append(dict(kind='model', key=f'{op}-model', detail=dict(got=_ints(R[op]), model=core.ints(drv[op]))))
            if R[op].dtype != F.dtype or R[op].shape != F.shape:
                fnd.append(dict(kind='property', key=f'{op}:dtype-shape', detail=dict(dtype=str(R[op].dtype))))
        regular = case.get('elem', 'cross') != 'user'
        lawful = (dtype == 'bool' or dtype in UNSIGNED) and regular   # what the statement of C02 covers
        clearf, clearg = drv['clearf'] == '1', drv['clearg'] == '1'
        if case.get('outbuf'):
            if not R['_same_buffer']:
                fnd.append(dict(kind='model', key='out-buffer:not-returned', detail={}))
            for op, buf in zip(('openbuf', 'closebuf'), R['_bufs']):
                if core.ints(drv[op]) != _ints(R[op[:-3]]):
                    fnd.append(dict(kind='model', key=f'{op}-model', detail=dict(got=_ints(R[op[:-3]]), model=core.ints(drv[op]), buf=buf)))
        for key, (got, buf, op) in R['_extra'].items():
            # same specification as the out-less call (which is itself judged against the model and the definition)
            if got is not buf:
                fnd.append(dict(kind='model', key=f'{key}:not-returned', detail={}))
            if _ints(got) != _ints(R[op]):
                fnd.append(dict(kind='property' if lawful else 'model', key=key, detail=dict(got=_ints(got), without_out=_ints(R[op]))))
        pl = {}
        if not lawful:
            pf, pl = _proved_laws(case, dtype, f0, g0, F, G, Bc, R)
            fnd.extend(pf)

        def bad(key, **detail):
            fnd.append(dict(kind='property', key=key, detail=detail))
        if lawful:
            lo, hi = gen.dt_range(dtype)
            # conditional operators and top-hats: for every input
            mn, mx = np.minimum(f0, g0), np.maximum(f0, g0)
            if not (_le(mn, R['cdilate']) and _le(R['cdilate'], g0)):
                bad('cdilate:bounds', got=_ints(R['cdilate']))
            if not (_le(g0, R['cerode']) and _le(R['cerode'], mx)):
                bad('cerode:bounds', got=_ints(R['cerode']))
            d1 = np.clip(_O(f0) - _O(R['open']), lo, hi)
            d2 = np.clip(_O(R['close']) - _O(f0), lo, hi)
            if not np.array_equal(_O(R['thopen']), d1):
                bad('tophat_open:def', got=_ints(R['thopen']), expected=_ints(d1))
            if not np.array_equal(_O(R['thclose']), d2):
                bad('tophat_close:def', got=_ints(R['thclose']), expected=_ints(d2))
        if lawful and clearf:
            if not _le(R['open'], f0):
                bad('open:anti-extensive', open=_ints(R['open']))
            if not _le(f0, R['close']):
                bad('close:extensive', close=_ints(R['close']))
            oo = mh.open(R['open'], Bc)
            cc = mh.close(R['close'], Bc)
            if not np.array_equal(oo, R['open']):
                bad('open:idempotent', once=_ints(R['open']), twice=_ints(oo))
            if not np.array_equal(cc, R['close']):
                bad('close:idempotent', once=_ints(R['close']), twice=_ints(cc))
            if not np.array_equal(_O(R['thopen']), _O(f0) - _O(R['open'])):
                bad('tophat_open:exact', got=_ints(R['thopen']))
            if not np.array_equal(_O(R['thclose']), _O(R['close']) - _O(f0)):
                bad('tophat_close:exact', got=_ints(R['thclose']))
            if dtype == 'bool' and drv['symstar'] == '1':   # hypothesis SymStar of C02_bool_duality, decided by the Lean model
                dual = ~mh.erode(~F, Bc)
                if not np.array_equal(dual, R['dilate']):
                    bad('bool-duality', dilate=_ints(R['dilate']), dual=_ints(dual))
        if lawful and clearf and clearg:
            # increasing: min(f,g) <= g
            m = np.minimum(f0, g0)
            M = gen.relayout(m, case.get('layout', 'C'))
            if not _le(mh.open(M, Bc), mh.open(G, Bc)):
                bad('open:increasing')
            if not _le(mh.close(M, Bc), mh.close(G, Bc)):
                bad('close:increasing')
            lhs = _le(R['dilate'], g0)
            rhs = _le(f0, mh.erode(G, Bc))
            if lhs != rhs:
                bad('adjunction', dilate_le_g=lhs, f_le_erode=rhs)
            tag_adj = 'both' if lhs else 'neither'
        else:
            tag_adj = 'n/a'
        if not (np.array_equal(Fb, F) and np.array_equal(Gb, G)):
            bad('input-modified')
        res.append(dict(findings=fnd,
                        nontrivial=bool(not np.array_equal(R['open'], f0) or not np.array_equal(R['close'], f0)),
                        sig=line + case.get('layout', 'C') + case.get('layoutg', 'C'),
                        tags=dict(kind='ops', dtype=dtype, ndim=len(case['shape']), layout=case.get('layout', 'C'),
                                  elem=case.get('elem', '?'), pair=case.get('pair', '?'), symstar=drv['symstar'],
                                  domain=('clear' if (clearf and clearg) else 'f-clear' if clearf else 'saturating') if lawful
                                  else ('signed' if dtype not in UNSIGNED and dtype != 'bool' else 'user-elem'),
                                  out=('+'.join(n for n, c in (('fresh-dirty', case.get('outbuf')), ('alias-f', case.get('alias'))) if c) or 'none'),
                                  size=case.get('size', 'small'), adjunction=pl.get('adjunction', tag_adj), proved_laws=pl.get('proved_laws', 'statement'))))
    return res


def _subm_pairs(case):
    dtype = case['dtype']
    if case['block'] == 'subm-exh':
        lo, hi = gen.dt_range(dtype)
        a = case['a']
        return [a] * (hi - lo + 1), list(range(lo, hi + 1))
    return case['a'], case['b']


def _eval_subm(case):
    import mahotas as mh
    dtype = case['dtype']
    alla, allb = [], []
    if case['block'] == 'subm-exh':
        for a in case['as']:
            x, y = _subm_pairs(dict(case, a=a))
            alla += x; allb += y
    else:
        alla, allb = case['a'], case['b']
    A = _arr(alla, dtype, (len(alla),))
    B = _arr(allb, dtype, (len(allb),))
    layout = case.get('layout', 'C')
    mode = case.get('outmode', 'none')
    Al, Bl = gen.relayout(A, layout), gen.relayout(B, layout)
    Ab, Bb = Al.copy(), Bl.copy()
    # `out=`: _get_output accepts a C-contiguous array of the dtype and shape of `a`. alias-a is the documented in-place form
    # ("Pass a as output to subtract in-place"); alias-b and a pre-dirtied separate buffer are accepted by the wrapper as well.
    if mode == 'alias-a':
        Al = np.ascontiguousarray(Al).copy()
        o_ = Al if len(alla) % 2 else Al[...]          # the very object, or another view object of the same memory
        res = mh.morph.subm(Al, Bl, out=o_); same = res is o_
    elif mode == 'alias-b':
        Bl = np.ascontiguousarray(Bl).copy()
        res = mh.morph.subm(Al, Bl, out=Bl); same = res is Bl
    elif mode == 'fresh-dirty':
        lo_, hi_ = gen.dt_range(dtype)
        buf = _arr([(lo_ + (i * 2654435761 + 12345) % (hi_ - lo_ + 1)) if dtype != 'bool' else (i + 1) % 2 for i in range(len(alla))],
                   dtype, (len(alla),))
        bufints = _ints(buf)
        res = mh.morph.subm(Al, Bl, out=buf); same = res is buf
    else:
        res = mh.morph.subm(Al, Bl); same = True
    got = _ints(res)
    extra = '' if mode == 'none' else f" outmode={mode}" + (f" buf={gen.enc_arr(bufints)}" if mode == 'fresh-dirty' else '')
    drv = core.drive([f"c02 kind=subm dt={gen.DT_NAME[dtype]} a={gen.enc_arr(alla)} b={gen.enc_arr(allb)}{extra}"])[0]
    model, spec = core.ints(drv['model']), core.ints(drv['spec'])
    fnd = []
    sfx = '' if mode == 'none' else f':out={mode}'
    if mode != 'none' and core.ints(drv['prog']) != got:
        # the wrapper as a buffer program (submBuf; C02_subm_buffer_program proves it equal to the pure subtraction in every mode)
        fnd.append(dict(kind='model', key=f'subm-prog:{dtype}{sfx}', detail=dict(n=sum(1 for x, y in zip(core.ints(drv['prog']), got) if x != y))))
    bad = [i for i, (x, y) in enumerate(zip(got, spec)) if x != y]
    if bad:
        i = bad[0]
        fnd.append(dict(kind='property', key=f'subm:{dtype}{sfx}', detail=dict(a=alla[i], b=allb[i], got=got[i], spec=spec[i], n=len(bad)),
                        # the reduced witness is the single failing pair -- except in the size-threshold stream, where the length is the point
                        case=(dict(case) if case.get('size') == 'threshold' else
                              dict(block='subm-rand', dtype=dtype, a=[alla[i]], b=[allb[i]], layout=layout, outmode=mode))))
    badm = [i for i, (x, y) in enumerate(zip(got, model)) if x != y]
    if badm and not bad:
        i = badm[0]
        fnd.append(dict(kind='model', key=f'subm-model:{dtype}{sfx}', detail=dict(a=alla[i], b=allb[i], got=got[i], model=model[i])))
    if not same:
        fnd.append(dict(kind='model', key=f'subm:out-not-returned{sfx}', detail={}))
    if mode != 'alias-b' and not np.array_equal(Bb, Bl):
        fnd.append(dict(kind='property', key='subm:second-argument-modified', detail={}))
    if mode != 'alias-a' and not np.array_equal(Ab, Al):
        fnd.append(dict(kind='property', key='subm:first-argument-modified', detail={}))
    lo, hi = gen.dt_range(dtype)
    sat = sum(1 for x, y in zip(alla, allb) if not (lo <= x - y <= hi))
    return dict(findings=fnd, n=len(alla), nontrivial_n=sat, nontrivial=False, sig=None,
                tags=dict(kind=case['block'], dtype=dtype, layout=layout, out=mode, size=case.get('size', 'small')))


def evaluate(cases):
    out = []
    singles = [c for c in cases if 'block' not in c]
    sres = iter(_eval_ops(singles))
    for c in cases:
        out.append(_eval_subm(c) if 'block' in c else next(sres))
    return out


def _corpus():
    d = core.VERIF / 'corpus' / ID
    out = []
    if d.exists():
        for p in sorted(d.glob('*.json')):
            out.append(json.loads(p.read_text())['case'])
    return out


# ---------------------------------------------------------------------------------------------- generators

def _user_elem(rng, ndim, dtype):
    """a user-supplied array: even sides, asymmetric footprints, non-flat heights (for signed dtypes the marker lo = absent)"""
    lo, hi = gen.dt_range(dtype)
    sides = [rng.choice([1, 2, 2, 3, 4]) for _ in range(ndim)]
    n = int(np.prod(sides))
    style = rng.choice(['flat', 'nonflat', 'nonflat', 'sparse'])
    if dtype == 'bool' or style == 'flat':
        bc = [1 if rng.random() < 0.6 else 0 for _ in range(n)]
    elif style == 'sparse':
        bc = [rng.choice([0, 0, 0, 1, 2, 5]) for _ in range(n)]
    else:
        bc = [rng.choice([0, 1, 1, 2, 3]) for _ in range(n)]
    if lo < 0 and rng.random() < 0.6:      # signed: some cells really absent
        bc = [lo if rng.random() < 0.3 else h for h in bc]
    return sides, bc, 'user', False


def _elem(rng, ndim, dtype='uint8'):
    """(bshape, 0/1 entries, label, usenone) of a regular element, or a user-supplied one (label 'user')"""
    import mahotas as mh
    if rng.random() < 0.2:
        return _user_elem(rng, ndim, dtype)
    r = rng.random()
    if r < 0.35:
        A = np.zeros((3,) * ndim, np.uint8)
        arg = rng.choice([None, 1, 4, 8] if ndim == 2 else [None, 1, 2, 3][:ndim + 1])
        Bc = mh.get_structuring_elem(A, arg)
        return list(Bc.shape), _ints(Bc), 'cross', (arg is None and rng.random() < 0.5)
    if r < 0.7:
        sides = [rng.choice([1, 3, 3, 5]) for _ in range(ndim)]
        return sides, [1] * int(np.prod(sides)), 'box', False
    rad = rng.choice([1, 1, 2, 3])
    D = np.asarray(mh.disk(rad, ndim))
    return list(D.shape), _ints(D.astype(np.uint8)), 'disk', False


def _clear_image(rng, shape, dtype):
    lo, hi = gen.dt_range(dtype)
    n = int(np.prod(shape))
    span = rng.choice([1, 2, 3, 6, 20])
    base = rng.choice([2, hi - 2 - span, rng.randint(2, hi - 2 - span), rng.randint(2, min(hi - 2 - span, 40))])
    return [base + rng.randint(0, span) for _ in range(n)], base, span


def _clear_image_signed(rng, shape, dtype):
    """signed values in a narrow band (around the minimum, negative, around 0, positive, just below the maximum): the band keeps
    opening/closing non-trivial and both outcomes of the adjunction frequent; the top band stays 5 below hi"""
    lo, hi = gen.dt_range(dtype)
    n = int(np.prod(shape))
    span = rng.choice([1, 2, 3, 6, 20])
    base = rng.choice([lo, lo + 1, -span - 2, -2, 0, hi - 5 - span, rng.randint(lo, hi - 5 - span), rng.randint(-40, 40)])
    return [base + rng.randint(0, span) for _ in range(n)], base, span


def _ops_case(rng):
    import mahotas as mh
    r = rng.random()
    dtype = 'bool' if r < 0.22 else rng.choice(UNSIGNED) if r < 0.72 else rng.choice(['int8', 'int16', 'int32', 'int64'])
    shape = list(gen.small_shape(rng, maxlen=6))
    ndim = len(shape)
    n = int(np.prod(shape))
    bshape, bc, label, usenone = _elem(rng, ndim, dtype)
    lo, hi = gen.dt_range(dtype)
    pair = rng.choice(['le', 'ge', 'unrelated', 'dil', 'dil-1', 'ero', 'ero+1'])
    if dtype == 'bool':
        f = _ints(gen.rand_int_array(rng, shape, 'bool'))
        g = _ints(gen.rand_int_array(rng, shape, 'bool'))
        cl = lambda v: min(1, max(0, v))
    elif dtype in UNSIGNED and rng.random() < 0.75:
        f, base, span = _clear_image(rng, shape, dtype)
        g = [min(hi - 2, max(2, base + rng.randint(-1, span + 1))) for _ in range(n)]
        cl = lambda v: min(hi - 2, max(2, v))
    elif dtype not in UNSIGNED and rng.random() < 0.7:
        f, base, span = _clear_image_signed(rng, shape, dtype)
        g = [min(hi - 5, max(lo, base + rng.randint(-1, span + 1))) for _ in range(n)]
        cl = lambda v: min(hi - 5, max(lo, v))
    else:
        f = _ints(gen.rand_int_array(rng, shape, dtype))
        g = _ints(gen.rand_int_array(rng, shape, dtype))
        cl = lambda v: min(hi, max(lo, v))
    Bc = _arr(bc, dtype, bshape)
    if pair == 'le':
        g = [cl(max(a, b)) for a, b in zip(f, g)]
    elif pair == 'ge':
        g = [cl(min(a, b)) for a, b in zip(f, g)]
    elif pair in ('dil', 'dil-1'):
        g = [cl(v) for v in _ints(mh.dilate(_arr(f, dtype, shape), Bc))]
        if pair == 'dil-1' and dtype != 'bool':
            i = rng.randrange(n); g[i] = cl(g[i] - 1)
        elif pair == 'dil-1':
            i = rng.randrange(n); g[i] = 0
        elif rng.random() < 0.5:
            g = [cl(v + rng.choice([0, 0, 1])) for v in g]
    elif pair in ('ero', 'ero+1'):
        f = [cl(v) for v in _ints(mh.erode(_arr(g, dtype, shape), Bc))]
        if pair == 'ero+1':
            i = rng.randrange(n); f[i] = cl(f[i] + 1)
        elif rng.random() < 0.5:
            f = [cl(v - rng.choice([0, 0, 1])) for v in f]
    case = dict(dtype=dtype, shape=shape, f=f, g=g, bshape=bshape, bc=bc, n=rng.choice([0, 1, 1, 2, 3, 7]),
                layout=rng.choice(gen.LAYOUTS), layoutg=rng.choice(gen.LAYOUTS), elem=label, pair=pair, usenone=usenone)
    if rng.random() < 0.3:     # open/close write into a caller buffer with arbitrary old contents
        bv = gen.boundary_values(dtype)
        case['outbuf'] = [rng.choice(bv) if rng.random() < 0.5 else rng.randint(lo, hi) for _ in range(rng.choice([1, 3, 8]))]
    if rng.random() < 0.3:     # top-hats written over their own input
        case['alias'] = True
    return case


def _subm_rand(rng, dtype, n):
    lo, hi = gen.dt_range(dtype)
    bv = gen.boundary_values(dtype, heights=(0, 1, 2, 3, 127, 128, 255, 256))
    def one():
        u = rng.random()
        if u < 0.55:
            return rng.choice(bv)
        if u < 0.75:
            return rng.randint(max(lo, -300), min(hi, 300))
        return rng.randint(lo, hi)
    a, b = [], []
    for _ in range(n):
        x = one()
        u = rng.random()
        y = one() if u < 0.6 else max(lo, min(hi, x + rng.choice([-2, -1, 0, 1, 2]))) if u < 0.8 else max(lo, min(hi, x - rng.choice([lo, hi])))
        a.append(x); b.append(y)
    return a, b


def _threshold_cases(rng, tier):
    """SIZE-THRESHOLD stream: open/close/top-hats/conditional operators on 65537-element and 257 x 256 images and subm on
    65537-element arrays (element count / row length crossing 2^8, 2^15, 2^16), cross and 3x3 box, with and without out=;
    judged by the Lean driver like the small cases (it handles 65k pixels in under a second)."""
    import mahotas as mh
    plans = [('uint8', [65537], 'cross'), ('bool', [257, 256], 'box'), ('int16', [1, 65537], 'cross'), ('uint16', [256, 257], 'box'),
             ('bool', [65537], 'cross'), ('uint8', [32769, 2], 'box')]
    if tier == 'quick':
        plans = rng.sample(plans, 2)
    out = []
    for dtype, shape, el in plans:
        lo, hi = gen.dt_range(dtype)
        n = int(np.prod(shape))
        nd = len(shape)
        if dtype == 'bool':
            f = [1 if rng.random() < 0.6 else 0 for _ in range(n)]
            g = [1 if rng.random() < 0.6 else 0 for _ in range(n)]
        else:
            base = rng.randint(max(lo, -50) + 2, 60)
            f = [base + rng.randint(0, 9) for _ in range(n)]
            g = [base + rng.randint(0, 9) for _ in range(n)]
        if el == 'cross':
            Bc = mh.get_structuring_elem(np.zeros((3,) * nd, np.uint8), None)
            bshape, bc = list(Bc.shape), _ints(Bc)
        else:
            bshape, bc = [3] * nd, [1] * 3 ** nd
        case = dict(dtype=dtype, shape=shape, f=f, g=g, bshape=bshape, bc=bc, n=2, layout=rng.choice(['C', 'F', 'strided']),
                    layoutg='C', elem=('cross' if el == 'cross' else 'box'), pair='unrelated', usenone=(el == 'cross'), size='threshold')
        if rng.random() < 0.5:
            case['outbuf'] = [rng.randint(lo, hi) for _ in range(8)]
        if rng.random() < 0.5:
            case['alias'] = True
        out.append(case)
    for dtype in (['uint8', 'int16'] if tier == 'quick' else ['uint8', 'int16', 'uint16', 'int8', 'uint64']):
        a, b = _subm_rand(rng, dtype, 65537)
        out.append(dict(block='subm-rand', dtype=dtype, a=a, b=b, layout='C', outmode=rng.choice(['none', 'alias-a', 'fresh-dirty']),
                        size='threshold'))
    return out


def cases(rng, tier):
    out = list(_corpus()) if tier != 'search' else []
    nops = dict(quick=1800, thorough=40000, search=8000)[tier]
    nsub = dict(quick=10000, thorough=100000, search=20000)[tier]
    if tier != 'search':
        for dtype in ('int8', 'uint8'):
            lo, hi = gen.dt_range(dtype)
            vals = list(range(lo, hi + 1))
            for k in range(0, 256, 16):
                out.append(dict(block='subm-exh', dtype=dtype, **{'as': vals[k:k + 16]}))
                # every pair once more with `out=` (in place on a, a dirty separate buffer, in place on b in turn)
                out.append(dict(block='subm-exh', dtype=dtype, outmode=('alias-a', 'fresh-dirty', 'alias-a', 'alias-b')[(k // 16) % 4],
                                **{'as': vals[k:k + 16]}))
    for dtype in ['bool', 'uint16', 'uint32', 'uint64', 'int16', 'int32', 'int64', 'uint8', 'int8']:
        per = 2500
        total = nsub if dtype not in ('uint8', 'int8', 'bool') else nsub // 10
        for k in range(0, total, per):
            a, b = _subm_rand(rng, dtype, min(per, total - k))
            out.append(dict(block='subm-rand', dtype=dtype, a=a, b=b, layout=rng.choice(['C', 'strided', 'negstride', 'offset', 'readonly']),
                            outmode=rng.choice(['none', 'none', 'alias-a', 'alias-a', 'fresh-dirty', 'alias-b'])))
    for _ in range(nops):
        out.append(_ops_case(rng))
    out.extend(_threshold_cases(rng, tier))
    return out


def _shrink_big(case, keys):
    """size-threshold cases: no one-slice-at-a-time deletion (65k evaluations of a 65k-pixel case); cut the longest axis to the
    powers of two the stream is about, then halve"""
    shape = list(case['shape'])
    ax = max(range(len(shape)), key=lambda i: shape[i])
    rest = int(np.prod(shape)) // shape[ax]
    for m in (65536 // rest, 32768 // rest, 256, shape[ax] // 2):
        if 1 <= m < shape[ax]:
            new = list(shape); new[ax] = m
            c = dict(case, shape=new)
            for k in keys:
                A = np.array(case[k], dtype=object).reshape(shape)
                c[k] = [int(x) for x in np.take(A, range(m), axis=ax).ravel().tolist()]
            if int(np.prod(new)) < 4096:
                c.pop('size', None)      # small enough for the ordinary shrinker
            yield c


def shrink(case):
    if 'block' in case:
        return
    if case.get('size') == 'threshold':
        for k in ('alias', 'outbuf'):
            if case.get(k):
                yield {kk: v for kk, v in case.items() if kk != k}
        yield from _shrink_big(case, ('f', 'g'))
        return
    shape = case['shape']
    F = np.array(case['f'], dtype=object).reshape(shape)
    G = np.array(case['g'], dtype=object).reshape(shape)
    for ax in range(len(shape)):
        if shape[ax] > 1:
            for j in (shape[ax] - 1, 0):
                f2, g2 = np.delete(F, j, axis=ax), np.delete(G, j, axis=ax)
                yield dict(case, shape=list(f2.shape), f=_ints(f2), g=_ints(g2))
    for key in ('layout', 'layoutg'):
        if case.get(key, 'C') != 'C':
            yield dict(case, **{key: 'C'})
    if case['n'] > 1:
        yield dict(case, n=1)
    if case.get('usenone'):
        yield dict(case, usenone=False)
    if case.get('alias'):
        yield {k: v for k, v in case.items() if k != 'alias'}
    if case.get('outbuf'):
        yield {k: v for k, v in case.items() if k != 'outbuf'}
        if any(v != 0 for v in case['outbuf']) and case['dtype'] != 'bool':
            yield dict(case, outbuf=[7])
    if case['dtype'] != 'bool':
        m = min(case['f'] + case['g'])
        if m > 2:   # translate the values down (keeps them clear of the limits)
            yield dict(case, f=[v - (m - 2) for v in case['f']], g=[v - (m - 2) for v in case['g']])
