"""C02 — opening, closing, conditional and top-hat operators obey the lattice laws."""
from __future__ import annotations
import json
import numpy as np
from .. import core, gen

ID = 'C02'
FOUNDATIONS = ['harness.foundation.cscalar']   # ties of the C++ helper functions the model rests on (generated from their text)
LEVEL = 'proof'
RULE = ('corpus; subm: all 65536 pairs of int8 and of uint8 values (both tiers) and boundary-dense random pairs of the '
        'wider dtypes and bool; operators: random 1-3 D images x {bool, uint8, uint16, uint32, uint64} (plus some signed '
        'dtypes, model comparison only) x 7 layouts x {cross, boxes of odd sides <= 5, disks r=1..3} x pairs (f,g) with '
        'f<=g, f>=g, unrelated, g ~ dilate(f), f ~ erode(g); about 70 % of the unsigned images are clear of the saturation '
        'limits by construction. Laws are evaluated on the real outputs; every real output is also compared with the Lean '
        'model. Non-trivial = open(f) != f or close(f) != f; distinct = distinct protocol line + layouts.')
ASSUMPTIONS = ['laws are judged for bool images and for unsigned images whose values lie in [lo+2H, hi-2H] (H = largest '
               'height of the element = 1 for the regular elements): "clear of the saturation limits" for two composed operators',
               'regular structuring elements only: centred cross (get_structuring_elem), boxes of odd sides up to 5, disks of radius 1-3',
               'cdilate/cerode bounds and top-hat = clamp(difference) are judged for every bool/unsigned input, clear or not',
               'signed dtypes: only model = implementation is compared (the statement speaks of bool and unsigned images)',
               'f and g have the same dtype and shape; array sizes < 2^31']
EXHAUSTIVE = {'thorough': True, 'quick': True}
TRUSTED = ['numpy (array construction, layout views, elementwise comparisons of the real outputs)']
UNSIGNED = ['uint8', 'uint16', 'uint32', 'uint64']
OPS = ['erode', 'dilate', 'open', 'close', 'cerode', 'cdilate', 'thopen', 'thclose']


def _arr(vals, dtype, shape):
    return np.array(vals, dtype=object).astype(dtype).reshape(shape)


def _line(case):
    return (f"c02 kind=ops dt={gen.DT_NAME[case['dtype']]} shape={gen.enc_shape(case['shape'])} f={gen.enc_arr(case['f'])} "
            f"g={gen.enc_arr(case['g'])} bshape={gen.enc_shape(case['bshape'])} bc={gen.enc_arr(case['bc'])} n={case['n']}")


def _ints(a):
    return [int(x) for x in np.asarray(a).ravel(order='C').tolist()]


def _O(a):
    """exact integers (uint64 arithmetic must not wrap or go through float)"""
    return np.asarray(a).astype(object) if np.asarray(a).dtype != np.bool_ else np.asarray(a).astype(int).astype(object)


def _le(a, b):
    return bool(np.all(_O(a) <= _O(b)))


def _real(case, F, G, Bc):
    import mahotas as mh
    out = {}
    out['erode'] = mh.erode(F, Bc)
    out['dilate'] = mh.dilate(F, Bc)
    out['open'] = mh.open(F, Bc)
    out['close'] = mh.close(F, Bc)
    out['cerode'] = mh.cerode(F, G, Bc)
    out['cdilate'] = mh.cdilate(F, G, Bc, case['n'])
    out['thopen'] = mh.morph.tophat_open(F, Bc)
    out['thclose'] = mh.morph.tophat_close(F, Bc)
    return out


def _eval_ops(cases):
    import mahotas as mh
    res = []
    lines = [_line(c) for c in cases]
    drvs = core.drive(lines)
    for case, drv, line in zip(cases, drvs, lines):
        if 'error' in drv:
            raise core.Infra('driver: ' + drv['error'])
        dtype = case['dtype']
        f0 = _arr(case['f'], dtype, case['shape'])
        g0 = _arr(case['g'], dtype, case['shape'])
        F = gen.relayout(f0, case.get('layout', 'C'))
        G = gen.relayout(g0, case.get('layoutg', 'C'))
        Fb, Gb = F.copy(), G.copy()
        Bc = None if case.get('usenone') else _arr(case['bc'], dtype, case['bshape'])
        R = _real(case, F, G, Bc)
        fnd = []
        for op in OPS:
            if _ints(R[op]) != core.ints(drv[op]):
                fnd.append(dict(kind='model', key=f'{op}-model', detail=dict(got=_ints(R[op]), model=core.ints(drv[op]))))
            if R[op].dtype != F.dtype or R[op].shape != F.shape:
                fnd.append(dict(kind='property', key=f'{op}:dtype-shape', detail=dict(dtype=str(R[op].dtype))))
        lawful = dtype == 'bool' or dtype in UNSIGNED
        clearf, clearg = drv['clearf'] == '1', drv['clearg'] == '1'

        def bad(key, **detail):
            fnd.append(dict(kind='property', key=key, detail=detail))
        if lawful:
            lo, hi = gen.dt_range(dtype)
            # conditional operators and top-hats: for every input
            mn, mx = np.minimum(f0, g0), np.maximum(f0, g0)
            if not (_le(mn, R['cdilate']) and _le(R['cdilate'], g0)):
                bad('cdilate:bounds', got=_ints(R['cdilate']))
            if not (_le(g0, R['cerode']) and _le(R['cerode'], mx)):
                bad('cerode:bounds', got=_ints(R['cerode']))
            d1 = np.clip(_O(f0) - _O(R['open']), lo, hi)
            d2 = np.clip(_O(R['close']) - _O(f0), lo, hi)
            if not np.array_equal(_O(R['thopen']), d1):
                bad('tophat_open:def', got=_ints(R['thopen']), expected=_ints(d1))
            if not np.array_equal(_O(R['thclose']), d2):
                bad('tophat_close:def', got=_ints(R['thclose']), expected=_ints(d2))
        if lawful and clearf:
            if not _le(R['open'], f0):
                bad('open:anti-extensive', open=_ints(R['open']))
            if not _le(f0, R['close']):
                bad('close:extensive', close=_ints(R['close']))
            oo = mh.open(R['open'], Bc)
            cc = mh.close(R['close'], Bc)
            if not np.array_equal(oo, R['open']):
                bad('open:idempotent', once=_ints(R['open']), twice=_ints(oo))
            if not np.array_equal(cc, R['close']):
                bad('close:idempotent', once=_ints(R['close']), twice=_ints(cc))
            if not np.array_equal(_O(R['thopen']), _O(f0) - _O(R['open'])):
                bad('tophat_open:exact', got=_ints(R['thopen']))
            if not np.array_equal(_O(R['thclose']), _O(R['close']) - _O(f0)):
                bad('tophat_close:exact', got=_ints(R['thclose']))
            if dtype == 'bool' and drv['symstar'] == '1':   # hypothesis SymStar of C02_bool_duality, decided by the Lean model
                dual = ~mh.erode(~F, Bc)
                if not np.array_equal(dual, R['dilate']):
                    bad('bool-duality', dilate=_ints(R['dilate']), dual=_ints(dual))
        if lawful and clearf and clearg:
            # increasing: min(f,g) <= g
            m = np.minimum(f0, g0)
            M = gen.relayout(m, case.get('layout', 'C'))
            if not _le(mh.open(M, Bc), mh.open(G, Bc)):
                bad('open:increasing')
            if not _le(mh.close(M, Bc), mh.close(G, Bc)):
                bad('close:increasing')
            lhs = _le(R['dilate'], g0)
            rhs = _le(f0, mh.erode(G, Bc))
            if lhs != rhs:
                bad('adjunction', dilate_le_g=lhs, f_le_erode=rhs)
            tag_adj = 'both' if lhs else 'neither'
        else:
            tag_adj = 'n/a'
        if not (np.array_equal(Fb, F) and np.array_equal(Gb, G)):
            bad('input-modified')
        res.append(dict(findings=fnd,
                        nontrivial=bool(not np.array_equal(R['open'], f0) or not np.array_equal(R['close'], f0)),
                        sig=line + case.get('layout', 'C') + case.get('layoutg', 'C'),
                        tags=dict(kind='ops', dtype=dtype, ndim=len(case['shape']), layout=case.get('layout', 'C'),
                                  elem=case.get('elem', '?'), pair=case.get('pair', '?'), symstar=drv['symstar'],
                                  domain=('clear' if (clearf and clearg) else 'f-clear' if clearf else 'saturating') if lawful else 'signed',
                                  adjunction=tag_adj)))
    return res


def _subm_pairs(case):
    dtype = case['dtype']
    if case['block'] == 'subm-exh':
        lo, hi = gen.dt_range(dtype)
        a = case['a']
        return [a] * (hi - lo + 1), list(range(lo, hi + 1))
    return case['a'], case['b']


def _eval_subm(case):
    import mahotas as mh
    dtype = case['dtype']
    alla, allb = [], []
    if case['block'] == 'subm-exh':
        for a in case['as']:
            x, y = _subm_pairs(dict(case, a=a))
            alla += x; allb += y
    else:
        alla, allb = case['a'], case['b']
    A = _arr(alla, dtype, (len(alla),))
    B = _arr(allb, dtype, (len(allb),))
    layout = case.get('layout', 'C')
    Al, Bl = gen.relayout(A, layout), gen.relayout(B, layout)
    Bb = Bl.copy()
    got = _ints(mh.morph.subm(Al, Bl))
    drv = core.drive([f"c02 kind=subm dt={gen.DT_NAME[dtype]} a={gen.enc_arr(alla)} b={gen.enc_arr(allb)}"])[0]
    model, spec = core.ints(drv['model']), core.ints(drv['spec'])
    fnd = []
    bad = [i for i, (x, y) in enumerate(zip(got, spec)) if x != y]
    if bad:
        i = bad[0]
        fnd.append(dict(kind='property', key=f'subm:{dtype}', detail=dict(a=alla[i], b=allb[i], got=got[i], spec=spec[i], n=len(bad)),
                        case=dict(block='subm-rand', dtype=dtype, a=[alla[i]], b=[allb[i]], layout=layout)))
    badm = [i for i, (x, y) in enumerate(zip(got, model)) if x != y]
    if badm and not bad:
        i = badm[0]
        fnd.append(dict(kind='model', key=f'subm-model:{dtype}', detail=dict(a=alla[i], b=allb[i], got=got[i], model=model[i])))
    if not np.array_equal(Bb, Bl):
        fnd.append(dict(kind='property', key='subm:second-argument-modified', detail={}))
    lo, hi = gen.dt_range(dtype)
    sat = sum(1 for x, y in zip(alla, allb) if not (lo <= x - y <= hi))
    return dict(findings=fnd, n=len(alla), nontrivial_n=sat, nontrivial=False, sig=None,
                tags=dict(kind=case['block'], dtype=dtype, layout=layout))


def evaluate(cases):
    out = []
    singles = [c for c in cases if 'block' not in c]
    sres = iter(_eval_ops(singles))
    for c in cases:
        out.append(_eval_subm(c) if 'block' in c else next(sres))
    return out


def _corpus():
    d = core.VERIF / 'corpus' / ID
    out = []
    if d.exists():
        for p in sorted(d.glob('*.json')):
            out.append(json.loads(p.read_text())['case'])
    return out


# ---------------------------------------------------------------------------------------------- generators

def _elem(rng, ndim):
    """(bshape, 0/1 entries, label, usenone) of a regular element"""
    import mahotas as mh
    r = rng.random()
    if r < 0.35:
        A = np.zeros((3,) * ndim, np.uint8)
        arg = rng.choice([None, 1, 4, 8] if ndim == 2 else [None, 1, 2, 3][:ndim + 1])
        Bc = mh.get_structuring_elem(A, arg)
        return list(Bc.shape), _ints(Bc), 'cross', (arg is None and rng.random() < 0.5)
    if r < 0.7:
        sides = [rng.choice([1, 3, 3, 5]) for _ in range(ndim)]
        return sides, [1] * int(np.prod(sides)), 'box', False
    rad = rng.choice([1, 1, 2, 3])
    D = np.asarray(mh.disk(rad, ndim))
    return list(D.shape), _ints(D.astype(np.uint8)), 'disk', False


def _clear_image(rng, shape, dtype):
    lo, hi = gen.dt_range(dtype)
    n = int(np.prod(shape))
    span = rng.choice([1, 2, 3, 6, 20])
    base = rng.choice([2, hi - 2 - span, rng.randint(2, hi - 2 - span), rng.randint(2, min(hi - 2 - span, 40))])
    return [base + rng.randint(0, span) for _ in range(n)], base, span


def _ops_case(rng):
    import mahotas as mh
    r = rng.random()
    dtype = 'bool' if r < 0.25 else rng.choice(UNSIGNED) if r < 0.9 else rng.choice(['int8', 'int16', 'int32', 'int64'])
    shape = list(gen.small_shape(rng, maxlen=6))
    ndim = len(shape)
    n = int(np.prod(shape))
    bshape, bc, label, usenone = _elem(rng, ndim)
    lo, hi = gen.dt_range(dtype)
    pair = rng.choice(['le', 'ge', 'unrelated', 'dil', 'dil-1', 'ero', 'ero+1'])
    if dtype == 'bool':
        f = _ints(gen.rand_int_array(rng, shape, 'bool'))
        g = _ints(gen.rand_int_array(rng, shape, 'bool'))
        cl = lambda v: min(1, max(0, v))
    elif dtype in UNSIGNED and rng.random() < 0.75:
        f, base, span = _clear_image(rng, shape, dtype)
        g = [min(hi - 2, max(2, base + rng.randint(-1, span + 1))) for _ in range(n)]
        cl = lambda v: min(hi - 2, max(2, v))
    else:
        f = _ints(gen.rand_int_array(rng, shape, dtype))
        g = _ints(gen.rand_int_array(rng, shape, dtype))
        cl = lambda v: min(hi, max(lo, v))
    Bc = _arr(bc, dtype, bshape)
    if pair == 'le':
        g = [cl(max(a, b)) for a, b in zip(f, g)]
    elif pair == 'ge':
        g = [cl(min(a, b)) for a, b in zip(f, g)]
    elif pair in ('dil', 'dil-1'):
        g = [cl(v) for v in _ints(mh.dilate(_arr(f, dtype, shape), Bc))]
        if pair == 'dil-1' and dtype != 'bool':
            i = rng.randrange(n); g[i] = cl(g[i] - 1)
        elif pair == 'dil-1':
            i = rng.randrange(n); g[i] = 0
        elif rng.random() < 0.5:
            g = [cl(v + rng.choice([0, 0, 1])) for v in g]
    elif pair in ('ero', 'ero+1'):
        f = [cl(v) for v in _ints(mh.erode(_arr(g, dtype, shape), Bc))]
        if pair == 'ero+1':
            i = rng.randrange(n); f[i] = cl(f[i] + 1)
        elif rng.random() < 0.5:
            f = [cl(v - rng.choice([0, 0, 1])) for v in f]
    return dict(dtype=dtype, shape=shape, f=f, g=g, bshape=bshape, bc=bc, n=rng.choice([0, 1, 1, 2, 3, 7]),
                layout=rng.choice(gen.LAYOUTS), layoutg=rng.choice(gen.LAYOUTS), elem=label, pair=pair, usenone=usenone)


def _subm_rand(rng, dtype, n):
    lo, hi = gen.dt_range(dtype)
    bv = gen.boundary_values(dtype, heights=(0, 1, 2, 3, 127, 128, 255, 256))
    def one():
        u = rng.random()
        if u < 0.55:
            return rng.choice(bv)
        if u < 0.75:
            return rng.randint(max(lo, -300), min(hi, 300))
        return rng.randint(lo, hi)
    a, b = [], []
    for _ in range(n):
        x = one()
        u = rng.random()
        y = one() if u < 0.6 else max(lo, min(hi, x + rng.choice([-2, -1, 0, 1, 2]))) if u < 0.8 else max(lo, min(hi, x - rng.choice([lo, hi])))
        a.append(x); b.append(y)
    return a, b


def cases(rng, tier):
    out = list(_corpus()) if tier != 'search' else []
    nops = dict(quick=1800, thorough=40000, search=8000)[tier]
    nsub = dict(quick=10000, thorough=100000, search=20000)[tier]
    if tier != 'search':
        for dtype in ('int8', 'uint8'):
            lo, hi = gen.dt_range(dtype)
            vals = list(range(lo, hi + 1))
            for k in range(0, 256, 16):
                out.append(dict(block='subm-exh', dtype=dtype, **{'as': vals[k:k + 16]}))
    for dtype in ['bool', 'uint16', 'uint32', 'uint64', 'int16', 'int32', 'int64', 'uint8', 'int8']:
        per = 2500
        total = nsub if dtype not in ('uint8', 'int8', 'bool') else nsub // 10
        for k in range(0, total, per):
            a, b = _subm_rand(rng, dtype, min(per, total - k))
            out.append(dict(block='subm-rand', dtype=dtype, a=a, b=b, layout=rng.choice(['C', 'strided', 'negstride', 'offset', 'readonly'])))
    for _ in range(nops):
        out.append(_ops_case(rng))
    return out


def shrink(case):
    if 'block' in case:
        return
    shape = case['shape']
    F = np.array(case['f'], dtype=object).reshape(shape)
    G = np.array(case['g'], dtype=object).reshape(shape)
    for ax in range(len(shape)):
        if shape[ax] > 1:
            for j in (shape[ax] - 1, 0):
                f2, g2 = np.delete(F, j, axis=ax), np.delete(G, j, axis=ax)
                yield dict(case, shape=list(f2.shape), f=_ints(f2), g=_ints(g2))
    for key in ('layout', 'layoutg'):
        if case.get(key, 'C') != 'C':
            yield dict(case, **{key: 'C'})
    if case['n'] > 1:
        yield dict(case, n=1)
    if case.get('usenone'):
        yield dict(case, usenone=False)
    if case['dtype'] != 'bool':
        m = min(case['f'] + case['g'])
        if m > 2:   # translate the values down (keeps them clear of the limits)
            yield dict(case, f=[v - (m - 2) for v in case['f']], g=[v - (m - 2) for v in case['g']])
