"""C03 — label() returns exactly the connected components, numbered 1..n in scan order."""
from __future__ import annotations
import json
import numpy as np
from .. import core, gen

ID = 'C03'
FOUNDATIONS = ['harness.foundation.cscalar']   # ties of the C++ helper functions the model rests on (generated from their text)
LEVEL = 'proof'
RULE = ('corpus; exhaustive scope: all 65536 boolean 4x4 images x {4,8}-neighbourhoods, all boolean images of the '
        'smaller shapes up to 4x4, all 512 3x3 elements x all boolean images up to 3x3 (thorough in full, quick a '
        'seeded slice, as block cases); random 1-3 D arrays x bool/int/float dtypes (both signs, -0.0) x 7 layouts x '
        'elements None/4/8/6/box/arbitrary 3^d/other odd and even shapes/larger than the image/empty, with and '
        'without an int32 out= buffer. Labels are compared exactly with the Lean specification (no canonicalisation). '
        'Size-threshold stream: images whose number of components, component size or row length crosses 2^15 / 2^16 '
        '(two-pixel dominoes on 600x700: 70 200 components; checkerboard 363x363 with the cross: 65 885), judged with an exact Python union-find oracle whose '
        'agreement with the Lean specification is checked on every small random case of the run. '
        '2 % of the random images have a zero-length axis. Non-trivial = at least two foreground pixels and one background pixel or >= 2 components; '
        'distinct = distinct (shape, binarised data, element).')
ASSUMPTIONS = ['no NaN pixels (NaN != 0 is true in numpy, nothing else is assumed about it)',
               'the offsets of an element are k - shape//2 (the library-wide centre convention), also for even sizes',
               'array sizes < 2^31 (the kernel indexes with int)',
               'out= buffers are C-contiguous int32 arrays of the input shape (anything else is rejected by the wrapper)']
EXHAUSTIVE = {'thorough': True}
TRUSTED = ['numpy (array construction, layout views, `array != 0`)']

FLOATS = ['float32', 'float64']
DTYPES = gen.INT_DTYPES + FLOATS


def _mk(case):
    dt = case.get('dtype', 'bool')
    A = np.array(case['data'], dtype=object if dt not in FLOATS else np.float64).astype(dt).reshape(case['shape'])
    return A


def _bc_arg(case):
    """the Bc argument handed to mahotas, and the element as (bshape, flat 0/1 list) for the model"""
    bc = case['bc']
    if isinstance(bc, dict):            # explicit element
        Bc = np.array(bc['v'], dtype=bc.get('dtype', 'bool')).reshape(bc['shape'])
        return Bc, list(bc['shape']), [int(x != 0) for x in Bc.ravel().tolist()]
    # None or an integer connectivity: resolved by the wrapper; the model gets the documented meaning
    nd = len(case['shape'])
    r = {None: 1, (2, 4): 1, (2, 8): 2, (3, 6): 1}.get(bc if bc is None else (nd, bc), bc)
    el = [1 if sum(abs(x - 1) for x in np.unravel_index(i, (3,) * nd)) <= r else 0 for i in range(3 ** nd)]
    return bc, [3] * nd, el


def _oracle(shape, bits, bshape, el):
    """exact O(N * |Bc|) oracle for the size-threshold stream (the Lean driver works on lists: too slow beyond ~10^4
    pixels): union-find over the pairs (p, p + k) of non-zero pixels inside the image, k an offset `j - bshape//2` of a
    non-zero entry of the element; labels = order of first appearance of the component in C scan order. Its agreement
    with the Lean specification is established on every small random case of the run (Infra error on disagreement)."""
    shape = tuple(shape)
    A = np.asarray(bits, bool).reshape(shape)
    N = A.size
    idx = np.arange(N).reshape(shape)
    parent = np.arange(N)

    def find(i):
        while parent[i] != i:
            parent[i] = parent[parent[i]]            # path halving
            i = parent[i]
        return i
    for j in np.ndindex(*bshape):
        if not el[int(np.ravel_multi_index(j, bshape))]:
            continue
        k = [a - b // 2 for a, b in zip(j, bshape)]
        if any(abs(o) >= d for o, d in zip(k, shape)):
            continue
        src = tuple(slice(max(0, -o), d - max(0, o)) for o, d in zip(k, shape))
        dst = tuple(slice(max(0, o), d + min(0, o)) for o, d in zip(k, shape))
        m = A[src] & A[dst]
        for a, b in zip(idx[src][m].tolist(), idx[dst][m].tolist()):
            ra, rb = find(a), find(b)
            if ra != rb:
                parent[ra] = rb
    while True:                                      # all roots at once (pointer jumping)
        pp = parent[parent]
        if np.array_equal(pp, parent):
            break
        parent = pp
    fg = np.nonzero(A.ravel())[0]
    lab = np.zeros(N, np.int64)
    if not fg.size:
        return lab, 0
    u, first, inv = np.unique(parent[fg], return_index=True, return_inverse=True)
    order = np.argsort(np.argsort(first))                # rank of each root by first appearance in scan order
    lab[fg] = order[inv] + 1
    return lab, int(u.size)


def _big_image(c):
    """the images of the size-threshold stream, generated from a few parameters (not stored in the case)"""
    h, w = c['shape']
    if c['big'] == 'checker':                  # every other pixel: with the cross, (h*w+1)//2 one-pixel components
        A = (np.add.outer(np.arange(h), np.arange(w)) % 2 == 0)
    elif c['big'] == 'solid':                  # one component of h*w - (holes) pixels
        A = np.ones((h, w), bool)
        A[c.get('hole', 0) % h, c.get('hole', 0) % w] = False
    elif c['big'] == 'dominoes':               # two-pixel components `11 0 11 0 …` on every other row: the SECOND pixel of a
        A = np.zeros((h, w), bool)             # component gets its label from the first-seen map, not from the counter
        A[::2, 0::3] = True
        A[::2, 1::3] = True
    else:                                      # 'rows': every other row is one long component
        A = np.zeros((h, w), bool)
        A[::2] = True
    return A


def _eval_big(c):
    import mahotas as mh
    A = _big_image(c).astype(c.get('dtype', 'bool'))
    Bc, bshape, el = _bc_arg(c)
    want, nwant = _oracle(c['shape'], A != 0, bshape, el)
    lab, n = mh.label(A, Bc)
    got = np.asarray(lab).ravel()
    f = []
    if got.shape != want.shape or not np.array_equal(got, want) or int(n) != nwant:
        bad = np.nonzero(got != want)[0][:5].tolist() if got.shape == want.shape else []
        f.append(dict(kind='property', key='label:size-threshold', detail=dict(n=int(n), nspec=nwant, first_bad=bad,
                                                                             got=got[bad].tolist(), spec=want[bad].tolist())))
    return dict(findings=f, nontrivial=True, sig=('big', c['big'], tuple(c['shape']), str(c['bc'])),
                tags=dict(dtype=c.get('dtype', 'bool'), ndim=2, layout='C', out=False, elem='int', size='threshold',
                          ncomp=min(int(n), 5)))


def _line(shape, bits, bshape, el, mode='constant'):
    return (f"c03 kind=label mode={mode} shape={gen.enc_shape(shape)} data={gen.enc_arr(bits)} "
            f"bshape={gen.enc_shape(bshape)} bc={gen.enc_arr(el)}")


def _judge(got, n, drv):
    """got: flat labels (C order), n: returned count"""
    spec, nspec = core.ints(drv['spec']), int(drv['nspec'])
    model, nmodel = core.ints(drv['model']), int(drv['nmodel'])
    out = []
    if got != spec or n != nspec:
        zero_ok = all((a == 0) == (b == 0) for a, b in zip(got, spec))
        part_ok = zero_ok and len(set(zip(got, spec))) == len(set(got)) == len(set(spec))
        key = 'label:components' if not part_ok else 'label:numbering' if got != spec else 'label:count'
        out.append(dict(kind='property', key=key, detail=dict(got=got, n=n, spec=spec, nspec=nspec)))
    if got != model or n != nmodel:
        out.append(dict(kind='model', key='label-model', detail=dict(got=got, n=n, model=model, nmodel=nmodel)))
    if 'addr' in drv:
        # round 4: the address-level model (flat deltas into the int32 buffer; C03_addr_model_eq_coord) against the real output
        addr, naddr = core.ints(drv['addr']), int(drv['naddr'])
        if (got != addr or n != naddr) and not out:
            out.append(dict(kind='model', key='label-addr-model', detail=dict(got=got, n=n, addr=addr, naddr=naddr)))
        if drv.get('oob', '0') != '0':
            raise core.Infra('C03 driver: the address-level scan reads outside the buffer (refuted by C03_addr_reads_in_bounds): ' + str(drv)[:200])
    return out


def _eval_single(cases):
    import mahotas as mh
    bigs = {id(c): _eval_big(c) for c in cases if 'big' in c}
    allc, cases = cases, [c for c in cases if 'big' not in c]
    small = iter(_eval_small(cases))
    return [bigs[id(c)] if 'big' in c else next(small) for c in allc]


def _eval_small(cases):
    import mahotas as mh
    pre = []
    for c in cases:
        A = _mk(c)
        Bc, bshape, el = _bc_arg(c)
        bits = [int(v != 0) for v in A.ravel().tolist()]
        pre.append((A, Bc, bshape, el, bits))
    drvs = core.drive([_line(c['shape'], p[4], p[2], p[3]) for c, p in zip(cases, pre)])
    res = []
    for c, (A, Bc, bshape, el, bits), drv in zip(cases, pre, drvs):
        Al = gen.relayout(A, c.get('layout', 'C'))
        before = Al.copy()
        f = []
        if c.get('out'):
            # a dirty caller buffer: union-find sentinels (-1), valid-looking parents, int32 extremes
            out = np.resize(np.array([7, -1, 0, 2 ** 31 - 1, 1, -2 ** 31, 3], np.int32), A.shape).astype(np.int32)
            lab, n = mh.label(Al, Bc, out=out)
            if lab is not out:
                f.append(dict(kind='model', key='label:out-not-returned', detail={}))
        else:
            lab, n = mh.label(Al, Bc)
        if lab.dtype != np.int32 or lab.shape != A.shape:
            f.append(dict(kind='model', key='label:result-type', detail=dict(dtype=str(lab.dtype), shape=lab.shape)))
        got = [int(x) for x in lab.ravel(order='C').tolist()]
        f += _judge(got, int(n), drv)
        if len(bshape) == len(c['shape']) and A.size:
            # the Python oracle of the size-threshold stream must agree with the Lean specification on the small cases
            o = _oracle(c['shape'], bits, bshape, el)
            if (o[0].tolist(), o[1]) != (core.ints(drv['spec']), int(drv['nspec'])):
                raise core.Infra('C03: the Python oracle of the size-threshold stream disagrees with the Lean spec on ' + str(c)[:300])
        if not np.array_equal(before, Al, equal_nan=False) and not (before != before).any():
            f.append(dict(kind='property', key='label:input-modified', detail={}))
        nfg = sum(bits)
        res.append(dict(findings=f, nontrivial=bool((nfg >= 2 and nfg < len(bits)) or n >= 2),
                        sig=(tuple(c['shape']), tuple(bits), tuple(bshape), tuple(el)),
                        tags=dict(dtype=c.get('dtype', 'bool'), ndim=len(c['shape']), layout=c.get('layout', 'C'),
                                  out=bool(c.get('out')), elem=c.get('etag', 'explicit'),
                                  ncomp=min(int(n), 5))))
    return res


def _eval_block(case):
    """exhaustive block: boolean images `imgs` (bit patterns; None = all) of `shape` against each element of
    `elems` (an int connectivity, or the bit pattern of a 3x3 element)"""
    import mahotas as mh
    shape = case['shape']
    npx = int(np.prod(shape))
    imgs = range(1 << npx) if case.get('imgs') is None else case['imgs']
    if case.get('range'):
        imgs = range(*case['range'])
    findings, count, nontriv = [], 0, 0
    for e in case['elems']:
        if case['block'] == 'conn':
            sub = dict(shape=shape, bc=e)
        else:
            sub = dict(shape=shape, bc=dict(shape=[3, 3], v=[(e >> k) & 1 for k in range(9)]))
        Bc, bshape, el = _bc_arg(sub)
        datas = [[(ii >> k) & 1 for k in range(npx)] for ii in imgs]
        drvs = core.drive([_line(shape, d, bshape, el) for d in datas])
        for d, drv in zip(datas, drvs):
            A = np.array(d, bool).reshape(shape)
            lab, n = mh.label(A, Bc)
            got = [int(x) for x in lab.ravel().tolist()]
            for x in _judge(got, int(n), drv):
                if len(findings) < 40:
                    x['case'] = dict(sub, dtype='bool', data=d, layout='C')
                    findings.append(x)
            count += 1
            if n >= 2 or (0 < sum(d) < npx and sum(d) >= 2):
                nontriv += 1
    seen, keep = set(), []
    for f in findings:
        if f['key'] not in seen:
            seen.add(f['key'])
            keep.append(f)
    return dict(findings=keep, n=count, nontrivial_n=nontriv, nontrivial=False, sig=None,
                tags=dict(kind='exhaustive-' + case['block'], shape='x'.join(map(str, shape))))


def evaluate(cases):
    singles = [c for c in cases if 'block' not in c]
    sres = iter(_eval_single(singles))
    return [_eval_block(c) if 'block' in c else next(sres) for c in cases]


def _corpus():
    d = core.VERIF / 'corpus' / ID
    return [json.loads(p.read_text())['case'] for p in sorted(d.glob('*.json'))] if d.exists() else []


def _rand_values(rng, dtype, n):
    p = rng.choice([0.15, 0.35, 0.5, 0.65, 0.85])
    out = []
    for _ in range(n):
        if rng.random() >= p:
            out.append(-0.0 if dtype in FLOATS and rng.random() < 0.3 else 0)
        elif dtype == 'bool':
            out.append(1)
        elif dtype in FLOATS:
            out.append(rng.choice([1.0, -1.0, 0.5, -2.5, 1e-30, -1e30, 255.0, 3.0]))
        else:
            lo, hi = gen.dt_range(dtype)
            v = rng.choice([1, 1, 2, hi, lo, rng.randint(lo, hi)])
            out.append(v if v != 0 else 1)
    return out


def _rand_elem(rng, shape):
    nd = len(shape)
    r = rng.random()
    if r < 0.12:
        return None, 'default'
    if r < 0.30:
        c = {1: [1, 2], 2: [4, 8, 1, 2], 3: [6, 1, 2, 3]}[nd]
        return rng.choice(c), 'int'
    if r < 0.40:
        return dict(shape=[3] * nd, v=[1] * 3 ** nd), 'box'
    if r < 0.80:
        p = rng.choice([0.2, 0.4, 0.7])
        return dict(shape=[3] * nd, v=[int(rng.random() < p) for _ in range(3 ** nd)],
                    dtype=rng.choice(['bool', 'int32', 'uint8', 'float64'])), 'arb3'
    if r < 0.84:
        return dict(shape=[3] * nd, v=[0] * 3 ** nd), 'empty'
    if r < 0.93:
        bs = [rng.choice([1, 2, 3, 4, 5]) for _ in range(nd)]
        tag = 'even' if any(b % 2 == 0 for b in bs) else 'odd-other'
    else:
        bs = [max(1, s + rng.choice([0, 1, 2])) for s in shape]   # an element with a zero-length axis is rejected (ValueError)
        tag = 'larger'
    n = int(np.prod(bs))
    p = rng.choice([0.3, 0.6])
    return dict(shape=bs, v=[int(rng.random() < p) for _ in range(n)]), tag


def cases(rng, tier):
    out = list(_corpus()) if tier != 'search' else []
    nrand = dict(quick=2500, thorough=30000, search=10000)[tier]
    small44 = [[1, 1], [1, 2], [2, 1], [1, 3], [3, 1], [1, 4], [4, 1], [2, 2], [2, 3], [3, 2], [2, 4], [4, 2],
               [3, 3], [3, 4], [4, 3]]
    small33 = [[1, 1], [1, 2], [2, 1], [1, 3], [3, 1], [2, 2], [2, 3], [3, 2]]
    if tier == 'thorough':
        for lo in range(0, 65536, 2048):
            out.append(dict(block='conn', shape=[4, 4], elems=[4, 8], range=[lo, lo + 2048]))
        for shp in small44:
            out.append(dict(block='conn', shape=shp, elems=[4, 8]))
        for lo in range(0, 512, 8):
            out.append(dict(block='elem', shape=[3, 3], elems=list(range(lo, lo + 8))))
        for shp in small33:
            for lo in range(0, 512, 128):
                out.append(dict(block='elem', shape=shp, elems=list(range(lo, lo + 128))))
    else:
        k = 3 if tier == 'quick' else 10
        for _ in range(k):
            out.append(dict(block='conn', shape=[4, 4], elems=[4, 8], imgs=sorted(rng.sample(range(65536), 1100))))
        for shp in rng.sample(small44, 5):
            out.append(dict(block='conn', shape=shp, elems=[4, 8]))
        for e in rng.sample(range(512), 26 if tier == 'quick' else 80):
            out.append(dict(block='elem', shape=[3, 3], elems=[e]))
        for shp in rng.sample(small33, 3):
            out.append(dict(block='elem', shape=shp, elems=sorted(rng.sample(range(512), 40))))
    # size-threshold stream: component counts / component sizes / pixel counts crossing 2^15, 2^16 (a label, index or
    # counter narrowed to 16 bits passes every small case); judged with the exact Python oracle `_oracle`
    big = [dict(big='dominoes', shape=[600, 700], bc=4, dtype='bool'),           # 70 200 two-pixel components (> 65 535)
           dict(big='checker', shape=[363, 363], bc=4, dtype='bool'),            # 65 885 components (> 65 535)
           dict(big='checker', shape=[257, 256], bc=rng.choice([4, None]), dtype='uint8'),   # 32 896 components (> 32 767)
           dict(big='solid', shape=[257, 256], bc=rng.choice([4, 8]), hole=rng.randrange(999), dtype='bool'),   # one component of 65 791 pixels
           dict(big='rows', shape=[3, 65537], bc=8, dtype='bool'),                 # rows longer than 2^16
           dict(big='checker', shape=[256, 257], bc=8, dtype='bool')]              # one component, 32 896 pixels, diagonal links only
    if tier == 'thorough':
        big += [dict(big='checker', shape=[4097, 4097], bc=4, dtype='bool'),      # 2^24 + 8193 pixels, 8 392 705 components
                dict(big='dominoes', shape=[1025, 4099], bc=4, dtype='bool')]      # 700 758 two-pixel components
        out += big
    elif tier == 'quick':
        out += [big[0]] + rng.sample(big[1:], 2)
    for _ in range(nrand):
        dtype = rng.choice(DTYPES)
        shape = list(gen.small_shape(rng, maxlen=7))
        if rng.random() < 0.02:
            shape[rng.randrange(len(shape))] = 0        # an empty image
        bc, etag = _rand_elem(rng, shape)
        out.append(dict(dtype=dtype, shape=shape, data=_rand_values(rng, dtype, int(np.prod(shape))), bc=bc, etag=etag,
                        layout=rng.choice(gen.LAYOUTS), out=rng.random() < 0.15))
    return out


def shrink(case):
    if 'block' in case or 'big' in case:
        return
    shape, data = case['shape'], case['data']
    A = np.array(data, dtype=object).reshape(shape)
    for ax in range(len(shape)):
        if shape[ax] > 1:
            for j in (shape[ax] - 1, 0):
                B = np.delete(A, j, axis=ax)
                c = dict(case, shape=list(B.shape), data=B.ravel().tolist())
                bc = case['bc']
                if isinstance(bc, dict) or len(B.shape) == len(shape):
                    yield c
    if case.get('layout', 'C') != 'C':
        yield dict(case, layout='C')
    if case.get('out'):
        yield dict(case, out=False)
    if case.get('dtype', 'bool') != 'bool':
        yield dict(case, dtype='bool', data=[int(v != 0) for v in data])
    for i, v in enumerate(data):
        if v != 0:
            d = list(data); d[i] = 0
            yield dict(case, data=d)
    bc = case['bc']
    if not isinstance(bc, dict):
        Bc, bshape, el = _bc_arg(case)
        yield dict(case, bc=dict(shape=bshape, v=el))
    else:
        for i, v in enumerate(bc['v']):
            if v:
                b = list(bc['v']); b[i] = 0
                yield dict(case, bc=dict(bc, v=b))
