"""C04 — cwatershed() is exactly seeded priority flooding; unreached pixels are 0; lines."""
from __future__ import annotations
import ctypes, itertools, json
import numpy as np
from .. import core, gen

ID = 'C04'
FOUNDATIONS = ['harness.foundation.cscalar']   # ties of the C++ helper functions the model rests on (generated from their text)
LEVEL = 'proof'
RULE = ('corpus; exhaustive scope: every 3-valued surface on the grids 1x1..2x3 (and 3x1, 3x2) x every marker '
        'placement with labels in {0,1,2} x {cross, box}, return_lines=True (thorough: all; quick: a seeded slice of '
        'whole surfaces); random 1-3 D surfaces in bool/8 integer/3 float dtypes x 7 layouts of surface and of markers, '
        'markers none/one/touching/border/dense (also negative labels), neighbourhoods None/int/cross/box/5x5/5x5x5/random '
        'boolean/even-sized/wider than the image, plateaus and ties. Every real call is made twice with the heap '
        'pre-dirtied by two different byte patterns (numpy small-block cache and glibc M_PERTURB), so an output cell '
        'the kernel never writes differs from the specification. Size-threshold stream: > 65535 markers / labels / '
        'queued pixels at one cost level, one region of > 65535 pixels, a row of 65537 pixels, judged with an exact '
        'Python heap oracle of the specification flooding whose agreement with the Lean specification is checked on '
        'every small random case of the run. Non-trivial = at least one pixel is flooded from a '
        'marker; distinct = distinct protocol line + layouts.')
ASSUMPTIONS = ['surface values are not NaN (no strict weak order otherwise); floating surfaces are compared through their '
               'dense ranks (the flooding only compares costs: theorem C04_dense_rank_invariant / '
               'C04_order_isomorphism_invariant; -0.0 == 0.0)',
               'markers are integer/boolean images of the shape of the surface (morph.py rejects anything else); labels are the '
               'values after the int64 cast of morph.py:314, modelled in Lean (`castMarker`: uint64 values >= 2^63 come back '
               'negative); the harness sends the caller\'s values',
               'the neighbourhood is the set of non-zero entries of Bc after the cast to the surface dtype that '
               'get_structuring_elem performs',
               'array sizes < 2^31 (pos_to_flat/flat_to_pos use int)',
               'float16 surfaces are rejected by mahotas with an explicit TypeError (documented); complex has no order']
EXHAUSTIVE = {'thorough': True}
TRUSTED = ['numpy (array construction, layout views, unique for float ranks)']

SURF_DTYPES = ['bool', 'uint8', 'uint16', 'uint32', 'uint64', 'int8', 'int16', 'int32', 'int64', 'float32', 'float64',
               'longdouble']
MARK_DTYPES = ['int64', 'int32', 'uint8', 'int8', 'uint16', 'bool', 'int16', 'uint32', 'uint64']

_libc = None


def _perturb(byte):
    """glibc M_PERTURB (-6): freed chunks are filled with `byte`, fresh ones with its complement"""
    global _libc
    try:
        if _libc is None:
            _libc = ctypes.CDLL(None)
        _libc.mallopt(-6, int(byte))
    except Exception:
        pass


def _dirty(sizes, byte):
    """leave freed blocks of the given byte sizes filled with `byte` in numpy's small-block cache / malloc bins"""
    for nb in sizes:
        keep = [np.full(max(1, nb), byte, np.uint8) for _ in range(3)]
        del keep


def _cross(ndim):
    B = np.zeros((3,) * ndim, bool)
    for k in itertools.product(range(3), repeat=ndim):
        if sum(abs(x - 1) for x in k) <= 1:
            B[k] = True
    return B


def _ranks(vals, dtype):
    """integer costs for the Lean side: integers as they are, floats as dense ranks"""
    a = np.asarray(vals)
    if np.dtype(dtype).kind == 'f':
        a = np.array(vals, dtype=dtype)
        _, inv = np.unique(a, return_inverse=True)
        return [int(x) for x in np.asarray(inv).ravel().tolist()]
    return [int(x) for x in vals]


def _line(shape, costs, markers, bshape, bc, mcast=False):
    # mcast: `markers` are the caller's values (any integer dtype); the driver applies its own model of the int64 cast
    # of morph.py (`castMarker`) instead of numpy's
    return (f"c04 kind=ws shape={gen.enc_shape(shape)} data={gen.enc_arr(costs)} markers={gen.enc_arr(markers)} "
            f"bshape={gen.enc_shape(bshape)} bc={gen.enc_arr(bc)}" + (' mcast=1' if mcast else ''))


def _judge(drv, labels, lines, tag=''):
    """compare one real result (labels: flat ints, lines: flat 0/1 or None) with the Lean spec/model"""
    out = []
    if drv.get('done') != '1':
        raise core.Infra('C04 driver: flooding not drained within the fuel: ' + str(drv))
    spec = core.ints(drv['spec'])
    model = core.ints(drv['model'])
    slines = core.ints(drv['slines'])
    mlines = core.ints(drv['mlines'])
    bad = [i for i, (a, b) in enumerate(zip(labels, spec)) if a != b]
    if bad:
        unreached = all(spec[i] == 0 for i in bad)
        out.append(dict(kind='property', key='labels:unreached-not-zero' if unreached else 'labels:flooding' + tag,
                        detail=dict(pixels=bad[:8], got=labels, spec=spec)))
    elif labels != model:
        out.append(dict(kind='model', key='labels-model', detail=dict(got=labels, model=model)))
    if lines is not None:
        badl = [i for i, (a, b) in enumerate(zip(lines, slines)) if a != b]
        if badl:
            # a cell that the flooding never marks but is not False: never written
            never = all(slines[i] == 0 for i in badl)
            out.append(dict(kind='property', key='lines:not-false-elsewhere' if never else 'lines:wrong' + tag,
                            detail=dict(pixels=badl[:8], got=lines, spec=slines)))
        elif lines != mlines:
            out.append(dict(kind='model', key='lines-model', detail=dict(got=lines, model=mlines)))
    if spec != model or slines != mlines:
        out.append(dict(kind='model', key='model-vs-spec', detail=dict(spec=spec, model=model, slines=slines, mlines=mlines)))
    return out


def _oracle(shape, costs, markers, bshape, bcnz):
    """exact O(N log N) oracle for the size-threshold stream (the Lean queues are lists: too slow beyond ~10^4 pixels):
    the specification flooding of Model/C04.lean (`specInit` / `specVisit`) with a binary heap on (cost, insertion
    index). Its agreement with the Lean specification is established on the small random cases of every run."""
    import heapq
    shape = tuple(int(x) for x in shape)
    N = int(np.prod(shape)) if shape else 1
    nd = len(shape)
    offs = []
    for j in np.ndindex(*bshape):
        if bcnz[int(np.ravel_multi_index(j, bshape))] if bshape else bcnz[0]:
            offs.append(tuple(a - b // 2 for a, b in zip(j, bshape)))
    strides = [int(np.prod(shape[d + 1:])) for d in range(nd)]
    lab = [int(x) for x in markers]
    lines = [0] * N
    queued = [False] * N
    heap = []
    idx = 0
    for p in range(N):
        if lab[p] != 0:
            heap.append((costs[p], idx, p)); queued[p] = True; idx += 1
    heapq.heapify(heap)
    while heap:
        _, _, p = heapq.heappop(heap)
        queued[p] = False
        pos, r = [], p
        for d in range(nd):
            pos.append(r // strides[d]); r %= strides[d]
        lp = lab[p]
        for o in offs:
            q, ok = 0, True
            for d in range(nd):
                c = pos[d] + o[d]
                if c < 0 or c >= shape[d]:
                    ok = False
                    break
                q += c * strides[d]
            if not ok:
                continue
            if lab[q] == 0:
                lab[q] = lp
                heapq.heappush(heap, (costs[q], idx, q)); queued[q] = True; idx += 1
            elif queued[q] and lab[q] != lp:
                lines[q] = 1
    return lab, lines


def _big_inputs(c):
    """surface, markers (int64 values), element of a size-threshold case, generated from a few parameters"""
    h, w = c['shape']
    yy, xx = np.indices((h, w))
    if c['big'] == 'flat-checker':          # > 65535 markers with distinct labels, all queued at one cost level
        S = np.zeros((h, w), c['dtype'])
        M = np.zeros((h, w), np.int64)
        m = (yy + xx) % 2 == 0
        M[m] = np.arange(1, int(m.sum()) + 1)
    elif c['big'] == 'cone':                # one marker, one region of > 65535 pixels, > 65535 insertions
        S = ((np.abs(yy - h // 2) + np.abs(xx - w // 3)) % 251).astype(c['dtype'])
        M = np.zeros((h, w), np.int64)
        M[h // 2, w // 3] = 70000
    else:                                   # 'row': 1 x n, markers at both ends and in the middle, saw-tooth surface
        S = ((xx * 7) % 13).astype(c['dtype'])
        M = np.zeros((h, w), np.int64)
        M[0, 0], M[0, w - 1], M[0, w // 2] = 1, 2, 3
    Bc = np.ones((3, 3), bool) if c['elem'] == 'box' else np.array([[0, 1, 0], [1, 1, 1], [0, 1, 0]], bool)
    return S, M.astype(c.get('mdtype', 'int64')), Bc


def _eval_big(c):
    S, M, Bc = _big_inputs(c)
    costs = [int(x) for x in S.ravel().tolist()]
    want, wlines = _oracle(c['shape'], costs, M.astype(np.int64).ravel().tolist(), [3, 3], [int(x) for x in Bc.ravel()])
    n = S.size
    W, L = _call(S, M, Bc, True, (8 * n, n), 0x55)
    _perturb(0)
    f = []
    got = W.ravel().tolist()
    if W.dtype != np.int64 or got != want:
        bad = [i for i, (a, b) in enumerate(zip(got, want)) if a != b][:5]
        f.append(dict(kind='property', key='labels:size-threshold', detail=dict(first_bad=bad, got=[got[i] for i in bad], spec=[want[i] for i in bad])))
    elif L != wlines:
        bad = [i for i, (a, b) in enumerate(zip(L, wlines)) if a != b][:5]
        f.append(dict(kind='property', key='lines:size-threshold', detail=dict(first_bad=bad)))
    return dict(findings=f, nontrivial=True, sig='big' + json.dumps(c, sort_keys=True),
                tags=dict(dtype=c['dtype'], ndim=2, layout='C', mlayout='C', lines=1, elem=c['elem'], markers='some',
                          unreached=0, size='threshold'))


def _call(surf, markers, Bc, want_lines, sizes, byte):
    import mahotas as mh
    _perturb(byte)
    _dirty(sizes, byte)
    r = mh.cwatershed(surf, markers, Bc, return_lines=want_lines)
    if want_lines:
        W, L = r
        L = np.asarray(L)
        # bool cells holding heap bytes other than 0/1 are still "not False"
        lv = [int(x != 0) for x in L.view(np.uint8).ravel(order='C').tolist()] if L.flags.c_contiguous else \
             [int(bool(x)) for x in L.ravel(order='C').tolist()]
        return np.asarray(W), lv
    return np.asarray(r), None


def _eval_single(cases):
    bigs = {id(c): _eval_big(c) for c in cases if 'big' in c}
    small = iter(_eval_small([c for c in cases if 'big' not in c]))
    return [bigs[id(c)] if 'big' in c else next(small) for c in cases]


def _eval_small(cases):
    res = []
    lines_ = []
    arrs = []
    for c in cases:
        shape = c['shape']
        S = np.array(c['data'], dtype=object if np.dtype(c['dtype']).kind != 'f' else None).astype(c['dtype']).reshape(shape)
        M = np.array(c['markers'], dtype=object).astype(c['mdtype']).reshape(shape)
        Bc = np.array(c['bc'], dtype=object).astype(c['bcdtype']).reshape(c['bshape'])
        if c.get('bcarg') is not None:
            Bc = None if c['bcarg'] == 'none' else int(c['bcarg'])
        mnorm = [int(x) for x in M.astype(np.int64).ravel().tolist()]
        arrs.append((S, M, Bc, mnorm))
        mraw = [int(x) for x in M.ravel().tolist()]         # the values the caller's array holds (bool: 0/1)
        lines_.append(_line(shape, _ranks(c['data'], c['dtype']), mraw, c['bshape'], c['bcnz'], mcast=True))
    drvs = core.drive(lines_)
    for c, drv, ln, (S, M, Bc, mnorm) in zip(cases, drvs, lines_, arrs):
        shape = c['shape']
        Sl = gen.relayout(S, c.get('layout', 'C'))
        Ml = gen.relayout(M, c.get('mlayout', 'C'))
        s0, m0 = Sl.copy(), Ml.copy()
        n = int(np.prod(shape))
        f = []
        got = []
        for byte in (0x55, 0xAB):
            W, L = _call(Sl, Ml, Bc, c['lines'], (8 * n, n), byte)
            if W.shape != tuple(shape) or W.dtype != np.int64:
                f.append(dict(kind='property', key='labels:shape-dtype', detail=dict(shape=W.shape, dtype=str(W.dtype))))
                break
            g = [int(x) for x in W.ravel(order='C').tolist()]
            got.append((g, L))
            f += _judge(drv, g, L)
        _perturb(0)
        if len(got) == 2 and got[0] != got[1] and not any(x['kind'] == 'property' for x in f):
            f.append(dict(kind='property', key='labels:heap-dependent', detail=dict(a=got[0][0], b=got[1][0])))
        if not (np.array_equal(s0, Sl) and np.array_equal(m0, Ml)):
            f.append(dict(kind='property', key='input-modified', detail={}))
        # one finding per key
        seen, keep = set(), []
        for x in f:
            if x['key'] not in seen:
                seen.add(x['key']); keep.append(x)
        spec = core.ints(drv['spec'])
        # the Python oracle of the size-threshold stream must agree with the Lean specification on the small cases
        o = _oracle(shape, _ranks(c['data'], c['dtype']), mnorm, c['bshape'], c['bcnz'])
        if len(c['bshape']) == len(shape) and (o[0] != spec or o[1] != core.ints(drv['slines'])):
            raise core.Infra('C04: the Python oracle of the size-threshold stream disagrees with the Lean spec on ' + str(c)[:400])
        nontriv = any(a != b for a, b in zip(spec, mnorm))
        nm = sum(1 for x in mnorm if x)
        res.append(dict(findings=keep, nontrivial=nontriv, sig=ln + c.get('layout', 'C') + c.get('mlayout', 'C'),
                        tags=dict(dtype=c['dtype'], ndim=len(shape), layout=c.get('layout', 'C'),
                                  mlayout=c.get('mlayout', 'C'), lines=int(bool(c['lines'])), elem=c.get('elem', '?'),
                                  markers=('none' if nm == 0 else 'one' if nm == 1 else 'all' if nm == n else 'some'),
                                  unreached=int(any(v == 0 for v in spec)))))
    return res


def _digits(i, n, base=3):
    out = []
    for _ in range(n):
        out.append(i % base); i //= base
    return out


def _eval_block(case):
    """exhaustive block: the 3-valued surfaces `surfs` of `shape` x all 3^n marker placements x `elems`"""
    import mahotas as mh
    shape = case['shape']
    n = int(np.prod(shape))
    findings, count, nontriv = [], 0, 0
    allm = [_digits(mi, n) for mi in range(3 ** n)] if case.get('marks') is None else [_digits(mi, n) for mi in case['marks']]
    for elem in case['elems']:
        Bc = _cross(2) if elem == 'cross' else np.ones((3, 3), bool)
        bcl = [int(x) for x in Bc.ravel()]
        for si in case['surfs']:
            data = _digits(si, n)
            S = np.array(data, np.uint8).reshape(shape)
            lines_ = [_line(shape, data, m, [3, 3], bcl) for m in allm]
            drvs = core.drive(lines_)
            for k, (m, drv) in enumerate(zip(allm, drvs)):
                M = np.array(m, np.int64).reshape(shape)
                byte = 0x55 if (k & 1) else 0xAB
                W, L = _call(S, M, Bc, True, (8 * n, n), byte)
                g = [int(x) for x in W.ravel().tolist()]
                f = _judge(drv, g, L)
                count += 1
                if g != m:
                    nontriv += 1
                for x in f:
                    if len(findings) < 60:
                        x['case'] = dict(shape=list(shape), dtype='uint8', data=data, markers=m, mdtype='int64',
                                         bshape=[3, 3], bc=bcl, bcnz=bcl, bcdtype='bool', layout='C', mlayout='C',
                                         lines=True, elem=elem)
                        findings.append(x)
    _perturb(0)
    seen, keep = set(), []
    for f in findings:
        if f['key'] not in seen:
            seen.add(f['key']); keep.append(f)
    return dict(findings=keep, n=count, nontrivial_n=nontriv, nontrivial=False, sig=None,
                tags=dict(dtype='exhaustive-block', ndim=2))


def evaluate(cases):
    out = []
    singles = [c for c in cases if 'block' not in c]
    sres = iter(_eval_single(singles))
    for c in cases:
        out.append(_eval_block(c) if 'block' in c else next(sres))
    return out


def _corpus():
    d = core.VERIF / 'corpus' / ID
    out = []
    if d.exists():
        for p in sorted(d.glob('*.json')):
            out.append(json.loads(p.read_text())['case'])
    return out


def _rand_surface(rng, shape, dtype):
    n = int(np.prod(shape))
    lo, hi = (0, 1) if dtype == 'bool' else (-1000, 1000) if np.dtype(dtype).kind == 'f' else gen.dt_range(dtype)
    style = rng.random()
    if style < 0.35:        # few levels: plateaus and ties everywhere
        levels = sorted({rng.randint(max(lo, -3), min(hi, 3)) for _ in range(3)} | {lo if rng.random() < .3 else min(hi, 1)})
        vals = [rng.choice(levels) for _ in range(n)]
    elif style < 0.5:       # constant
        v = rng.choice([lo, hi, 0 if lo <= 0 else lo])
        vals = [v] * n
    elif style < 0.75:      # dtype limits mixed with small numbers
        bv = [lo, hi, lo + 1 if hi > 1 else lo, hi - 1 if hi > 1 else hi, 0 if lo <= 0 else lo, min(hi, 1)]
        vals = [rng.choice(bv) for _ in range(n)]
    else:
        vals = [rng.randint(lo, hi) for _ in range(n)]
    if np.dtype(dtype).kind == 'f':
        sc = rng.choice([1.0, 0.5, 0.25, 1e30 if dtype == 'float64' else 1e20])
        vals = [float(np.dtype(dtype).type(v * sc)) for v in vals]
        if rng.random() < 0.2:
            vals = [(-0.0 if v == 0 and rng.random() < .5 else v) for v in vals]
        if rng.random() < 0.15:
            # +-inf (no NaN) and subnormals: still a strict weak order; equal costs stay equal after the dense-rank reduction
            tiny = 1e-45 if dtype == 'float32' else 5e-324
            ext = [float('inf'), float('-inf'), tiny, -tiny, 0.0]
            vals = [(float(np.dtype(dtype).type(rng.choice(ext))) if rng.random() < 0.3 else v) for v in vals]
    return vals


def _rand_markers(rng, shape, mdtype):
    n = int(np.prod(shape))
    lo, hi = gen.dt_range(mdtype)
    m = [0] * n
    style = rng.random()
    labs = [1, 2, 3, min(hi, 7), hi] + ([-1, lo] if lo < 0 else []) + ([2 ** 63, 2 ** 63 + 5] if hi > 2 ** 63 else [])
    if style < 0.08:
        pass                                    # no marker at all
    elif style < 0.3:
        m[rng.randrange(n)] = rng.choice(labs)  # one marker
    elif style < 0.5:                           # two touching markers
        i = rng.randrange(n)
        m[i] = 1
        m[min(n - 1, i + 1)] = rng.choice([1, 2]) if hi > 1 else 1
    elif style < 0.7:                           # markers on the border (first/last flat positions)
        for i in (0, n - 1, rng.randrange(n)):
            m[i] = rng.choice(labs)
    elif style < 0.9:                           # sparse
        for i in range(n):
            if rng.random() < 0.2:
                m[i] = rng.choice(labs)
    else:                                       # dense
        for i in range(n):
            if rng.random() < 0.8:
                m[i] = rng.choice(labs)
    return m


def _rand_elem(rng, shape):
    ndim = len(shape)
    r = rng.random()
    if r < 0.25:
        B = _cross(ndim); name = 'cross'
    elif r < 0.45:
        B = np.ones((3,) * ndim, bool); name = 'box'
    elif r < 0.6:
        B = np.ones((5,) * ndim, bool); name = 'box5'
    elif r < 0.8:
        bs = [rng.choice([1, 2, 3, 4, 5]) for _ in range(ndim)]
        B = np.array([rng.random() < 0.6 for _ in range(int(np.prod(bs)))], bool).reshape(bs); name = 'random'
    elif r < 0.9:
        bs = [2 * s + 1 + 2 * rng.choice([0, 1]) for s in shape]      # wider than the image: zero flat deltas occur
        if int(np.prod(bs)) > 400:
            bs = [min(b, 7) for b in bs]
        B = np.array([rng.random() < 0.5 for _ in range(int(np.prod(bs)))], bool).reshape(bs); name = 'wide'
    else:
        bs = [rng.choice([1, 3]) for _ in range(ndim)]
        B = np.array([rng.random() < 0.5 for _ in range(int(np.prod(bs)))], bool).reshape(bs); name = 'sparse3'
    return B, name


def _mk_case(rng):
    dtype = rng.choice(SURF_DTYPES)
    shape = list(gen.small_shape(rng, maxlen=7))
    if rng.random() < 0.1:
        shape = [rng.choice([1, 2, 9, 12])] + shape[1:]
    mdtype = rng.choice(MARK_DTYPES[:1] * 3 + MARK_DTYPES)
    data = _rand_surface(rng, shape, dtype)
    markers = _rand_markers(rng, shape, mdtype)
    B, name = _rand_elem(rng, shape)
    bcarg = None
    if rng.random() < 0.12:
        # Bc given as None / a connectivity or neighbour count: get_structuring_elem builds the l1-ball of that radius
        nd = len(shape)
        bcarg = rng.choice(['none', 1, 2] + ([4, 8] if nd == 2 else [6, 3] if nd == 3 else []))
        r = {'none': 1, 4: 1, 8: 2, 6: 1}.get(bcarg, bcarg)
        B = np.zeros((3,) * nd, bool)
        for k in itertools.product(range(3), repeat=nd):
            B[k] = sum(abs(x - 1) for x in k) <= r
        name = 'default'
    # Bc as the caller passes it: bool, or numbers in some dtype (cast to the surface dtype by get_structuring_elem)
    bcdtype = rng.choice(['bool', 'bool', 'uint8', 'int32', dtype])
    bc = [int(x) for x in B.ravel().tolist()]
    if bcdtype not in ('bool',) and rng.random() < 0.3 and dtype != 'bool':
        bc = [x * rng.choice([1, 2, 3]) for x in bc]
    with np.errstate(all='ignore'):
        nz = (np.array(bc, dtype=object).astype(bcdtype).astype(dtype) != 0)
    c = dict(shape=shape, dtype=dtype, data=data, markers=markers, mdtype=mdtype, bshape=list(B.shape), bc=bc,
             bcnz=[int(x) for x in nz.tolist()], bcdtype=bcdtype, layout=rng.choice(gen.LAYOUTS),
             mlayout=rng.choice(gen.LAYOUTS), lines=rng.random() < 0.7, elem=name)
    if bcarg is not None:
        c.update(bcarg=bcarg, bcdtype='bool', bc=[int(x) for x in B.ravel().tolist()],
                 bcnz=[int(x) for x in B.ravel().tolist()])
    return c


EXH_SHAPES = ([1, 1], [1, 2], [2, 1], [1, 3], [3, 1], [2, 2], [2, 3], [3, 2])


def _interleave(head, blocks, rands):
    """corpus first; the (heavy) exhaustive blocks spread evenly among the random cases so that the
    engine's contiguous chunks get equal work"""
    out = list(head)
    if not blocks:
        return out + rands
    step = max(1, len(rands) // len(blocks))
    ri = 0
    for b in blocks:
        out.append(b)
        out += rands[ri:ri + step]
        ri += step
    return out + rands[ri:]


def cases(rng, tier):
    head = list(_corpus()) if tier != 'search' else []
    blocks = []
    if tier == 'thorough':
        for shp in EXH_SHAPES:
            n = shp[0] * shp[1]
            ns = 3 ** n
            per = 729 if n < 6 else 3
            for lo in range(0, ns, per):
                blocks.append(dict(block='exh', shape=shp, elems=['cross', 'box'], surfs=list(range(lo, min(ns, lo + per)))))
    else:
        k = 12 if tier == 'quick' else 40
        for shp in ([2, 3], [3, 2]):
            for si in sorted(rng.sample(range(729), k // 2)):
                blocks.append(dict(block='exh', shape=shp, elems=['cross', 'box'], surfs=[si]))
        for shp in ([1, 3], [2, 2], [3, 1], [1, 2]):
            n = shp[0] * shp[1]
            blocks.append(dict(block='exh', shape=shp, elems=['cross', 'box'], surfs=list(range(3 ** n))))
    nrand = dict(quick=1500, thorough=30000, search=8000)[tier]
    rands = [_mk_case(rng) for _ in range(nrand)]
    # size-threshold stream: > 65535 markers / labels / queued pixels at one level, one region of > 65535 pixels,
    # rows longer than 2^16 (a label, index or queue counter narrowed to 16 bits passes every small case)
    big = [dict(big='flat-checker', shape=[363, 363], dtype='uint8', elem='cross', mdtype='int64'),
           dict(big='cone', shape=[257, 256], dtype=rng.choice(['uint8', 'int32', 'float64']), elem=rng.choice(['cross', 'box']), mdtype='int64'),
           dict(big='row', shape=[1, 65537], dtype=rng.choice(['uint16', 'float32']), elem='cross', mdtype='uint8'),
           dict(big='flat-checker', shape=[257, 256], dtype='float32', elem='box', mdtype='int32')]
    if tier == 'quick':
        head += [big[0]] + rng.sample(big[1:], 1)
    elif tier == 'thorough':
        head += big
    return _interleave(head, blocks, rands)


def shrink(case):
    if 'block' in case or 'big' in case:
        return
    shape = case['shape']
    A = np.array(case['data'], dtype=object).reshape(shape)
    M = np.array(case['markers'], dtype=object).reshape(shape)
    for ax in range(len(shape)):
        if shape[ax] > 1:
            for j in (shape[ax] - 1, 0):
                A2, M2 = np.delete(A, j, axis=ax), np.delete(M, j, axis=ax)
                yield dict(case, shape=list(A2.shape), data=A2.ravel().tolist(), markers=[int(x) for x in M2.ravel().tolist()])
    for k in ('layout', 'mlayout'):
        if case.get(k, 'C') != 'C':
            yield dict(case, **{k: 'C'})
    if case['mdtype'] != 'int64':
        yield dict(case, mdtype='int64')
    for i, v in enumerate(case['markers']):
        if v != 0:
            m = list(case['markers']); m[i] = 0
            yield dict(case, markers=m)
    for i, v in enumerate(case['data']):
        if v != 0 and case['dtype'] != 'bool':
            d = list(case['data']); d[i] = 0
            yield dict(case, data=d)
    for i, v in enumerate(case['bc']):
        if v != 0 and case.get('bcarg') is None:
            b = list(case['bc']); b[i] = 0
            z = list(case['bcnz']); z[i] = 0
            yield dict(case, bc=b, bcnz=z)
