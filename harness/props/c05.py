"""C05 — distance() is the exact squared Euclidean transform; gvoronoi is nearest-label."""
from __future__ import annotations
import json, os, subprocess, sys
import numpy as np
from .. import core, gen

ID = 'C05'
LEVEL = 'proof'
FOUNDATIONS = ['harness.foundation.cscalar']   # tie of the intersection formula of dist_transform to C05.sInt (generated from its text)
RULE = ('corpus (design-phase witnesses); exhaustive scope: every boolean image of shape 3x4, 2x2x3 and the smaller '
        'grids (thorough: all; quick: a seeded slice); random 1-4 D boolean/integer images x 7 layouts x both metrics: '
        'strongly elongated shapes (1xn, nx1x1, 1x1xn, n), single background pixels in corners, sparse/dense background, '
        'all-foreground, all-background; gvoronoi on 1-4 D label images (ties included, compared on the set of nearest '
        'labels); the 1-D kernel _distance.dt on arbitrary sampled integer functions; zero-sized and 0-d inputs in '
        'isolated processes; size-threshold stream: lines of 2^16 +- 1 and more pixels inside 1-4 D arrays (distance and '
        'gvoronoi, labels > 65529), judged with the Lean specification alone. Non-trivial = some foreground pixel has a background pixel to measure to; '
        'distinct = distinct protocol line + layout + metric.')
ASSUMPTIONS = ['axis lengths < 2^12: the intersection abscissae of the C kernel are single correctly rounded double divisions '
               'of integers < 2^53 and are only compared with each other / with integers; the model computes them in exact '
               'rationals (same comparison outcomes in this range)',
               'metric="euclidean" is compared bit-for-bit with the correctly rounded square root of the exact integer',
               'gvoronoi: label images of rank >= 1 (rank 2 through one `_distance.dt` call, every other rank through the per-axis '
               'line loop, as `distance`); at least one labelled pixel '
               '(otherwise the statement names no label to assign); compared on membership in the set of nearest labels, '
               'not on which equidistant label is chosen',
               'zero-sized / 0-d inputs: only "no crash, a Python exception or an array of the input shape" is required']
EXHAUSTIVE = {'thorough': True}
TRUSTED = ['numpy (array construction, layout views, correctly rounded sqrt)']

BW_DTYPES = ['bool', 'bool', 'bool', 'uint8', 'int8', 'uint16', 'int32', 'int64', 'uint64']
_SRC = None


def setup(src):
    global _SRC
    _SRC = str(src)


def _line(kind, shape, data):
    return f"c05 kind={kind} shape={gen.enc_shape(shape)} data={gen.enc_arr(data)}"


def _judge_dist(c, drv, got):
    out = []
    spec = core.ints(drv['spec'])
    model = core.ints(drv['model']) if 'model' in drv else None      # long lines: specification only
    maxd = int(drv['maxd'])
    nd = 'ndim2' if len(c['shape']) == 2 else 'ndimN'
    g = np.asarray(got, dtype=np.float64).ravel(order='C')
    if got.shape != tuple(c['shape']) or got.dtype != np.float64:
        return [dict(kind='property', key='distance:shape-dtype', detail=dict(shape=got.shape, dtype=str(got.dtype)))]
    eucl = c.get('metric', 'euclidean2') == 'euclidean'
    if spec and spec[0] < 0:                      # no background at all
        bound = np.sqrt(float(maxd)) if eucl else float(maxd)
        if not bool(np.all(g > bound)):
            out.append(dict(kind='property', key=f'distance:{nd}:no-background-not-large',
                            detail=dict(min=float(g.min()), must_exceed=bound)))
    else:
        want = np.array(spec, dtype=np.float64)
        if eucl:
            want = np.sqrt(want)
        bad = np.nonzero(g != want)[0]
        if bad.size:
            small = bool(np.all(g[bad] < want[bad]))
            large = bool(np.all(g[bad] > want[bad]))
            cls = 'too-small' if small else 'too-large' if large else 'wrong'
            i = int(bad[0])
            key = f'distance:{nd}:{cls}'
            if max(c['shape']) >= 46342:
                # `dist_transform` squares coordinates in 32-bit `int`: 46341**2 > 2**31 - 1 (its own input class)
                key = 'distance:int32-overflow-axis>=46342'
            out.append(dict(kind='property', key=key,
                            detail=dict(pixel=[int(x) for x in np.unravel_index(i, c['shape'])], got=float(g[i]),
                                        spec=float(want[i]), nbad=int(bad.size))))
    if not out and not eucl and model is not None:
        if [float(x) for x in model] != g.tolist():
            out.append(dict(kind='model', key=f'distance-model:{nd}', detail=dict(got=g.tolist()[:40], model=model[:40])))
    if not out and eucl and drv.get('wrap'):
        # the wrapper model (C05_euclidean_is_sqrt): element-wise IEEE sqrt of the squared transform, bit for bit
        wrap = np.array([int(x) for x in drv['wrap'].split(',')], dtype=np.uint64).view(np.float64)
        if wrap.tobytes() != g.tobytes():
            out.append(dict(kind='model', key=f'distance-wrapper-model:{nd}',
                            detail=dict(got=g.tolist()[:40], model=wrap.tolist()[:40])))
    if model is None:
        return out
    if spec and spec[0] >= 0 and spec != model:
        out.append(dict(kind='model', key='model-vs-spec', detail=dict(spec=spec[:40], model=model[:40])))
    if drv['flat'] != drv['model']:
        # the coordinate-level passes (about which the theorems speak) and the flat/stride passes must agree
        out.append(dict(kind='model', key='model-coord-vs-flat', detail=dict(flat=drv['flat'][:200], model=drv['model'][:200])))
    return out


def _mk(c):
    A = np.array(c['data'], dtype=object).astype(c['dtype']).reshape(c['shape'])
    return gen.relayout(A, c.get('layout', 'C'))


def _eval_single(cases):
    import mahotas as mh
    from mahotas import _distance
    import mahotas.segmentation
    res = []
    lines = []
    for c in cases:
        k = c['kind']
        if k == 'dist':
            lines.append(_line('distl' if c.get('lite') else 'dist', c['shape'], [int(x != 0) for x in c['data']])
                         + (' eucl=1' if c.get('metric', 'euclidean2') == 'euclidean' else ''))
        elif k == 'gvor':
            lines.append(_line('gvorl' if c.get('lite') else 'gvor', c['shape'], c['data']) if len(c['shape']) >= 1 else 'ping')
        elif k == 'dt1d':
            lines.append(f"c05 kind=dt1d data={gen.enc_arr(c['data'])}")
        else:
            lines.append('ping')
    drvs = core.drive(lines)
    for c, drv, ln in zip(cases, drvs, lines):
        k = c['kind']
        f = []
        nontriv = False
        tags = dict(kind=k, ndim=len(c.get('shape', [])), layout=c.get('layout', 'C'), dtype=c.get('dtype', '-'))
        if c.get('size'):
            tags['size'] = c['size']
        if k == 'dist':
            A = _mk(c)
            before = A.copy()
            got = mh.distance(A, c.get('metric', 'euclidean2'))
            f = _judge_dist(c, drv, np.asarray(got))
            if not np.array_equal(before, A):
                f.append(dict(kind='property', key='input-modified', detail={}))
            spec = core.ints(drv['spec'])
            nontriv = any(v > 0 for v in spec)
            n = len(c['data'])
            nbg = sum(1 for x in c['data'] if x == 0)
            tags.update(metric=c.get('metric', 'euclidean2'),
                        bg=('none' if nbg == 0 else 'all' if nbg == n else 'one' if nbg == 1 else 'some'),
                        elong=int(max(c['shape']) >= 8 * max(1, sorted(c['shape'])[-2] if len(c['shape']) > 1 else 1)))
        elif k == 'gvor':
            A = _mk(c)
            before = A.copy()
            got = None
            if len(c['shape']) >= 1:
                try:
                    got = np.asarray(mh.segmentation.gvoronoi(A))
                except Exception as e:
                    if len(c['shape']) == 2:
                        raise
                    # round 4: gvoronoi runs the per-axis kernel for every rank (it used to raise RuntimeError from
                    # `_distance.dt` for label images that are not 2-D); the statement names no rank restriction
                    tags['outcome'] = type(e).__name__
                    f.append(dict(kind='property', key='gvoronoi:ndimN:raises', detail=dict(error=repr(e)[:200])))
            if got is not None:
                g = [int(x) for x in got.ravel(order='C').tolist()]
                if got.shape != tuple(c['shape']) or got.dtype != A.dtype:
                    f.append(dict(kind='property', key='gvoronoi:shape-dtype', detail=dict(shape=got.shape, dtype=str(got.dtype))))
                elif any(x != 0 for x in c['data']):
                    acc = [set(int(y) for y in t.split('|')) for t in drv['acc'].split(',')]
                    bad = [i for i, (v, s) in enumerate(zip(g, acc)) if v not in s]
                    keep = [i for i, v in enumerate(c['data']) if v != 0 and g[i] != v]
                    if keep:
                        f.append(dict(kind='property', key='gvoronoi:labelled-pixel-changed', detail=dict(pixels=keep[:8], got=g)))
                    elif bad:
                        f.append(dict(kind='property', key='gvoronoi:not-nearest',
                                      detail=dict(pixels=bad[:8], got=g, nearest=[sorted(s) for s in acc][:40])))
                    nontriv = any(v == 0 for v in c['data'])
                if c.get('lite'):
                    pass        # specification only (long lines): the model is not run
                elif not f and g != core.ints(drv['model']):
                    f.append(dict(kind='model', key='gvoronoi-model', detail=dict(got=g, model=core.ints(drv['model']))))
                if not c.get('lite') and drv['flat'] != drv['model']:
                    f.append(dict(kind='model', key='gvoronoi-model-coord-vs-flat', detail=dict(flat=drv['flat'], model=drv['model'])))
            if not np.array_equal(before, A):
                f.append(dict(kind='property', key='input-modified', detail={}))
        elif k == 'dt1d':
            # the native 1-D kernel on an arbitrary sampled function, through a (1, n) view as distance() uses it
            n = len(c['data'])
            base = np.zeros((n, 2)) if c.get('strided') else np.zeros((n, 1))
            base[:, 0] = c['data']
            view = base[:, 0][None, :]
            _distance.dt(view, None)
            g = [int(x) for x in base[:, 0].tolist()]
            spec = core.ints(drv['spec'])
            if g != spec:
                f.append(dict(kind='property', key='dt1d:not-min-plus', detail=dict(got=g, spec=spec)))
            elif g != core.ints(drv['model']) or drv['walk'] != drv['top']:
                f.append(dict(kind='model', key='dt1d-model', detail=dict(got=g, drv=drv)))
            nontriv = g != c['data']
        elif k == 'degenerate':
            rc, err = _isolated(c)
            tags['outcome'] = str(rc)
            if rc not in (0, 3):
                f.append(dict(kind='property', key=c['func'] + ':degenerate-crash', detail=dict(returncode=rc, stderr=err[-300:])))
        res.append(dict(findings=f, nontrivial=nontriv, sig=ln + c.get('layout', 'C') + c.get('metric', ''), tags=tags))
    return res


_ISO = r'''
import sys, numpy as np
import mahotas as mh, mahotas.segmentation
shape = tuple(int(x) for x in sys.argv[2].split(',')) if sys.argv[2] != '-' else ()
a = np.ones(shape, sys.argv[3])
try:
    r = mh.distance(a) if sys.argv[1] == 'distance' else mh.segmentation.gvoronoi(a)
except Exception as e:
    sys.exit(3)
sys.exit(0 if np.asarray(r).shape == shape or sys.argv[1] != 'distance' else 4)
'''


def _isolated(c):
    env = dict(os.environ)
    env['PYTHONPATH'] = _SRC or ''
    try:
        r = subprocess.run([core.PY, '-c', _ISO, c['func'], gen.enc_shape(c['shape']), c['dtype']], env=env,
                           stdout=subprocess.PIPE, stderr=subprocess.PIPE, text=True, timeout=60)
    except subprocess.TimeoutExpired:
        return -999, 'timeout'
    return r.returncode, r.stderr


def _eval_block(case):
    """exhaustive block: the boolean images `imgs` (bit patterns) of `shape`"""
    import mahotas as mh
    shape = case['shape']
    n = int(np.prod(shape))
    findings, count, nontriv = [], 0, 0
    datas = [[(ii >> k) & 1 for k in range(n)] for ii in case['imgs']]
    drvs = core.drive([_line('dist', shape, d) for d in datas])
    for d, drv in zip(datas, drvs):
        A = np.array(d, bool).reshape(shape)
        c = dict(kind='dist', shape=list(shape), dtype='bool', data=d, layout='C', metric='euclidean2')
        f = _judge_dist(c, drv, np.asarray(mh.distance(A)))
        count += 1
        if 0 < sum(d) < n:
            nontriv += 1
        for x in f:
            if len(findings) < 40:
                x['case'] = c
                findings.append(x)
    seen, keep = set(), []
    for f in findings:
        if f['key'] not in seen:
            seen.add(f['key']); keep.append(f)
    return dict(findings=keep, n=count, nontrivial_n=nontriv, nontrivial=False, sig=None,
                tags=dict(kind='exhaustive-block', ndim=len(shape)))


def evaluate(cases):
    out = []
    singles = [c for c in cases if 'block' not in c]
    sres = iter(_eval_single(singles))
    for c in cases:
        out.append(_eval_block(c) if 'block' in c else next(sres))
    return out


def _corpus():
    d = core.VERIF / 'corpus' / ID
    out = []
    if d.exists():
        for p in sorted(d.glob('*.json')):
            out.append(json.loads(p.read_text())['case'])
    return out


def _rand_shape(rng):
    r = rng.random()
    ndim = rng.choice([1, 2, 2, 3, 3, 4])
    if r < 0.3:                              # strongly elongated
        n = rng.choice([9, 14, 20, 33, 47, 64])
        shape = [1] * ndim
        shape[rng.randrange(ndim)] = n
        if ndim > 1 and rng.random() < 0.4:
            shape[rng.randrange(ndim)] = max(shape[rng.randrange(ndim)], rng.choice([2, 3]))
    elif r < 0.6:
        shape = [rng.choice([1, 2, 3, 4]) for _ in range(ndim)]
    else:
        cap = {1: 40, 2: 16, 3: 7, 4: 4}[ndim]
        shape = [rng.randint(1, cap) for _ in range(ndim)]
    return shape


def _rand_bw(rng, shape, dtype):
    n = int(np.prod(shape))
    lo, hi = gen.dt_range(dtype)
    fg = [1, 1, 1, hi, 2] + ([lo, -1] if lo < 0 else [])
    style = rng.random()
    if style < 0.08:
        d = [rng.choice(fg) for _ in range(n)]                       # no background
    elif style < 0.14:
        d = [0] * n                                                  # all background
    elif style < 0.4:                                                # single background pixel, often in a corner
        d = [rng.choice(fg) for _ in range(n)]
        if rng.random() < 0.7:
            corner = tuple(rng.choice([0, s - 1]) for s in shape)
            d[int(np.ravel_multi_index(corner, shape))] = 0
        else:
            d[rng.randrange(n)] = 0
    elif style < 0.7:                                                # a few background pixels
        d = [rng.choice(fg) for _ in range(n)]
        for _ in range(rng.choice([2, 3, 4])):
            d[rng.randrange(n)] = 0
    else:
        p = rng.choice([0.1, 0.5, 0.9])
        d = [rng.choice(fg) if rng.random() < p else 0 for _ in range(n)]
    if dtype == 'bool':
        d = [int(bool(x)) for x in d]
    return d


def _rand_labels(rng, shape, dtype):
    n = int(np.prod(shape))
    lo, hi = gen.dt_range(dtype)
    labs = [1, 2, 3, min(hi, 9), hi] + ([-1] if lo < 0 else [])
    if dtype == 'bool':
        labs = [1]
    style = rng.random()
    d = [0] * n
    if style < 0.05:
        pass
    elif style < 0.5:
        for _ in range(rng.choice([1, 2, 3, 4])):
            d[rng.randrange(n)] = rng.choice(labs)
    else:
        p = rng.choice([0.1, 0.3, 0.8])
        d = [rng.choice(labs) if rng.random() < p else 0 for _ in range(n)]
    return d


def _interleave(head, blocks, rands):
    """corpus first; the (heavy) exhaustive blocks spread evenly among the random cases so that the
    engine's contiguous chunks get equal work"""
    out = list(head)
    if not blocks:
        return out + rands
    step = max(1, len(rands) // len(blocks))
    ri = 0
    for b in blocks:
        out.append(b)
        out += rands[ri:ri + step]
        ri += step
    return out + rands[ri:]


def cases(rng, tier):
    out = list(_corpus()) if tier != 'search' else []
    blocks = []
    rands = []
    if tier != 'search':
        for func, shape, dt in (('distance', [0, 3], 'bool'), ('distance', [3, 0], 'bool'), ('distance', [], 'bool'),
                                ('distance', [0], 'bool'), ('distance', [2, 0, 2], 'uint8'), ('distance', [], 'float64'),
                                ('gvoronoi', [0, 3], 'int32'), ('gvoronoi', [], 'int32')):
            out.append(dict(kind='degenerate', func=func, shape=shape, dtype=dt))
    if tier == 'thorough':
        for shp in ([3, 4], [2, 2, 3], [4, 3], [1, 12], [12], [2, 3, 2], [1, 2, 2, 3]):
            for lo in range(0, 4096, 256):
                blocks.append(dict(block='exh', shape=shp, imgs=list(range(lo, lo + 256))))
    else:
        for shp in ([3, 4], [2, 2, 3], [12], [1, 2, 2, 3]):
            blocks.append(dict(block='exh', shape=shp, imgs=sorted(rng.sample(range(4096), 300))))
    nrand = dict(quick=2000, thorough=40000, search=10000)[tier]
    for _ in range(nrand):
        r = rng.random()
        if r < 0.7:
            shape = _rand_shape(rng)
            dtype = rng.choice(BW_DTYPES)
            rands.append(dict(kind='dist', shape=shape, dtype=dtype, data=_rand_bw(rng, shape, dtype),
                            layout=rng.choice(gen.LAYOUTS), metric=rng.choice(['euclidean2', 'euclidean2', 'euclidean'])))
        elif r < 0.9:
            if rng.random() < 0.4:                         # every rank (round 4: gvoronoi is n-D), elongated shapes included
                shape = _rand_shape(rng)
            elif rng.random() < 0.3:
                shape = rng.choice([[1, rng.choice([9, 20, 41])], [rng.choice([9, 20, 41]), 1]])
            else:
                shape = [rng.randint(1, 12), rng.randint(1, 12)]
            dtype = rng.choice(['int32', 'int64', 'uint8', 'uint16', 'int8', 'bool', 'uint64'])
            rands.append(dict(kind='gvor', shape=shape, dtype=dtype, data=_rand_labels(rng, shape, dtype),
                            layout=rng.choice(gen.LAYOUTS)))
        else:
            n = rng.choice([1, 2, 3, 5, 8, 13, 30])
            top = rng.choice([3, 20, 200, 2 * n * n + 1])
            data = [rng.choice([0, top, rng.randint(0, top)]) for _ in range(n)]
            rands.append(dict(kind='dt1d', data=data, strided=rng.random() < 0.5))
    # very long lines (1 x n, n x 1, n > 4096): squared coordinates beyond 2^24 need every intermediate in double
    # precision; labels / background pixels are sparse, with adjacent pairs at high coordinates
    nlong = dict(quick=4, thorough=40, search=10)[tier]
    # ... and lines beyond 46341 pixels (46341^2 > 2^31 - 1): every square of a coordinate, of the envelope's vertices
    # as well as of the running position, has to be taken in the wide type; several sources lie beyond that index
    nhuge = dict(quick=2, thorough=8, search=4)[tier]
    for i in range(nlong + nhuge):
        huge = i >= nlong
        n = rng.randint(46500, 52000) if huge else rng.randint(4200, 7000)
        shape = [1, n] if i % 2 == 0 else [n, 1]
        pos = sorted({rng.randint(0, n - 1) for _ in range(rng.randint(2, 6))})
        for _ in range(2):
            v = rng.randint(46342 if huge else 4097, n - 2)
            pos += [v, v + 1]
        if huge:
            pos += [46341, rng.randint(46342, n - 1), rng.randint(46342, n - 1)]
        pos = sorted(set(pos))
        if (i % 2 == 0) if huge else (i % 4 < 3):
            data = [0] * n
            for k, q in enumerate(pos):
                data[q] = k + 1
            rands.append(dict(kind='gvor', shape=shape, dtype=rng.choice(['int32', 'int64', 'uint16']), data=data, layout='C', lite=True))
        else:
            data = [1] * n
            for q in pos:
                data[q] = 0
            rands.append(dict(kind='dist', shape=shape, dtype='bool', data=data, layout='C', metric='euclidean2', lite=True))
    # size-threshold stream: lines crossing 2^16 (+-1) inside n-D arrays (1-D, 1 x n x 1, n x 1 x 1, 1 x 1 x 1 x n): the per-axis
    # line loop of distance()/gvoronoi() for ranks other than 2, and the 2-D kernel on n x 2; an index, root position or
    # origin narrowed to 16 bits passes every small case. Specification only (`lite`: O(N * #sources) in the driver).
    nthr = dict(quick=3, thorough=12, search=4)[tier]
    for i in range(nthr):
        n = rng.choice([65535, 65536, 65537, 65537, 66000 + rng.randrange(3000)])
        shape = rng.choice([[n], [1, n, 1], [n, 1, 1], [1, 1, 1, n], [n, 2], [2, n]])
        N = int(np.prod(shape))
        pos = sorted({rng.randrange(N) for _ in range(rng.randint(2, 5))} | {N - 1 - rng.randrange(3), rng.randrange(3)}
                     | {65535 + rng.randrange(-1, 2) for _ in range(2) if N > 65537})
        if i % 2 == 0:
            data = [1] * N
            for q in pos:
                data[q] = 0
            rands.append(dict(kind='dist', shape=shape, dtype='bool', data=data, layout='C', metric='euclidean2', lite=True, size='threshold'))
        else:
            data = [0] * N
            for k, q in enumerate(pos):
                data[q] = 65530 + k
            rands.append(dict(kind='gvor', shape=shape, dtype=rng.choice(['int32', 'uint32']), data=data, layout='C', lite=True, size='threshold'))
    return _interleave(out, blocks, rands)


def shrink(case):
    if 'block' in case or case.get('kind') not in ('dist', 'gvor'):
        return
    shape = case['shape']
    A = np.array(case['data'], dtype=object).reshape(shape)
    for ax in range(len(shape)):
        if shape[ax] > 1:
            for j in (shape[ax] - 1, 0):
                B = np.delete(A, j, axis=ax)
                yield dict(case, shape=list(B.shape), data=[int(x) for x in B.ravel().tolist()])
    if case.get('layout', 'C') != 'C':
        yield dict(case, layout='C')
    if case.get('metric') == 'euclidean':
        yield dict(case, metric='euclidean2')
    if case['dtype'] != 'bool' and case['kind'] == 'dist':
        yield dict(case, dtype='bool', data=[int(x != 0) for x in case['data']])
    for i, v in enumerate(case['data']):
        if v == 0 and case['kind'] == 'dist':
            d = list(case['data']); d[i] = 1
            yield dict(case, data=d)
        if v != 0 and case['kind'] == 'gvor':
            d = list(case['data']); d[i] = 0
            yield dict(case, data=d)
