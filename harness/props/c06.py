"""C06 — convolve, convolve1d and gaussian_filter equal their defining sums in all six border modes."""
from __future__ import annotations
import json, warnings
import numpy as np
from .. import core, gen

ID = 'C06'
FOUNDATIONS = ['harness.foundation.filteriter', 'harness.foundation.pybody', 'harness.foundation.cscalar']   # see each foundation module's docstring
LEAN_TARGETS = ['Mahotas.Proofs.FilterIter']
LEVEL = 'proof'
MODES = ['nearest', 'wrap', 'reflect', 'mirror', 'constant', 'ignore']
DTYPES = ['float64', 'float32', 'int32', 'uint8', 'int8', 'int64', 'uint16', 'bool', 'int16', 'uint32', 'uint64']
DTN = {'float64': 'f64', 'float32': 'f32', 'bool': 'b1', 'uint8': 'u8', 'uint16': 'u16', 'uint32': 'u32',
       'uint64': 'u64', 'int8': 'i8', 'int16': 'i16', 'int32': 'i32', 'int64': 'i64'}
# dyadic sigmas: 4*sigma+0.5 is computed exactly in double, so int(4*sigma+0.5) has no rounding ambiguity - both the
# values far from the jumps (4*sigma integer) and the exact ties 4*sigma = m + 0.5 (where the truncation radius is decided
# by the rounding rule: m+1, for even and odd m alike)
SIGMAS = [0.25, 0.5, 0.75, 1.0, 1.25, 1.5, 2.0, 2.5, 3.0, 0.375, 0.625, 0.875, 1.125, 1.625, 2.625]
RULE = ('corpus; systematic 1-D sweep (axis lengths 1-5 x kernel lengths 1..10N+1 x 6 modes, distinct sample values); '
        'random 1-3 D x 8 dtypes x 7 layouts x kernels of every shape (odd/even, with zeros, asymmetric, larger than the '
        'image up to 10x the axis length, strided kernels) x 6 modes x every axis incl. negative; raw fast-path entry point '
        'against the write-sequence model; Gaussian: sigma grid x orders 0-3 x 6 modes, unit ramps; size-threshold stream: '
        'rows of 2^16 +- 1 and more pixels with 255-300 taps (Gaussian: sigma 64, 513 taps), judged with an exact vectorised '
        'numpy oracle of the defining sum whose agreement with the Lean specification is checked on the small convolve1d cases. '
        'Non-trivial = output differs from the input; distinct = distinct protocol line + layout.')
ASSUMPTIONS = ['weights are cast to the dtype of f first (documented: "If not of the same dtype as f, it is cast"); '
               'the defining sum is taken with the cast weights',
               'pixels whose exact result lies outside the dtype range are not compared (C++ double->integer cast undefined)',
               'array and kernel values are integers or dyadic fractions of small magnitude, so every double operation is exact '
               'and the comparison is bit-for-bit (as numbers: -0.0 == 0.0)',
               'Gaussian filters: comparison within 1e-11*(1+max|f|) (float64); float32: within 1 ulp of float32 of the model accumulator cast to float32 '
               '(+ 2 ulp at the data scale per further pass of the n-D filter); convolve/convolve1d: bit-for-bit for every dtype (float32 = the '
               'correctly rounded cast of the double accumulator), on data that includes +-2^24..2^26 mixed with units; sigma on a grid with '
               'dyadic values (4*sigma+0.5 exact in double, exact ties included); constant mode only with cval = 0 (the only value accepted)',
               'order-1 ramp response: |r - 1| < 5e-3 for sigma >= 1 at pixels farther than 4 sigma + 1 from the border',
               'no NaN/inf in arrays or kernels; sizes < 2^31']
TRUSTED = ['numpy (array construction, layout views)']
EXPLANATION = ('model = transliteration of convolve<T>, convolve1d<T> and the Python glue, run at Float by the native Lean '
               'driver; spec = the defining sum with borderSpec; theorems relate the same polymorphic definitions over any '
               'commutative semiring')


def _arr(case):
    return np.array(case['data'], dtype=np.float64).astype(case['dtype']).reshape(case['shape'])


def _line(case):
    k = case['kind']
    if k == 'laplacian':
        # laplacian_2D(array, alpha) = convolve(array as double, 3x3 weights(alpha), mode='nearest')
        # the weights are the model's `laplacianWeightsG` (sum 0: C06_laplacian_weights_sum_zero)
        return (f"c06 kind=laplacian dt=f64 mode=0 shape={gen.enc_shape(case['shape'])} "
                f"data={core.fmt_floats(_arr(case).astype(np.float64))} alpha={core.fmt_floats([float(case['alpha'])])}")
    if k == 'sobel':
        # sobel(img, just_filter=True): img as double, normalisation, two 3x3 convolutions (nearest), squares, sum
        return (f"c06 kind=sobel dt=f64 mode=0 shape={gen.enc_shape(case['shape'])} "
                f"data={core.fmt_floats(_arr(case).astype(np.float64))}")
    if k == 'dog':
        return (f"c06 kind=dog dt=f64 mode=0 shape={gen.enc_shape(case['shape'])} "
                f"data={core.fmt_floats(_arr(case).astype(np.float64))} sigma={core.fmt_floats([float(case['sigma'])])} "
                f"mult={core.fmt_floats([float(case['mult'])])}")
    dtn = DTN[case['dtype']]
    if k == 'gaussian' and np.dtype(case['dtype']).kind != 'f':
        dtn = 'f64'                                    # _as_floating_point_array: integers are converted to double
    base = (f"c06 kind={k} dt={dtn} mode={MODES.index(case['mode'])} "
            f"shape={gen.enc_shape(case['shape'])} data={core.fmt_floats(_arr(case).astype(np.float64))}")
    if k == 'convolve':
        return base + f" wshape={gen.enc_shape(case['wshape'])} w={core.fmt_floats(case['w'])}"
    if k in ('convolve1d', 'fastwrites'):
        return base + f" w={core.fmt_floats(case['w'])} axis={case.get('axis', 1)} contig={int(case.get('_contig', 1))}"
    if k == 'gaussian1d':
        return base + (f" sigma={core.fmt_floats([case['sigma']])} order={case['order']} axis={case['axis']} "
                       f"contig={int(case.get('_contig', 1))}")
    if k == 'gaussian':
        return (base + f" sigma={core.fmt_floats(case['sigma'])} order={gen.enc_arr(case['order'])}"
                + (' sform=scalar' if case.get('sigma_scalar') else '') + (' oform=scalar' if case.get('order_scalar') else ''))
    raise ValueError(k)


def _wlayout(w, layout):
    w = np.ascontiguousarray(w)
    if layout == 'strided':
        big = np.full(tuple(2 * s for s in w.shape), 7.0)
        v = big[tuple(slice(None, None, 2) for _ in w.shape)]
        v[...] = w
        return v
    if layout == 'negstride':
        r = np.ascontiguousarray(w[tuple(slice(None, None, -1) for _ in w.shape)])
        return r[tuple(slice(None, None, -1) for _ in w.shape)]
    if layout == 'F':
        return np.asfortranarray(w)
    return w


def _prepare(case):
    """arrays for the real call; sets case['_contig'] (which Python path convolve1d will take)"""
    A = _arr(case)
    Al = gen.relayout(A, case.get('layout', 'C'))
    case['_contig'] = bool(Al.flags.contiguous)
    return A, Al


def _call(case, Al, out=None):
    import mahotas as mh
    k = case['kind']
    okw = {} if out is None else {'out': out}
    with warnings.catch_warnings():
        warnings.simplefilter('ignore')
        if k == 'convolve':
            W = _wlayout(np.array(case['w'], np.float64).reshape(case['wshape']), case.get('wlayout', 'C'))
            return mh.convolve(Al, W, mode=case['mode'], **okw)
        if k == 'convolve1d':
            W = _wlayout(np.array(case['w'], np.float64), case.get('wlayout', 'C'))
            return mh.convolve1d(Al, W, case['axis'], mode=case['mode'], **okw)
        if k == 'fastwrites':
            from mahotas import _convolve
            out = np.full(Al.shape, 77, Al.dtype)
            _convolve.convolve1d(Al, np.array(case['w'], np.float64), out, MODES.index(case['mode']))
            return out
        if k == 'laplacian':
            return mh.laplacian_2D(Al, case['alpha'])
        if k == 'gaussian1d':
            return mh.gaussian_filter1d(Al, case['sigma'], case['axis'], case['order'], mode=case['mode'], **okw)
        if k == 'gaussian':
            # `_normalize_sequence`: a scalar stands for the same value on every axis
            sg = case['sigma'][0] if case.get('sigma_scalar') else (tuple(case['sigma']) if case.get('as_tuple') else case['sigma'])
            od = case['order'][0] if case.get('order_scalar') else (tuple(case['order']) if case.get('as_tuple') else case['order'])
            return mh.gaussian_filter(Al, sg, od, mode=case['mode'], **okw)
        if k == 'sobel':
            return mh.sobel(Al, just_filter=True)
        if k == 'dog':
            return mh.dog(Al, case['sigma'], case['mult'], just_filter=True)
    raise ValueError(k)


def _range(dtype):
    dt = np.dtype(dtype)
    if dt.kind == 'f':
        return -np.inf, np.inf
    if dt.kind == 'b':
        return 0, 1
    ii = np.iinfo(dt)
    return float(ii.min), float(ii.max)


def _border_index(x, n, mode):
    """`borderSpec` of Model/Border.lean on an integer array of coordinates: (index, valid)"""
    if mode == 'nearest':
        return np.clip(x, 0, n - 1), np.ones(x.shape, bool)
    if mode == 'wrap':
        return x % n, np.ones(x.shape, bool)
    if mode == 'reflect':
        m = x % (2 * n)
        return np.where(m < n, m, 2 * n - 1 - m), np.ones(x.shape, bool)
    if mode == 'mirror':
        if n <= 1:
            return np.zeros_like(x), np.ones(x.shape, bool)
        m = x % (2 * n - 2)
        return np.where(m < n, m, 2 * n - 2 - m), np.ones(x.shape, bool)
    ok = (x >= 0) & (x < n)                          # constant (cval = 0) / ignore: the sample contributes nothing
    return np.where(ok, x, 0), ok


def _oracle_conv1d(A, w, axis, mode):
    """exact vectorised oracle for the size-threshold stream (the Lean driver builds position lists: too slow for 10^5
    pixels x 257 taps): sum_j w[j] * f[border(x + j - len(w)//2)] along `axis`, accumulated in double in footprint
    order (all values are small integers: every double operation is exact). Its agreement with the Lean specification is
    established on the small random convolve1d cases of every run."""
    A = np.moveaxis(np.asarray(A, np.float64), axis, -1)
    n = A.shape[-1]
    acc = np.zeros(A.shape, np.float64)
    x = np.arange(n)
    c = len(w) // 2
    for j, wj in enumerate(w):
        if wj == 0:
            continue
        idx, ok = _border_index(x + j - c, n, mode)
        acc += np.where(ok, A[..., idx], 0.0) * float(wj)
    return np.moveaxis(acc, -1, axis)


def _eval_big(case):
    import mahotas as mh
    rs = np.random.RandomState(case['seed'])
    shape, axis, dt = case['shape'], case['axis'], np.dtype(case['dtype'])
    A = rs.randint(0, 4, size=shape).astype(dt)
    if dt.kind == 'f':
        A = A - 1
    w = rs.randint(0, 3, size=case['taps']).astype(np.float64)
    w[0], w[-1] = 1.0, 2.0                        # the two extreme taps take part
    if dt.kind == 'f' or dt.kind == 'i':
        w[case['taps'] // 2] = -1.0
    mode = case['mode']
    want = _oracle_conv1d(A, w, axis, mode)
    lo, hi = _range(dt)
    ok = (want >= lo) & (want <= hi)                 # integer-valued accumulators: the cast is the identity where defined
    f = []
    fn = case['fn']
    if fn == 'convolve1d':
        got = mh.convolve1d(A, w, axis, mode=mode)
    elif fn == 'convolve':
        ws = [1] * len(shape); ws[axis] = len(w)
        got = mh.convolve(A, w.reshape(ws), mode=mode)
    else:                                            # gaussian_filter1d: weights from the Lean driver, summed by the oracle
        sigma = case['sigma']
        gw = core.floats(core.drive([f"c06 kind=gaussw sigma={core.fmt_floats([sigma])} order={case['order']} dt=f64 mode=0 shape=1 data=0"])[0]['w'])
        want = _oracle_conv1d(A, gw, axis, mode)
        got = mh.gaussian_filter1d(A.astype(np.float64), sigma, axis, case['order'], mode=mode)
        bad = np.nonzero(~(np.abs(got - want) <= 1e-10 * 4).ravel())[0]
        if got.shape != want.shape or bad.size:
            f.append(dict(kind='property', key='gaussian1d:size-threshold', detail=dict(first_bad=bad[:5].tolist(), taps=len(gw))))
        return f, len(gw)
    g = np.asarray(got, np.float64)
    bad = np.nonzero((ok & (g != want)).ravel())[0]
    if got.shape != want.shape or got.dtype != dt or bad.size:
        f.append(dict(kind='property', key=f'{fn}:size-threshold',
                      detail=dict(first_bad=bad[:5].tolist(), got=g.ravel()[bad[:5]].tolist(), spec=want.ravel()[bad[:5]].tolist())))
    return f, len(w)


def _defined(drv, n):
    d = drv.get('defined')
    ok = np.ones(n, bool) if d is None else np.array([c == '1' for c in d.split(',')] if d else [], bool)
    if drv.get('wdef') == '0':
        ok = np.zeros(n, bool)
    return ok


def _judge(case, got, drv):
    out = []
    k = case['kind']
    if 'error' in drv:
        raise core.Infra('driver: ' + drv['error'])
    if drv.get('raises') == 'ValueError':
        # a sigma / order sequence whose length is not the rank: `_normalize_sequence` must raise ValueError (model: none)
        if got is not None or 'ValueError' not in case.get('_error', ''):
            return [dict(kind='model', key='gaussian:normalize-sequence', detail=dict(error=case.get('_error', ''), returned=got is not None))]
        return []
    if got is None:
        return [dict(kind='property', key=f'{k}:raises', detail=dict(error=case.get('_error', '')))]   # every input of the domain is valid
    A = _arr(case)
    want_dt = A.dtype
    if k in ('laplacian', 'sobel', 'dog') or (k == 'gaussian' and A.dtype.kind != 'f'):
        want_dt = np.dtype(np.float64)
    if got.shape != A.shape or got.dtype != want_dt:
        return [dict(kind='property', key=f'{k}:shape-dtype', detail=dict(shape=list(got.shape), dtype=str(got.dtype)))]
    g = np.asarray(got, dtype=np.float64).ravel(order='C')
    model = core.floats(drv.get('model', ''))
    path = drv.get('path', 'generic')
    case['_path'] = path
    if k == 'sobel':
        # integer data with a power-of-two range: every double operation is exact, so bit-for-bit. Not in the statement
        # (edge.py is built from the C06 kernels): a disagreement is a broken tie of the composition model
        bad = np.nonzero(g != model)[0]
        if bad.size:
            out.append(dict(kind='model', key='sobel-model', detail=dict(pixels=bad[:8].tolist(), got=g.tolist(), model=model.tolist())))
        return out
    if k == 'dog':
        scale = 1.0 + float(np.max(np.abs(A))) if A.size else 1.0
        bad = np.nonzero(~(np.abs(g - model) <= 1e-11 * scale))[0]
        if bad.size:
            out.append(dict(kind='model', key='dog-model', detail=dict(pixels=bad[:8].tolist(), got=g.tolist(), model=model.tolist())))
        return out
    if k in ('gaussian1d', 'gaussian'):
        scale = 1.0 + float(np.max(np.abs(A))) if A.size else 1.0
        tol = 1e-11 * scale              # float64 output: the weights go through exp and numpy's pairwise sum
        if A.dtype == np.float32:
            # float32 output: `model` is the model's double accumulator cast to float32 (round to nearest even, as the C cast).
            # The real value is the cast of a double accumulator that differs from the model's by <= 1e-11*scale, so it is the
            # same float32 or a neighbour: within 1 ulp of float32 at the model value (plus the double-level floor); for the
            # n-D filter every further pass can move an intermediate float32 by one ulp at the scale of the data
            with np.errstate(all='ignore'):
                ulp = np.spacing(np.abs(model).astype(np.float32)).astype(np.float64)
                extra = (len(case['shape']) - 1) * 2.0 * float(np.spacing(np.float32(scale))) if k == 'gaussian' else 0.0
            tol = np.maximum(ulp, 1e-11 * scale) + extra
        err = np.abs(g - model)
        bad = np.nonzero(~(err <= tol))[0]
        if bad.size:
            od = case['order'] if k == 'gaussian1d' else max(case['order'])
            out.append(dict(kind='property', key=f'{k}:order{od}',
                            detail=dict(pixels=bad[:8].tolist(), got=g.tolist(), model=model.tolist(), tol=tol, path=path)))
        return out
    if k == 'fastwrites':
        if int(drv['unwritten']) != 0 or sorted(core.ints(drv['xs'])) != list(range(case['shape'][1])):
            out.append(dict(kind='model', key='fastwrites:coverage', detail=dict(xs=drv['xs'], unwritten=drv['unwritten'])))
        m = core.floats(drv['out'])
        ok = _defined(drv, m.size)
        case['_skipped'] = int((~ok).sum())
        bad = np.nonzero(ok & (g != m))[0]
        if bad.size:
            out.append(dict(kind='model', key='fastwrites:value',
                            detail=dict(pixels=bad[:8].tolist(), got=g.tolist(), model=m.tolist())))
        return out
    spec = core.floats(drv['spec'])
    if k == 'convolve1d' and A.size and drv.get('wdef') != '0' and A.dtype.kind != 'b' and np.isfinite(spec).all():
        # the numpy oracle of the size-threshold stream must agree with the Lean specification on the small cases
        # (before the cast: compared where the cast is the identity, i.e. integer-valued accumulators in range)
        with np.errstate(all='ignore'):
            wc = np.array(case['w'], np.float64).astype(A.dtype).astype(np.float64)
        o = _oracle_conv1d(A, wc, case['axis'] % A.ndim, case['mode']).ravel()
        same = (o == np.trunc(o)) & _defined(drv, spec.size) & (np.abs(o) < 2 ** 24)
        if A.dtype.kind != 'f' and (o[same] != spec[same]).any():
            raise core.Infra('C06: the numpy oracle of the size-threshold stream disagrees with the Lean spec on ' + str(case)[:300])
    lo, hi = _range(case['dtype'] if k != 'laplacian' else 'float64')
    # which cells are compared is decided by the Lean model of the C cast (`castDefined`: the truncated accumulator is
    # representable; C06_cast_in_range) - everywhere else `static_cast<T>(double)` is undefined behaviour. A weight whose
    # own cast to f.dtype is undefined (`wdef=0`) puts the whole call outside the documented domain.
    ok = _defined(drv, spec.size)
    if not np.array_equal(ok & np.isfinite(spec), ok & (spec >= lo) & (spec <= hi)):
        raise core.Infra('C06: castDefined disagrees with the dtype range: ' + str(case)[:300])
    case['_skipped'] = int((~ok).sum())
    if drv.get('wdef') == '0':
        case['_wundef'] = 1
    bad = np.nonzero(ok & (g != spec))[0]
    if bad.size:
        out.append(dict(kind='property', key=f'{k}:{path}',
                        detail=dict(pixels=bad[:8].tolist(), got=g.tolist(), spec=spec.tolist(), path=path,
                                    mode=case['mode'])))
    else:
        okm = ok
        badm = np.nonzero(okm & (g != model))[0]
        if badm.size:
            out.append(dict(kind='model', key=f'{k}-model:{path}',
                            detail=dict(pixels=badm[:8].tolist(), got=g.tolist(), model=model.tolist(), path=path)))
    return out


def _ramp(case):
    """the statement's anchor: order 1 on a unit ramp yields +1 (away from the border)"""
    import mahotas as mh
    n, sigma, ndim, axis = case['n'], case['sigma'], case['ndim'], case['axis']
    shape = [3] * ndim
    shape[axis] = n
    idx = [None] * ndim
    idx[axis] = slice(None)
    A = np.zeros(shape, case['dtype']) + np.arange(n, dtype=case['dtype'])[tuple(idx)] * case.get('slope', 1)
    A = gen.relayout(A, case.get('layout', 'C'))
    findings = []
    try:
        with warnings.catch_warnings():
            warnings.simplefilter('ignore')
            if case.get('via', '1d') == '1d':
                r = mh.gaussian_filter1d(A, sigma, axis if not case.get('neg') else axis - ndim, 1, mode=case['mode'])
            else:
                order = [0] * ndim
                order[axis] = 1
                r = mh.gaussian_filter(A, sigma, order, mode=case['mode'])
    except Exception as e:
        return [dict(kind='property', key='ramp:raises', detail=dict(error=repr(e)))]
    m = int(4 * sigma + 0.5) + 1
    sl = [slice(None)] * ndim
    sl[axis] = slice(m, n - m)
    inner = np.asarray(r, np.float64)[tuple(sl)]
    want = float(case.get('slope', 1))
    if inner.size and not np.all(np.abs(inner - want) < 5e-3 * abs(want)):
        findings.append(dict(kind='property', key='gaussian:order1-sign',
                             detail=dict(response=float(inner.ravel()[0]), expected=want, sigma=sigma)))
    return findings


def evaluate(cases):
    res = []
    plain = [c for c in cases if c['kind'] not in ('ramp', 'big')]
    prepared = {}
    lines = []
    for c in plain:
        prepared[id(c)] = _prepare(c)
        lines.append(_line(c))
    drvs = dict(zip([id(c) for c in plain], core.drive(lines)))
    lns = dict(zip([id(c) for c in plain], lines))
    for case in cases:
        if case['kind'] == 'big':
            f, taps = _eval_big(case)
            for x in f:
                x['case'] = case
            res.append(dict(findings=f, nontrivial=True, sig=json.dumps(case, sort_keys=True),
                            tags=dict(kind=case['fn'], mode=case['mode'], ndim=len(case['shape']), dtype=case['dtype'],
                                      size='threshold', kernel='taps>=256' if taps >= 256 else 'taps<256')))
            continue
        if case['kind'] == 'ramp':
            f = _ramp(case)
            res.append(dict(findings=f, nontrivial=True, sig=json.dumps(case, sort_keys=True),
                            tags=dict(kind='ramp', mode=case['mode'], ndim=case['ndim'], dtype=case['dtype'])))
            continue
        A, Al = prepared[id(case)]
        before = Al.copy()
        try:
            got = _call(case, Al)
        except Exception as e:
            got = None
            case['_error'] = repr(e)
        f = _judge(case, got, drvs[id(case)])
        if not np.array_equal(before, Al):
            f.append(dict(kind='property', key='input-modified', detail={}))
        if got is not None and case.get('outmode') and case['kind'] in ('convolve', 'convolve1d', 'gaussian', 'gaussian1d'):
            # the same call with out= (the statement fixes the value of every call): filtered in place (out is the image itself)
            # or into a pre-dirtied buffer of the result's dtype and shape; must equal the out-less result judged above
            g0 = np.asarray(got)
            try:
                if case['outmode'] == 'inplace' and g0.dtype == Al.dtype and g0.shape == Al.shape:
                    buf = np.ascontiguousarray(Al).copy()
                    r2 = _call(case, buf, out=buf)
                elif case['outmode'] == 'dirty':
                    buf = np.full(g0.shape, 37, g0.dtype)
                    r2 = _call(case, Al, out=buf)
                else:
                    r2 = buf = None
                if r2 is not None and not (np.array_equal(np.asarray(r2), g0, equal_nan=True) and np.array_equal(buf, g0, equal_nan=True)):
                    f.append(dict(kind='property', key=f"{case['kind']}:out={case['outmode']}", detail=dict(
                        with_out=np.asarray(buf, np.float64).ravel()[:12].tolist(), without_out=g0.astype(np.float64).ravel()[:12].tolist())))
            except Exception as e:  # a documented out buffer must be accepted
                f.append(dict(kind='property', key=f"{case['kind']}:out={case['outmode']}:raises", detail=dict(exc=repr(e)[:200])))
        w = case.get('w')
        ws = case.get('wshape') or ([len(w)] if w is not None else [])
        ax = case.get('axis')
        klass = 'none'
        if ws:
            dims = case['shape'] if case['kind'] == 'convolve' else [case['shape'][ax]] if ax is not None else []
            klass = ('larger' if any(a >= b for a, b in zip(ws, dims)) else 'even' if any(a % 2 == 0 for a in ws) else 'odd')
        tags = dict(kind=case['kind'], dtype=case['dtype'], ndim=len(case['shape']), layout=case.get('layout', 'C'),
                    mode=case['mode'], path=case.get('_path', 'generic'), kernel=klass, values=case.get('values', 'small'))
        if ax is not None:
            tags['axis'] = 'neg' if ax < 0 else 'pos'
        if case.get('_skipped'):
            tags['overflow_pixels_skipped'] = 'yes'
        if case.get('_wundef'):
            tags['weights_cast_undefined'] = 'yes'
        clean = {k: v for k, v in case.items() if not k.startswith('_')}
        for x in f:
            x['case'] = clean
        res.append(dict(findings=f, nontrivial=bool(got is not None and not np.array_equal(np.asarray(got), A)),
                        sig=lns[id(case)] + case.get('layout', 'C') + case.get('wlayout', 'C'), tags=tags))
    return res


def _corpus():
    d = core.VERIF / 'corpus' / ID
    out = []
    if d.exists():
        for p in sorted(d.glob('*.json')):
            out.append(json.loads(p.read_text())['case'])
    return out


def _values(rng, n, dtype):
    dt = np.dtype(dtype)
    if dt.kind == 'b':
        return [int(rng.random() < 0.5) for _ in range(n)]
    if dt.kind in 'ui' and dt.itemsize <= 2 and rng.random() < 0.15:
        # values at the limits of a narrow dtype: accumulators beyond the range (skipped cells) next to cells just inside
        ii = np.iinfo(dt)
        pool = [int(ii.max), int(ii.max) - 1, int(ii.max) // 2, 0, 1] + ([int(ii.min), int(ii.min) + 1, -1] if ii.min < 0 else [])
        return [rng.choice(pool) for _ in range(n)]
    if dt.kind == 'u':
        return [rng.randint(0, 9) for _ in range(n)]
    if dt.kind == 'i':
        return [rng.randint(-6, 9) for _ in range(n)]
    if rng.random() < 0.15:
        # cancellation-heavy data: +-2^24..2^26 mixed with small numbers. Every product with a small dyadic weight and every
        # partial sum is exact in double, but a single-precision accumulator loses the small terms (2^25 + 1 - 2^25 = 0),
        # so it cannot hide in a tolerance; the final cast to float32 is the correctly rounded one
        pool = [2.0 ** 24, -2.0 ** 24, 2.0 ** 25, -2.0 ** 25, 2.0 ** 26, -2.0 ** 26, 1.0, -1.0, 3.0, 0.5, 1.0, 0.0]
        return [rng.choice(pool) for _ in range(n)]
    if rng.random() < 0.3:
        return [rng.randint(-24, 36) / 4.0 for _ in range(n)]
    return [float(rng.randint(-6, 9)) for _ in range(n)]


def _weights(rng, n, dtype):
    dt = np.dtype(dtype)
    style = rng.random()
    out = []
    for _ in range(n):
        u = rng.random()
        if u < 0.25:
            out.append(0.0)
        elif style < 0.15 and dt.kind != 'f':
            # fractional weights on an integer image: the cast truncates; mostly non-negative for unsigned images (a weight
            # below -1 has no defined cast there: the case is then void, tagged weights_cast_undefined)
            out.append((rng.randint(-3, 9) if dt.kind in 'ub' and rng.random() < 0.9 else rng.randint(-9, 9)) / 4.0)
        elif dt.kind == 'f' and style < 0.4:
            out.append(rng.randint(-12, 12) / 4.0)
        elif dt.kind in 'ub':
            out.append(float(rng.randint(0, 3)))
        else:
            out.append(float(rng.randint(-3, 3)))
    return out


def _klen(rng, n):
    r = rng.random()
    if r < 0.35:
        return rng.choice([1, 2, 3, 4, 5])
    if r < 0.55:
        return max(1, n + rng.choice([-1, 0, 1]))
    if r < 0.75:
        return rng.randint(1, 9)
    return rng.randint(2 * n, 10 * n + 1)              # deep into the reflect/mirror/wrap periods


def cases(rng, tier):
    out = list(_corpus()) if tier != 'search' else []
    nrand = dict(quick=8000, thorough=150000, search=20000)[tier]
    # systematic 1-D sweep
    sweep = []
    for n in range(1, 6):
        for nf in range(1, 10 * n + 2):
            for mode in MODES:
                sweep.append(dict(kind='convolve', dtype='float64', shape=[n], data=[float(1 + i + 7 * i * i) for i in range(n)],
                                  wshape=[nf], w=[float(j + 1) for j in range(nf)], mode=mode, layout='C'))
    for n in range(2, 8):
        for nf in range(1, n):
            for mode in MODES:
                sweep.append(dict(kind='fastwrites', dtype='float64', shape=[2, n],
                                  data=[float(1 + i + 7 * i * i) for i in range(2 * n)],
                                  w=[float(j + 1) for j in range(nf)], mode=mode, layout='C'))
                for axis in (0, 1, -1, -2):
                    sweep.append(dict(kind='convolve1d', dtype='float64', shape=[n, n] if axis in (0, -2) else [2, n],
                                      data=[float(1 + i + 3 * i * i) for i in range(n * n if axis in (0, -2) else 2 * n)],
                                      w=[float(j + 1) for j in range(nf)], axis=axis, mode=mode,
                                      layout='C'))
    if tier == 'thorough':
        out += sweep
    else:
        out += rng.sample(sweep, 500 if tier == 'quick' else 1500)
    # ramps (the statement's anchor for derivative orders)
    for sigma in (1.0, 1.5, 2.0, 3.0):
        for ndim, axis in ((1, 0), (2, 0), (2, 1), (3, 1)):
            via = rng.choice(['1d', 'nd'])
            # constant/ignore drop (do not renormalise) samples: along the *other*, short axes that scales the response
            out.append(dict(kind='ramp', dtype='float64', sigma=sigma, ndim=ndim, axis=axis, n=int(8 * sigma) + 12,
                            mode=rng.choice(MODES if via == '1d' or ndim == 1 else MODES[:4]), via=via, neg=rng.random() < 0.5,
                            slope=rng.choice([1, 1, 2, -3]), layout=rng.choice(['C', 'F', 'strided'])))
    # size-threshold stream: rows of 2^16 +- 1 and more pixels, kernels crossing 256 taps (a row index, tap counter or
    # offset narrowed to 8/16 bits passes every small case); judged with the exact numpy oracle `_oracle_conv1d`
    nbig = dict(quick=4, thorough=24, search=4)[tier]
    for i in range(nbig):
        n = rng.choice([65535, 65536, 65537, 65537, 70000 + rng.randrange(999)])
        taps = rng.choice([255, 256, 257, 257, 300])
        fn = ['convolve1d', 'convolve1d', 'convolve', 'gaussian1d'][i % 4]
        shape, axis = rng.choice([([n], 0), ([2, n], 1), ([n, 2], 0), ([1, n, 1], 1)])
        c = dict(kind='big', fn=fn, shape=shape, axis=axis, taps=taps, dtype=rng.choice(['float64', 'int32', 'uint16', 'uint8', 'float32']),
                 mode=rng.choice(MODES), seed=rng.randrange(10 ** 6))
        if fn == 'gaussian1d':
            c.update(dtype='float64', sigma=rng.choice([63.875, 64.0, 64.125]), order=rng.choice([0, 0, 1]))   # lw = 256 / 257: 513 / 515 taps
        out.append(c)
    # wide integer dtypes in the upper (and, signed, the lower) half of their range with kernels of sum 0 or 1: the defining sum
    # is in range and exactly representable (values are multiples of 2^12 for the 64-bit types), but any intermediate formed in
    # the image's own type (folded symmetric pairs f[x-k] + f[x+k], an integer accumulator) wraps around
    ZERO_ONE = [[1.0, -2.0, 1.0], [-1.0, 3.0, -1.0], [1.0, -1.0], [-1.0, 0.0, 1.0], [1.0, 0.0, -2.0, 0.0, 1.0],
                [-1.0, 1.0, 1.0], [2.0, -3.0, 2.0], [0.5, 0.0, 0.5], [1.0, -1.0, -1.0, 1.0], [-2.0, 5.0, -2.0]]
    for _ in range(dict(quick=60, thorough=600, search=120)[tier]):
        dtype = rng.choice(['int32', 'int64', 'uint32', 'uint64'])
        ii = np.iinfo(dtype)
        unit = 1 if ii.bits == 32 else 2 ** 12
        top = (int(ii.max) // unit) * unit
        lowhalf = ii.min < 0 and rng.random() < 0.3
        base = (-(top - 8 * unit) if lowhalf else top - 8 * unit * rng.choice([1, 1, 2, 16]))
        w = list(rng.choice(ZERO_ONE))
        if rng.random() < 0.5:
            shape = [rng.choice([1, 2, 3]), len(w) + rng.randint(1, 6)]
            axis = rng.choice([1, -1])
        else:
            shape = [len(w) + rng.randint(1, 6)]
            axis = rng.choice([0, -1])
        n = int(np.prod(shape))
        data = [base + (-1 if lowhalf else 1) * unit * rng.randint(0, 7) for _ in range(n)]
        kind = rng.choice(['convolve1d', 'convolve1d', 'convolve'])
        c = dict(kind=kind, dtype=dtype, shape=shape, data=data, mode=rng.choice(MODES[:4]),
                 layout=rng.choice(['C', 'C', 'C', 'F', 'strided']), wlayout='C', values='wide-range')
        if kind == 'convolve1d':
            c.update(w=w, axis=axis)
        else:
            c.update(w=w, wshape=([1] * (len(shape) - 1)) + [len(w)])
        out.append(c)
    n_before_random = len(out)
    for _ in range(nrand):
        r = rng.random()
        dtype = rng.choice(DTYPES)
        mode = rng.choice(MODES)
        layout = rng.choice(gen.LAYOUTS)
        if r < 0.40:
            shape = list(gen.small_shape(rng, maxlen=6))
            wshape = [_klen(rng, s) if rng.random() < 0.8 else 1 for s in shape]
            while int(np.prod(wshape)) > 400:
                wshape[wshape.index(max(wshape))] = max(1, max(wshape) // 2)
            out.append(dict(kind='convolve', dtype=dtype, shape=shape, data=_values(rng, int(np.prod(shape)), dtype),
                            wshape=wshape, w=_weights(rng, int(np.prod(wshape)), dtype), mode=mode, layout=layout,
                            wlayout=rng.choice(['C', 'C', 'F', 'strided', 'negstride'])))
        elif r < 0.80:
            shape = list(gen.small_shape(rng, maxlen=9, bias=(1, 2, 3, 5, 8)))
            nd = len(shape)
            axis = rng.randrange(-nd, nd)
            nf = _klen(rng, shape[axis])
            if shape[axis] >= 2 and rng.random() < 0.45:
                nf = rng.randint(1, shape[axis] - 1)        # the Python guard of the fast path
            out.append(dict(kind='convolve1d', dtype=dtype, shape=shape, data=_values(rng, int(np.prod(shape)), dtype),
                            w=_weights(rng, nf, dtype), axis=axis, mode=mode,
                            layout=layout if rng.random() < 0.5 else 'C',
                            wlayout=rng.choice(['C', 'C', 'C', 'strided', 'negstride'])))
        elif r < 0.83:
            shape = [rng.choice([1, 2, 3, 4, 6]), rng.choice([1, 2, 3, 5])]
            out.append(dict(kind='laplacian', dtype=dtype, shape=shape, data=_values(rng, int(np.prod(shape)), dtype),
                            alpha=rng.choice([0, 1, 0.0, 1.0, -2, 3]), mode='nearest', layout=layout))   # dyadic weights
        elif r < 0.845:
            # edge.sobel / edge.dog (just_filter=True): compositions of the C06 kernels
            shape = [rng.randint(1, 7), rng.randint(1, 7)]
            n = shape[0] * shape[1]
            if rng.random() < 0.7:
                k = rng.choice([0, 1, 2, 3, 4, 6])
                lo = rng.choice([0, 0, -5, 3, 100])
                if dtype == 'bool':
                    k, lo = 0, 0
                elif np.dtype(dtype).kind == 'u' or np.dtype(dtype).itemsize == 1:
                    lo = abs(lo) % 50
                style = rng.random()
                if style < 0.25 and shape[0] * shape[1] > 1:          # an affine ramp a*y + b*x (+ lo), range a power of two when possible
                    a, b = rng.choice([(1, 0), (0, 1), (1, 1), (2, 1), (0, 2)])
                    data = [lo + a * y + b * x for y in range(shape[0]) for x in range(shape[1])]
                    if dtype == 'bool':
                        data = [int(v > 0) for v in data]
                else:
                    data = [lo + rng.randint(0, 2 ** k) for _ in range(n)]
                    if n >= 2 and style < 0.9:
                        i, j = rng.sample(range(n), 2)
                        data[i], data[j] = lo, lo + 2 ** k           # ptp = 2^k exactly: the normalisation is exact
                ptp = max(data) - min(data)
                if ptp & (ptp - 1):                                    # not a power of two: x/ptp is rounded, then not bit-exact
                    data = [min(v, min(data) + (1 << (ptp.bit_length() - 1))) for v in data]
                out.append(dict(kind='sobel', dtype=dtype if dtype != 'float32' else 'float64', shape=shape, data=[float(v) for v in data],
                                mode='nearest', layout=layout))
            else:
                out.append(dict(kind='dog', dtype=rng.choice(['float64', 'uint8', 'int32']), shape=shape,
                                data=[float(rng.randint(0, 9)) for _ in range(n)], sigma=rng.choice([0.5, 1.0, 2.0, 1.5]),
                                mult=rng.choice([1.001, 1.5, 2.0]), mode='nearest', layout=layout))
        elif r < 0.87:
            n1 = rng.randint(2, 9)
            shape = [rng.randint(1, 3), n1]
            out.append(dict(kind='fastwrites', dtype=dtype, shape=shape, data=_values(rng, int(np.prod(shape)), dtype),
                            w=_weights(rng, rng.randint(1, n1 - 1), dtype), mode=mode, layout='C'))
        else:
            fdt = rng.choice(['float64', 'float64', 'float32'])
            nd = rng.choice([1, 2, 2, 3])
            shape = [rng.choice([1, 2, 3, 5, 8, 13, 17, 30]) for _ in range(nd)]
            while int(np.prod(shape)) > 1500:
                shape[shape.index(max(shape))] //= 2
            data = _values(rng, int(np.prod(shape)), fdt)
            if rng.random() < 0.6:
                out.append(dict(kind='gaussian1d', dtype=fdt, shape=shape, data=data, sigma=rng.choice(SIGMAS),
                                order=rng.randint(0, 3), axis=rng.randrange(-nd, nd), mode=mode, layout=layout))
            else:
                same = rng.random() < 0.4
                gdt = rng.choice([fdt, fdt, 'uint8', 'int32'])
                out.append(dict(kind='gaussian', dtype=gdt, shape=shape, data=_values(rng, int(np.prod(shape)), gdt),
                                sigma=[rng.choice(SIGMAS)] * nd if same else [rng.choice(SIGMAS) for _ in range(nd)],
                                order=[rng.randint(0, 3) for _ in range(nd)], mode=mode, layout=layout))
                c = out[-1]
                # the Python argument forms `_normalize_sequence` accepts: scalar (same on every axis), list, tuple
                if len(set(c['sigma'])) == 1 and rng.random() < 0.6:
                    c['sigma_scalar'] = True
                if rng.random() < 0.4:
                    c['order'] = [c['order'][0]] * nd
                    c['order_scalar'] = True
                c['as_tuple'] = rng.random() < 0.5
                if rng.random() < 0.06:
                    # a sequence of the wrong length: ValueError from `_normalize_sequence`
                    which = rng.choice(['sigma', 'order'])
                    c.pop('sigma_scalar', None) if which == 'sigma' else c.pop('order_scalar', None)
                    c[which] = (c[which] + [c[which][0]]) if rng.random() < 0.5 or nd == 1 else c[which][:-1]
    # a share of the filter calls is repeated with out= (in place on a C-contiguous copy of the image, or into a dirty buffer)
    for c in out[n_before_random:]:
        if isinstance(c, dict) and c.get('kind') in ('convolve', 'convolve1d', 'gaussian', 'gaussian1d') and rng.random() < 0.25:
            c['outmode'] = rng.choice(['inplace', 'inplace', 'dirty'])
    # in-place Gaussian filtering of 1-D signals and of images whose first axis is shorter than the kernel
    for _ in range(dict(quick=30, thorough=300, search=60)[tier]):
        nd = rng.choice([1, 1, 2])
        sigma = rng.choice([1.0, 1.5, 2.0])
        shape = [rng.randint(3, 40)] if nd == 1 else [rng.randint(2, 9), rng.randint(12, 60)]
        n = int(np.prod(shape))
        out.append(dict(kind='gaussian', dtype='float64', shape=shape, data=[float(rng.randint(0, 255)) for _ in range(n)],
                        sigma=[sigma] * nd, order=[0] * nd, mode=rng.choice(MODES[:4]), layout='C', outmode='inplace'))
    return out


def shrink(case):
    k = case['kind']
    if k in ('ramp', 'big'):
        return
    shape, data = case['shape'], case['data']
    A = np.array(data, dtype=np.float64).reshape(shape)
    for ax in range(len(shape)):
        if shape[ax] > 1:
            for j in (shape[ax] - 1, 0):
                B = np.delete(A, j, axis=ax)
                if k == 'fastwrites' and B.shape[1] <= len(case['w']):
                    continue
                yield dict(case, shape=list(B.shape), data=B.ravel().tolist())
    if case.get('layout', 'C') != 'C':
        yield dict(case, layout='C')
    if case.get('wlayout', 'C') != 'C':
        yield dict(case, wlayout='C')
    if k in ('convolve1d', 'fastwrites') and len(case['w']) > 1:
        yield dict(case, w=case['w'][:-1])
        yield dict(case, w=case['w'][1:])
    if k == 'convolve':
        W = np.array(case['w'], np.float64).reshape(case['wshape'])
        for ax in range(W.ndim):
            if W.shape[ax] > 1:
                for j in (W.shape[ax] - 1, 0):
                    B = np.delete(W, j, axis=ax)
                    yield dict(case, wshape=list(B.shape), w=B.ravel().tolist())
    for i, v in enumerate(data):
        if v not in (0, 1):
            d = list(data); d[i] = 1 if v > 0 else 0
            yield dict(case, data=d)
    if 'w' in case:
        for i, v in enumerate(case['w']):
            if v not in (0.0, 1.0):
                w = list(case['w']); w[i] = 1.0
                yield dict(case, w=w)
