"""C06 — convolve, convolve1d and gaussian_filter equal their defining sums in all six border modes."""
from __future__ import annotations
import json, warnings
import numpy as np
from .. import core, gen

ID = 'C06'
FOUNDATIONS = ['harness.foundation.filteriter', 'harness.foundation.cscalar']   # the models use the closed form proved by F6 (filterIter_refines)
LEAN_TARGETS = ['Mahotas.Proofs.FilterIter']
LEVEL = 'proof'
MODES = ['nearest', 'wrap', 'reflect', 'mirror', 'constant', 'ignore']
DTYPES = ['float64', 'float32', 'int32', 'uint8', 'int8', 'int64', 'uint16', 'bool']
DTN = {'float64': 'f64', 'float32': 'f32', 'bool': 'b1', 'uint8': 'u8', 'uint16': 'u16', 'uint32': 'u32',
       'uint64': 'u64', 'int8': 'i8', 'int16': 'i16', 'int32': 'i32', 'int64': 'i64'}
# dyadic sigmas: 4*sigma+0.5 is computed exactly in double, so int(4*sigma+0.5) has no rounding ambiguity - both the
# values far from the jumps (4*sigma integer) and the exact ties 4*sigma = m + 0.5 (where the truncation radius is decided
# by the rounding rule: m+1, for even and odd m alike)
SIGMAS = [0.25, 0.5, 0.75, 1.0, 1.25, 1.5, 2.0, 2.5, 3.0, 0.375, 0.625, 0.875, 1.125, 1.625, 2.625]
RULE = ('corpus; systematic 1-D sweep (axis lengths 1-5 x kernel lengths 1..10N+1 x 6 modes, distinct sample values); '
        'random 1-3 D x 8 dtypes x 7 layouts x kernels of every shape (odd/even, with zeros, asymmetric, larger than the '
        'image up to 10x the axis length, strided kernels) x 6 modes x every axis incl. negative; raw fast-path entry point '
        'against the write-sequence model; Gaussian: sigma grid x orders 0-3 x 6 modes, unit ramps. '
        'Non-trivial = output differs from the input; distinct = distinct protocol line + layout.')
ASSUMPTIONS = ['weights are cast to the dtype of f first (documented: "If not of the same dtype as f, it is cast"); '
               'the defining sum is taken with the cast weights',
               'pixels whose exact result lies outside the dtype range are not compared (C++ double->integer cast undefined)',
               'array and kernel values are integers or dyadic fractions of small magnitude, so every double operation is exact '
               'and the comparison is bit-for-bit (as numbers: -0.0 == 0.0)',
               'Gaussian filters: comparison within 1e-11*(1+max|f|) (float64) / 1e-5 relative (float32); sigma on a grid with '
               'dyadic values (4*sigma+0.5 exact in double, exact ties included); constant mode only with cval = 0 (the only value accepted)',
               'order-1 ramp response: |r - 1| < 5e-3 for sigma >= 1 at pixels farther than 4 sigma + 1 from the border',
               'no NaN/inf in arrays or kernels; sizes < 2^31']
TRUSTED = ['numpy (array construction, layout views)']
EXPLANATION = ('model = transliteration of convolve<T>, convolve1d<T> and the Python glue, run at Float by the native Lean '
               'driver; spec = the defining sum with borderSpec; theorems relate the same polymorphic definitions over any '
               'commutative semiring')


def _arr(case):
    return np.array(case['data'], dtype=np.float64).astype(case['dtype']).reshape(case['shape'])


def _line(case):
    k = case['kind']
    if k == 'laplacian':
        # laplacian_2D(array, alpha) = convolve(array as double, 3x3 weights(alpha), mode='nearest')
        # the weights are the model's `laplacianWeightsG` (sum 0: C06_laplacian_weights_sum_zero)
        return (f"c06 kind=laplacian dt=f64 mode=0 shape={gen.enc_shape(case['shape'])} "
                f"data={core.fmt_floats(_arr(case).astype(np.float64))} alpha={core.fmt_floats([float(case['alpha'])])}")
    dtn = DTN[case['dtype']]
    if k == 'gaussian' and np.dtype(case['dtype']).kind != 'f':
        dtn = 'f64'                                    # _as_floating_point_array: integers are converted to double
    base = (f"c06 kind={k} dt={dtn} mode={MODES.index(case['mode'])} "
            f"shape={gen.enc_shape(case['shape'])} data={core.fmt_floats(_arr(case).astype(np.float64))}")
    if k == 'convolve':
        return base + f" wshape={gen.enc_shape(case['wshape'])} w={core.fmt_floats(case['w'])}"
    if k in ('convolve1d', 'fastwrites'):
        return base + f" w={core.fmt_floats(case['w'])} axis={case.get('axis', 1)} contig={int(case.get('_contig', 1))}"
    if k == 'gaussian1d':
        return base + (f" sigma={core.fmt_floats([case['sigma']])} order={case['order']} axis={case['axis']} "
                       f"contig={int(case.get('_contig', 1))}")
    if k == 'gaussian':
        return base + f" sigma={core.fmt_floats(case['sigma'])} order={gen.enc_arr(case['order'])}"
    raise ValueError(k)


def _wlayout(w, layout):
    w = np.ascontiguousarray(w)
    if layout == 'strided':
        big = np.full(tuple(2 * s for s in w.shape), 7.0)
        v = big[tuple(slice(None, None, 2) for _ in w.shape)]
        v[...] = w
        return v
    if layout == 'negstride':
        r = np.ascontiguousarray(w[tuple(slice(None, None, -1) for _ in w.shape)])
        return r[tuple(slice(None, None, -1) for _ in w.shape)]
    if layout == 'F':
        return np.asfortranarray(w)
    return w


def _prepare(case):
    """arrays for the real call; sets case['_contig'] (which Python path convolve1d will take)"""
    A = _arr(case)
    Al = gen.relayout(A, case.get('layout', 'C'))
    case['_contig'] = bool(Al.flags.contiguous)
    return A, Al


def _call(case, Al):
    import mahotas as mh
    k = case['kind']
    with warnings.catch_warnings():
        warnings.simplefilter('ignore')
        if k == 'convolve':
            W = _wlayout(np.array(case['w'], np.float64).reshape(case['wshape']), case.get('wlayout', 'C'))
            return mh.convolve(Al, W, mode=case['mode'])
        if k == 'convolve1d':
            W = _wlayout(np.array(case['w'], np.float64), case.get('wlayout', 'C'))
            return mh.convolve1d(Al, W, case['axis'], mode=case['mode'])
        if k == 'fastwrites':
            from mahotas import _convolve
            out = np.full(Al.shape, 77, Al.dtype)
            _convolve.convolve1d(Al, np.array(case['w'], np.float64), out, MODES.index(case['mode']))
            return out
        if k == 'laplacian':
            return mh.laplacian_2D(Al, case['alpha'])
        if k == 'gaussian1d':
            return mh.gaussian_filter1d(Al, case['sigma'], case['axis'], case['order'], mode=case['mode'])
        if k == 'gaussian':
            return mh.gaussian_filter(Al, case['sigma'], case['order'], mode=case['mode'])
    raise ValueError(k)


def _range(dtype):
    dt = np.dtype(dtype)
    if dt.kind == 'f':
        return -np.inf, np.inf
    if dt.kind == 'b':
        return 0, 1
    ii = np.iinfo(dt)
    return float(ii.min), float(ii.max)


def _judge(case, got, drv):
    out = []
    k = case['kind']
    if 'error' in drv:
        raise core.Infra('driver: ' + drv['error'])
    if got is None:
        return [dict(kind='property', key=f'{k}:raises', detail=dict(error=case.get('_error', '')))]   # every input of the domain is valid
    A = _arr(case)
    want_dt = A.dtype
    if k == 'laplacian' or (k == 'gaussian' and A.dtype.kind != 'f'):
        want_dt = np.dtype(np.float64)
    if got.shape != A.shape or got.dtype != want_dt:
        return [dict(kind='property', key=f'{k}:shape-dtype', detail=dict(shape=list(got.shape), dtype=str(got.dtype)))]
    g = np.asarray(got, dtype=np.float64).ravel(order='C')
    model = core.floats(drv.get('model', ''))
    path = drv.get('path', 'generic')
    case['_path'] = path
    if k in ('gaussian1d', 'gaussian'):
        scale = 1.0 + float(np.max(np.abs(A))) if A.size else 1.0
        tol = (1e-11 if A.dtype == np.float64 or A.dtype.kind != 'f' else 1e-5) * scale
        err = np.abs(g - model)
        bad = np.nonzero(~(err <= tol))[0]
        if bad.size:
            od = case['order'] if k == 'gaussian1d' else max(case['order'])
            out.append(dict(kind='property', key=f'{k}:order{od}',
                            detail=dict(pixels=bad[:8].tolist(), got=g.tolist(), model=model.tolist(), tol=tol, path=path)))
        return out
    if k == 'fastwrites':
        if int(drv['unwritten']) != 0 or sorted(core.ints(drv['xs'])) != list(range(case['shape'][1])):
            out.append(dict(kind='model', key='fastwrites:coverage', detail=dict(xs=drv['xs'], unwritten=drv['unwritten'])))
        m = core.floats(drv['out'])
        lo, hi = _range(case['dtype'])
        ok = (m >= lo) & (m <= hi)
        bad = np.nonzero(ok & (g != m))[0]
        if bad.size:
            out.append(dict(kind='model', key='fastwrites:value',
                            detail=dict(pixels=bad[:8].tolist(), got=g.tolist(), model=m.tolist())))
        return out
    spec = core.floats(drv['spec'])
    lo, hi = _range(case['dtype'] if k != 'laplacian' else 'float64')
    ok = (spec >= lo) & (spec <= hi)
    case['_skipped'] = int((~ok).sum())
    bad = np.nonzero(ok & (g != spec))[0]
    if bad.size:
        out.append(dict(kind='property', key=f'{k}:{path}',
                        detail=dict(pixels=bad[:8].tolist(), got=g.tolist(), spec=spec.tolist(), path=path,
                                    mode=case['mode'])))
    else:
        okm = (model >= lo) & (model <= hi) & ok
        badm = np.nonzero(okm & (g != model))[0]
        if badm.size:
            out.append(dict(kind='model', key=f'{k}-model:{path}',
                            detail=dict(pixels=badm[:8].tolist(), got=g.tolist(), model=model.tolist(), path=path)))
    return out


def _ramp(case):
    """the statement's anchor: order 1 on a unit ramp yields +1 (away from the border)"""
    import mahotas as mh
    n, sigma, ndim, axis = case['n'], case['sigma'], case['ndim'], case['axis']
    shape = [3] * ndim
    shape[axis] = n
    idx = [None] * ndim
    idx[axis] = slice(None)
    A = np.zeros(shape, case['dtype']) + np.arange(n, dtype=case['dtype'])[tuple(idx)] * case.get('slope', 1)
    A = gen.relayout(A, case.get('layout', 'C'))
    findings = []
    try:
        with warnings.catch_warnings():
            warnings.simplefilter('ignore')
            if case.get('via', '1d') == '1d':
                r = mh.gaussian_filter1d(A, sigma, axis if not case.get('neg') else axis - ndim, 1, mode=case['mode'])
            else:
                order = [0] * ndim
                order[axis] = 1
                r = mh.gaussian_filter(A, sigma, order, mode=case['mode'])
    except Exception as e:
        return [dict(kind='property', key='ramp:raises', detail=dict(error=repr(e)))]
    m = int(4 * sigma + 0.5) + 1
    sl = [slice(None)] * ndim
    sl[axis] = slice(m, n - m)
    inner = np.asarray(r, np.float64)[tuple(sl)]
    want = float(case.get('slope', 1))
    if inner.size and not np.all(np.abs(inner - want) < 5e-3 * abs(want)):
        findings.append(dict(kind='property', key='gaussian:order1-sign',
                             detail=dict(response=float(inner.ravel()[0]), expected=want, sigma=sigma)))
    return findings


def evaluate(cases):
    res = []
    plain = [c for c in cases if c['kind'] != 'ramp']
    prepared = {}
    lines = []
    for c in plain:
        prepared[id(c)] = _prepare(c)
        lines.append(_line(c))
    drvs = dict(zip([id(c) for c in plain], core.drive(lines)))
    lns = dict(zip([id(c) for c in plain], lines))
    for case in cases:
        if case['kind'] == 'ramp':
            f = _ramp(case)
            res.append(dict(findings=f, nontrivial=True, sig=json.dumps(case, sort_keys=True),
                            tags=dict(kind='ramp', mode=case['mode'], ndim=case['ndim'], dtype=case['dtype'])))
            continue
        A, Al = prepared[id(case)]
        before = Al.copy()
        try:
            got = _call(case, Al)
        except Exception as e:
            got = None
            case['_error'] = repr(e)
        f = _judge(case, got, drvs[id(case)])
        if not np.array_equal(before, Al):
            f.append(dict(kind='property', key='input-modified', detail={}))
        w = case.get('w')
        ws = case.get('wshape') or ([len(w)] if w is not None else [])
        ax = case.get('axis')
        klass = 'none'
        if ws:
            dims = case['shape'] if case['kind'] == 'convolve' else [case['shape'][ax]] if ax is not None else []
            klass = ('larger' if any(a >= b for a, b in zip(ws, dims)) else 'even' if any(a % 2 == 0 for a in ws) else 'odd')
        tags = dict(kind=case['kind'], dtype=case['dtype'], ndim=len(case['shape']), layout=case.get('layout', 'C'),
                    mode=case['mode'], path=case.get('_path', 'generic'), kernel=klass)
        if ax is not None:
            tags['axis'] = 'neg' if ax < 0 else 'pos'
        if case.get('_skipped'):
            tags['overflow_pixels_skipped'] = 'yes'
        clean = {k: v for k, v in case.items() if not k.startswith('_')}
        for x in f:
            x['case'] = clean
        res.append(dict(findings=f, nontrivial=bool(got is not None and not np.array_equal(np.asarray(got), A)),
                        sig=lns[id(case)] + case.get('layout', 'C') + case.get('wlayout', 'C'), tags=tags))
    return res


def _corpus():
    d = core.VERIF / 'corpus' / ID
    out = []
    if d.exists():
        for p in sorted(d.glob('*.json')):
            out.append(json.loads(p.read_text())['case'])
    return out


def _values(rng, n, dtype):
    dt = np.dtype(dtype)
    if dt.kind == 'b':
        return [int(rng.random() < 0.5) for _ in range(n)]
    if dt.kind == 'u':
        return [rng.randint(0, 9) for _ in range(n)]
    if dt.kind == 'i':
        return [rng.randint(-6, 9) for _ in range(n)]
    if rng.random() < 0.3:
        return [rng.randint(-24, 36) / 4.0 for _ in range(n)]
    return [float(rng.randint(-6, 9)) for _ in range(n)]


def _weights(rng, n, dtype):
    dt = np.dtype(dtype)
    style = rng.random()
    out = []
    for _ in range(n):
        u = rng.random()
        if u < 0.25:
            out.append(0.0)
        elif style < 0.15 and dt.kind != 'f':
            out.append(rng.randint(-9, 9) / 4.0)            # fractional weights on an integer image: cast truncates
        elif dt.kind == 'f' and style < 0.4:
            out.append(rng.randint(-12, 12) / 4.0)
        elif dt.kind in 'ub':
            out.append(float(rng.randint(0, 3)))
        else:
            out.append(float(rng.randint(-3, 3)))
    return out


def _klen(rng, n):
    r = rng.random()
    if r < 0.35:
        return rng.choice([1, 2, 3, 4, 5])
    if r < 0.55:
        return max(1, n + rng.choice([-1, 0, 1]))
    if r < 0.75:
        return rng.randint(1, 9)
    return rng.randint(2 * n, 10 * n + 1)              # deep into the reflect/mirror/wrap periods


def cases(rng, tier):
    out = list(_corpus()) if tier != 'search' else []
    nrand = dict(quick=8000, thorough=150000, search=20000)[tier]
    # systematic 1-D sweep
    sweep = []
    for n in range(1, 6):
        for nf in range(1, 10 * n + 2):
            for mode in MODES:
                sweep.append(dict(kind='convolve', dtype='float64', shape=[n], data=[float(1 + i + 7 * i * i) for i in range(n)],
                                  wshape=[nf], w=[float(j + 1) for j in range(nf)], mode=mode, layout='C'))
    for n in range(2, 8):
        for nf in range(1, n):
            for mode in MODES:
                sweep.append(dict(kind='fastwrites', dtype='float64', shape=[2, n],
                                  data=[float(1 + i + 7 * i * i) for i in range(2 * n)],
                                  w=[float(j + 1) for j in range(nf)], mode=mode, layout='C'))
                for axis in (0, 1, -1, -2):
                    sweep.append(dict(kind='convolve1d', dtype='float64', shape=[n, n] if axis in (0, -2) else [2, n],
                                      data=[float(1 + i + 3 * i * i) for i in range(n * n if axis in (0, -2) else 2 * n)],
                                      w=[float(j + 1) for j in range(nf)], axis=axis, mode=mode,
                                      layout='C'))
    if tier == 'thorough':
        out += sweep
    else:
        out += rng.sample(sweep, 500 if tier == 'quick' else 1500)
    # ramps (the statement's anchor for derivative orders)
    for sigma in (1.0, 1.5, 2.0, 3.0):
        for ndim, axis in ((1, 0), (2, 0), (2, 1), (3, 1)):
            via = rng.choice(['1d', 'nd'])
            # constant/ignore drop (do not renormalise) samples: along the *other*, short axes that scales the response
            out.append(dict(kind='ramp', dtype='float64', sigma=sigma, ndim=ndim, axis=axis, n=int(8 * sigma) + 12,
                            mode=rng.choice(MODES if via == '1d' or ndim == 1 else MODES[:4]), via=via, neg=rng.random() < 0.5,
                            slope=rng.choice([1, 1, 2, -3]), layout=rng.choice(['C', 'F', 'strided'])))
    for _ in range(nrand):
        r = rng.random()
        dtype = rng.choice(DTYPES)
        mode = rng.choice(MODES)
        layout = rng.choice(gen.LAYOUTS)
        if r < 0.40:
            shape = list(gen.small_shape(rng, maxlen=6))
            wshape = [_klen(rng, s) if rng.random() < 0.8 else 1 for s in shape]
            while int(np.prod(wshape)) > 400:
                wshape[wshape.index(max(wshape))] = max(1, max(wshape) // 2)
            out.append(dict(kind='convolve', dtype=dtype, shape=shape, data=_values(rng, int(np.prod(shape)), dtype),
                            wshape=wshape, w=_weights(rng, int(np.prod(wshape)), dtype), mode=mode, layout=layout,
                            wlayout=rng.choice(['C', 'C', 'F', 'strided', 'negstride'])))
        elif r < 0.80:
            shape = list(gen.small_shape(rng, maxlen=9, bias=(1, 2, 3, 5, 8)))
            nd = len(shape)
            axis = rng.randrange(-nd, nd)
            nf = _klen(rng, shape[axis])
            if shape[axis] >= 2 and rng.random() < 0.45:
                nf = rng.randint(1, shape[axis] - 1)        # the Python guard of the fast path
            out.append(dict(kind='convolve1d', dtype=dtype, shape=shape, data=_values(rng, int(np.prod(shape)), dtype),
                            w=_weights(rng, nf, dtype), axis=axis, mode=mode,
                            layout=layout if rng.random() < 0.5 else 'C',
                            wlayout=rng.choice(['C', 'C', 'C', 'strided', 'negstride'])))
        elif r < 0.83:
            shape = [rng.choice([1, 2, 3, 4, 6]), rng.choice([1, 2, 3, 5])]
            out.append(dict(kind='laplacian', dtype=dtype, shape=shape, data=_values(rng, int(np.prod(shape)), dtype),
                            alpha=rng.choice([0, 1, 0.0, 1.0, -2, 3]), mode='nearest', layout=layout))   # dyadic weights
        elif r < 0.87:
            n1 = rng.randint(2, 9)
            shape = [rng.randint(1, 3), n1]
            out.append(dict(kind='fastwrites', dtype=dtype, shape=shape, data=_values(rng, int(np.prod(shape)), dtype),
                            w=_weights(rng, rng.randint(1, n1 - 1), dtype), mode=mode, layout='C'))
        else:
            fdt = rng.choice(['float64', 'float64', 'float32'])
            nd = rng.choice([1, 2, 2, 3])
            shape = [rng.choice([1, 2, 3, 5, 8, 13, 17, 30]) for _ in range(nd)]
            while int(np.prod(shape)) > 1500:
                shape[shape.index(max(shape))] //= 2
            data = _values(rng, int(np.prod(shape)), fdt)
            if rng.random() < 0.6:
                out.append(dict(kind='gaussian1d', dtype=fdt, shape=shape, data=data, sigma=rng.choice(SIGMAS),
                                order=rng.randint(0, 3), axis=rng.randrange(-nd, nd), mode=mode, layout=layout))
            else:
                same = rng.random() < 0.4
                gdt = rng.choice([fdt, fdt, 'uint8', 'int32'])
                out.append(dict(kind='gaussian', dtype=gdt, shape=shape, data=_values(rng, int(np.prod(shape)), gdt),
                                sigma=[rng.choice(SIGMAS)] * nd if same else [rng.choice(SIGMAS) for _ in range(nd)],
                                order=[rng.randint(0, 3) for _ in range(nd)], mode=mode, layout=layout))
    return out


def shrink(case):
    k = case['kind']
    if k == 'ramp':
        return
    shape, data = case['shape'], case['data']
    A = np.array(data, dtype=np.float64).reshape(shape)
    for ax in range(len(shape)):
        if shape[ax] > 1:
            for j in (shape[ax] - 1, 0):
                B = np.delete(A, j, axis=ax)
                if k == 'fastwrites' and B.shape[1] <= len(case['w']):
                    continue
                yield dict(case, shape=list(B.shape), data=B.ravel().tolist())
    if case.get('layout', 'C') != 'C':
        yield dict(case, layout='C')
    if case.get('wlayout', 'C') != 'C':
        yield dict(case, wlayout='C')
    if k in ('convolve1d', 'fastwrites') and len(case['w']) > 1:
        yield dict(case, w=case['w'][:-1])
        yield dict(case, w=case['w'][1:])
    if k == 'convolve':
        W = np.array(case['w'], np.float64).reshape(case['wshape'])
        for ax in range(W.ndim):
            if W.shape[ax] > 1:
                for j in (W.shape[ax] - 1, 0):
                    B = np.delete(W, j, axis=ax)
                    yield dict(case, wshape=list(B.shape), w=B.ravel().tolist())
    for i, v in enumerate(data):
        if v not in (0, 1):
            d = list(data); d[i] = 1 if v > 0 else 0
            yield dict(case, data=d)
    if 'w' in case:
        for i, v in enumerate(case['w']):
            if v not in (0.0, 1.0):
                w = list(case['w']); w[i] = 1.0
                yield dict(case, w=w)
