"""C07 — rank / median / mean filters, template_match and find equal their definitions."""
from __future__ import annotations
import json, warnings
from fractions import Fraction
import numpy as np
from .. import core, gen

ID = 'C07'
FOUNDATIONS = ['harness.foundation.filteriter', 'harness.foundation.cscalar']   # the models use the closed form proved by F6 (filterIter_refines)
LEAN_TARGETS = ['Mahotas.Proofs.FilterIter']
LEVEL = 'proof'
MODES = ['nearest', 'wrap', 'reflect', 'mirror', 'constant', 'ignore']
DTYPES = ['uint8', 'int32', 'float64', 'int8', 'uint16', 'int64', 'uint64', 'float32', 'bool']
DTNAMES = {'bool': 'b1', 'uint8': 'u8', 'uint16': 'u16', 'uint32': 'u32', 'uint64': 'u64',
           'int8': 'i8', 'int16': 'i16', 'int32': 'i32', 'int64': 'i64'}   # protocol names of DT.ofName
RULE = ('corpus; size-threshold stream (rows of 2^15+1 / 2^16-1 / 2^16 / 2^16+1 pixels, 257x256 images, neighbourhoods of 255 / 256 / 257 '
        '/ 65537 members, find with its only match beyond index 65535; judged by the same Lean model and specification); currank: blocks of 2000 triples (n, N2 < 2^26, rank) incl. quotients at / one step below an integer; find: every placement of every sub-window of seeded images up to 6x6 (incl. last row/column and template = '
        'image) plus perturbed (non-occurring) templates; random 1-3 D x 9 dtypes x 7 layouts x 0/1 neighbourhoods of every '
        'shape (odd/even, larger than the image, centre absent) x every rank x 6 modes; templates of every shape; float32/float64 '
        'template_match and mean_filter on dyadic values K/2^s of both signs up to the full significand; majority_filter on '
        'binary images up to 9x9, N = 2..7. '
        'Non-trivial = output differs from the input / at least one match; distinct = distinct protocol line + layout.')
ASSUMPTIONS = ['neighbourhoods Bc are 0/1 arrays (median rank = Bc.sum()//2 counts the members); for an even number of samples '
               'the median is element N//2 of the sorted samples (upper median), rescaled like any rank in ignore mode',
               'ranks inside [0, number of members): outside it rank_filter writes nothing (not part of the documented domain)',
               'pixels where no sample at all is selected (ignore mode, centre not a member) are not compared',
               'constant mode with cval = 0 (the only value the wrappers accept)',
               'template_match against the specification: pixels whose exact sum of squared differences fits the image dtype '
               '(the docstring: computed in the dtype of f, may overflow); in constant mode only pixels whose whole window lies '
               'inside the image (the statement does not say what a constant sample contributes). Integer and bool dtypes: '
               'EVERY pixel, overflowing or not, is in addition compared with the model in the wrap-around arithmetic of the '
               'dtype (= exact value mod 2^bits, C07_template_match_wrapping); float dtypes: small integer values (exact), '
               'out-of-range pixels skipped',
               'rank/median on float images: quarter-integers, or (enc=bits) ANY non-NaN float incl. denormals and +-inf but not '
               '-0.0, passed to the integer model through the order embedding sign(x)*bits(|x|) (C07_rank_order_embedding); '
               'kinds rank/median/mean/tm: float images hold integer-valued (or quarter-integer, rank filters only) samples: '
               'exact arithmetic, no NaN; kinds tmf/meanf: finite dyadic float values, judged bit for bit against the generic '
               'kernel run in binary64/binary32 and against the exact rational value within the proved forward error bound '
               '(template_match: 2(N+3)u relative, C07_template_match_float_error_bound; mean: 2(n+1)u times the sum of '
               'magnitudes), exactly where no operation rounds (C07_template_match_float_exact, C07_mean_double_exact)',
               'mean (integer kinds): sums below 2^53 (exact in double); sizes < 2^26 (C07_currank_double_eq_floor)',
               'majority_filter is outside the fixed statement: compared with the closed form of its loops only (kind model)']
TRUSTED = ['numpy (array construction, layout views)', 'python fractions (correctly rounded exact mean)']
EXHAUSTIVE = {'thorough': True}
EXPLANATION = ('model = transliteration of rank_filter/mean_filter/template_match/find2d over exact integers (template_match also in '
               'the wrap-around arithmetic of the image dtype, with the integral promotions), run by the native '
               'Lean driver; spec = k-th smallest by counting, exact sum/n, sum of squared differences with borderSpec, '
               'occurrence predicate; currank, template_match and mean_filter also generic in the arithmetic and run in '
               'binary64/binary32 (Lean Float/Float32 = the hardware operations); majority_filter loops and closed form')


_FINF = {'float32': 0x7F800000, 'float64': 0x7FF0000000000000}      # bit pattern of +inf: every |e| <= this is a non-NaN float


def _fbits_decode(es, dtype):
    """order embedding of the non-NaN floats into the integers, e = sign(x) * bits(|x|) (strictly increasing, 0 <-> +0.0;
    -0.0 is not produced); the rank filter commutes with it (C07_rank_order_embedding)"""
    ut = np.uint32 if dtype == 'float32' else np.uint64
    mag = np.array([abs(int(e)) for e in es], dtype=ut).view(np.dtype(dtype))
    neg = np.array([int(e) < 0 for e in es], dtype=bool)
    return np.where(neg, -mag, mag).astype(np.dtype(dtype))


def _fbits_encode(a):
    a = np.ascontiguousarray(a)
    ut = np.uint32 if a.dtype == np.float32 else np.uint64
    bits = np.abs(a).view(ut).ravel().tolist()
    neg = (np.signbit(a) & (a != 0)).ravel().tolist()
    return [-int(b) if n else int(b) for b, n in zip(bits, neg)]


def _arr(case):
    a = np.array(case['data'], dtype=object)
    dt = np.dtype(case['dtype'])
    if case.get('enc') == 'bits':
        return _fbits_decode(case['data'], case['dtype']).reshape(case['shape'])
    if dt.kind == 'f':
        a = (np.array(case['data'], dtype=np.float64) / case.get('scale', 1)).astype(dt)
    else:
        a = a.astype(dt)
    a = a.reshape(case['shape'])
    if dt.kind == 'f' and case.get('negzero'):
        # signed zeros: -0.0 == +0.0, so occurrences and ranks must not depend on the sign bit of a zero
        for i in case['negzero']:
            if a.flat[i] == 0:
                a.flat[i] = -0.0
    return a


def _line(case):
    k = case['kind']
    if k == 'currank':
        return _currank_line(case)
    s = (f"c07 kind={k} mode={MODES.index(case.get('mode', 'reflect'))} shape={gen.enc_shape(case['shape'])} "
         f"data={gen.enc_arr(case['data'])} bshape={gen.enc_shape(case['bshape'])} bc={gen.enc_arr(case['bc'])}")
    if k == 'rank':
        s += f" rank={case['rank']}"
    if k == 'tm' and case['dtype'] in DTNAMES:
        s += f" dt={DTNAMES[case['dtype']]}"
    if k == 'tmf':
        # data / bc are the values times 2^s as exact integers; the float run gets the values themselves (binary64 patterns;
        # |K| < 2^24 for float32 so the narrowing in the driver is exact)
        sc = case['scale']
        s += (f" fdata={core.fmt_floats([v / sc for v in case['data']])} fbc={core.fmt_floats([v / sc for v in case['bc']])}"
              f" ft={'f32' if case['dtype'] == 'float32' else 'f64'}")
    if k == 'meanf':
        s += f" fdata={core.fmt_floats([v / case['scale'] for v in case['data']])}"
    if k == 'majority':
        s += f" n={case['n']}"
    return s


def _currank_line(case):
    return (f"c07 kind=currank n={gen.enc_arr(case['n'])} n2={gen.enc_arr(case['n2'])} rank={gen.enc_arr(case['rank'])}")


def _call(case, Al):
    import mahotas as mh
    k = case['kind']
    dt = Al.dtype
    if k == 'tmf':
        B = (np.array(case['bc'], dtype=np.float64) / case['scale']).astype(dt).reshape(case['bshape'])
    else:
        B = np.array(case['bc'], dtype=object).astype(dt).reshape(case['bshape']) if len(case['bc']) else np.zeros(case['bshape'], dt)
    if dt.kind == 'f' and case.get('bnegzero'):
        for i in case['bnegzero']:
            if B.flat[i] == 0:
                B.flat[i] = -0.0
    B = gen.relayout(B, case.get('blayout', 'C')) if B.size else B
    with warnings.catch_warnings():
        warnings.simplefilter('ignore')
        if k == 'rank':
            return mh.rank_filter(Al, B, case['rank'], mode=case['mode'])
        if k == 'median':
            if case.get('default_bc'):
                return mh.median_filter(Al, mode=case['mode'])
            return mh.median_filter(Al, B, mode=case['mode'])
        if k in ('mean', 'meanf'):
            return mh.mean_filter(Al, B, mode=case['mode'])
        if k in ('tm', 'tmf'):
            return mh.template_match(Al, B, mode=case['mode'])
        if k == 'majority':
            return mh.majority_filter(Al, case['n'])
        if k == 'find':
            return mh.find(Al, B)
    raise ValueError(k)


def _opt(s):
    return [None if x == 'u' else int(x) for x in s.split(',')] if s else []


def _judge(case, got, drv):
    k = case['kind']
    if 'error' in drv:
        raise core.Infra('driver: ' + drv['error'])
    if got is None:
        return [dict(kind='property', key=f'{k}:raises', detail=dict(error=case.get('_error', '')))]
    got = np.asarray(got)
    if list(got.shape) != list(case['shape']):
        return [dict(kind='property', key=f'{k}:shape', detail=dict(shape=list(got.shape)))]
    out = []
    sc = case.get('scale', 1)
    isf = np.dtype(case['dtype']).kind == 'f'
    if k in ('rank', 'median'):
        if case.get('enc') == 'bits':
            if np.isnan(got).any():
                return [dict(kind='property', key=f'{k}:nan', detail={})]
            g = _fbits_encode(np.asarray(got).reshape(-1))
        else:
            g = got.ravel(order='C').tolist()
            g = [int(round(x * sc)) if isf else int(x) for x in g]
        spec, model = _opt(drv['spec']), _opt(drv['model'])
        bad = [i for i, (a, b) in enumerate(zip(g, spec)) if b is not None and a != b]
        if bad:
            out.append(dict(kind='property', key=f'{k}', detail=dict(pixels=bad[:8], got=g, spec=spec, mode=case['mode'])))
        else:
            badm = [i for i, (a, b) in enumerate(zip(g, model)) if b is not None and a != b]
            if badm or [x is None for x in spec] != [x is None for x in model]:
                out.append(dict(kind='model', key=f'{k}-model', detail=dict(pixels=badm[:8], got=g, model=model)))
            # currank evaluated in binary64 as the C++ does (C07_currank_double_eq_floor: = the integer floor)
            dmodel = _opt(drv.get('dmodel', ''))
            if not out and dmodel != model:
                out.append(dict(kind='model', key=f'{k}-currank-double', detail=dict(model=model, dmodel=dmodel)))
        case['_undefined'] = sum(1 for x in spec if x is None)
    elif k == 'mean':
        if got.dtype != np.float64:
            return [dict(kind='property', key='mean:dtype', detail=dict(dtype=str(got.dtype)))]
        g = got.ravel(order='C')
        sums, ns = core.ints(drv['sum']), core.ints(drv['n'])
        model = core.floats(drv['model'])
        bad = [i for i, (s, n) in enumerate(zip(sums, ns)) if n > 0 and g[i] != float(Fraction(s, n))]
        if bad:
            out.append(dict(kind='property', key='mean', detail=dict(pixels=bad[:8], got=g.tolist(), sums=sums, ns=ns,
                                                                      mode=case['mode'])))
        else:
            badm = [i for i, n in enumerate(ns) if n > 0 and g[i] != model[i]]
            if badm:
                out.append(dict(kind='model', key='mean-model', detail=dict(pixels=badm[:8], got=g.tolist(), model=model.tolist())))
        case['_undefined'] = sum(1 for n in ns if n == 0)
    elif k == 'tm':
        g = [int(x) for x in got.ravel(order='C').tolist()]
        spec, model, obs = core.ints(drv['spec']), core.ints(drv['model']), core.ints(drv['obs'])
        lo, hi = (0, 1) if case['dtype'] == 'bool' else gen.dt_range(case['dtype']) if not isf else (-2 ** 24, 2 ** 24)
        cmp = [(case['mode'] != 'constant' or o) and lo <= s <= hi for s, o in zip(spec, obs)]
        bad = [i for i, (a, b, c) in enumerate(zip(g, spec, cmp)) if c and a != b]
        case['_overflow'] = sum(1 for b in model if not lo <= b <= hi)
        if bad:
            out.append(dict(kind='property', key='template_match', detail=dict(pixels=bad[:8], got=g, spec=spec, mode=case['mode'])))
        elif not isf:
            # integer dtypes and bool: EVERY pixel (overflowing ones, constant-mode border pixels) against the model in
            # the dtype's wrap-around arithmetic (C07_template_match_wrapping: = exact SSD reduced modulo 2^bits)
            wrap = core.ints(drv['wrap'])
            badm = [i for i, (a, b) in enumerate(zip(g, wrap)) if a != b]
            if badm or len(wrap) != len(g):
                out.append(dict(kind='model', key='template_match-wrap', detail=dict(pixels=badm[:8], got=g, wrap=wrap,
                                                                                     exact=model)))
            case['_skipped'] = 0
        else:
            case['_skipped'] = sum(1 for c in cmp if not c)
            badm = [i for i, (a, b) in enumerate(zip(g, model)) if lo <= b <= hi and a != b]
            if badm:
                out.append(dict(kind='model', key='template_match-model', detail=dict(pixels=badm[:8], got=g, model=model)))
    elif k == 'meanf':
        if got.dtype != np.float64:
            return [dict(kind='property', key='mean:dtype', detail=dict(dtype=str(got.dtype)))]
        g = got.ravel(order='C')
        sums, ns, asums = core.ints(drv['sum']), core.ints(drv['n']), core.ints(drv['asum'])
        model = core.floats(drv['model'])
        sc = case['scale']
        u = Fraction(1, 2 ** 53)
        bad, nexact = [], 0
        for i, (a, sm, n, asum) in enumerate(zip(g.tolist(), sums, ns, asums)):
            if n == 0:
                continue
            if not np.isfinite(a):
                bad.append(i); continue
            if sc == 1 and asum <= 2 ** 53:
                # integer values, magnitudes sum below 2^53: the correctly rounded exact mean (C07_mean_double_exact)
                nexact += 1
                if a != float(Fraction(sm, n)):
                    bad.append(i)
            elif abs(Fraction(a) * n * sc - sm) > 2 * (n + 2) * u * asum:
                # |computed sum - sum| <= ((1+u)^(n-1) - 1) * sum of magnitudes, one more rounding for the division and (64-bit
                # integer samples beyond 2^53) one for the conversion of each sample to double
                bad.append(i)
        case['_exact'] = nexact
        case['_undefined'] = sum(1 for n in ns if n == 0)
        if bad:
            out.append(dict(kind='property', key='mean:float', detail=dict(pixels=bad[:8], got=g.tolist(), sums=sums, ns=ns,
                                                                         scale=sc, mode=case['mode'])))
        else:
            gb, mb = g.view(np.uint64), model.view(np.uint64)
            badm = [i for i, n in enumerate(ns) if n > 0 and (i >= len(mb) or gb[i] != mb[i])]
            if badm:
                out.append(dict(kind='model', key='mean-float-model', detail=dict(pixels=badm[:8], got=g.tolist(),
                                                                                  model=model.tolist())))
    elif k == 'tmf':
        if got.dtype != np.dtype(case['dtype']):
            return [dict(kind='property', key='template_match:dtype', detail=dict(dtype=str(got.dtype)))]
        g = got.ravel(order='C').astype(np.float64)
        spec, obs = core.ints(drv['spec']), core.ints(drv['obs'])
        model = core.floats(drv['model'])
        sc2 = case['scale'] ** 2
        nt = int(np.prod(case['bshape']))
        f32 = case['dtype'] == 'float32'
        u = 2.0 ** -24 if f32 else 2.0 ** -53
        lim = 2 ** 24 if f32 else 2 ** 53
        bad, nexact = [], 0
        for i, (a, sp, o) in enumerate(zip(g.tolist(), spec, obs)):
            if case['mode'] == 'constant' and not o:
                continue
            if not np.isfinite(a):
                bad.append(i); continue
            ga = Fraction(a) * sc2                          # the real output, exactly, scaled like the specification
            if case['scale'] == 1 and sp <= lim:
                # integer values, exact SSD representable: no operation rounds (C07_template_match_float_exact)
                nexact += 1
                if ga != sp:
                    bad.append(i)
            elif abs(ga - sp) > Fraction(2 * (nt + 3)) * Fraction(u) * sp:
                # every term is non-negative: (1-u)^(nt+3) S <= computed <= (1+u)^(nt+3) S
                bad.append(i)
        case['_exact'] = nexact
        if bad:
            out.append(dict(kind='property', key='template_match:float', detail=dict(pixels=bad[:8], got=g.tolist(), spec=spec,
                                                                                   scale2=sc2, mode=case['mode'])))
        elif len(model) != len(g) or not np.array_equal(g.view(np.uint64), model.view(np.uint64)):
            badm = [i for i in range(min(len(g), len(model))) if g.view(np.uint64)[i] != model.view(np.uint64)[i]]
            out.append(dict(kind='model', key='template_match-float-model', detail=dict(pixels=badm[:8], got=g.tolist(),
                                                                                       model=model.tolist())))
    elif k == 'majority':
        if got.dtype != np.bool_:
            return [dict(kind='property', key='majority_filter:dtype', detail=dict(dtype=str(got.dtype)))]
        g = [int(x) for x in got.ravel(order='C').tolist()]
        spec, model = core.ints(drv['spec']), core.ints(drv['model'])
        # outside the fixed statement of C07: the closed form proved equal to the loops (C07_majority_closed_form)
        if g != spec or g != model:
            out.append(dict(kind='model', key='majority_filter-model', detail=dict(got=g, spec=spec, model=model)))
    elif k == 'find':
        if got.dtype != np.bool_:
            return [dict(kind='property', key='find:dtype', detail=dict(dtype=str(got.dtype)))]
        g = [int(x) for x in got.ravel(order='C').tolist()]
        spec, model = core.ints(drv['spec']), core.ints(drv['model'])
        bad = [i for i, (a, b) in enumerate(zip(g, spec)) if a != b]
        if bad:
            N0, N1 = case['shape']
            T0, T1 = case['bshape']
            flush = all((i // N1 == N0 - T0 or i % N1 == N1 - T1) and spec[i] == 1 for i in bad)
            out.append(dict(kind='property', key='find:flush-edge' if flush else 'find',
                            detail=dict(pixels=bad[:8], got=g, spec=spec)))
        elif g != model:
            out.append(dict(kind='model', key='find-model', detail=dict(got=g, model=model)))
    return out


def evaluate(cases):
    res = []
    lines = [_line(c) for c in cases]
    drvs = core.drive(lines)
    for case, line, drv in zip(cases, lines, drvs):
        if case['kind'] == 'currank':
            # block case: npy_intp(n*rank/double(N2)) in the driver's binary64 against the integer floor
            f = []
            if 'error' in drv:
                raise core.Infra('driver: ' + drv['error'])
            if not drv.get('model') or drv.get('model') != drv.get('spec'):
                f.append(dict(kind='model', key='currank-double', detail=dict(model=drv.get('model'), spec=drv.get('spec')),
                              case=case))
            res.append(dict(findings=f, nontrivial=True, sig=line, tags=dict(kind='currank'), n=len(case['n'])))
            continue
        A = _arr(case)
        Al = gen.relayout(A, case.get('layout', 'C'))
        before = Al.copy()
        try:
            got = _call(case, Al)
        except Exception as e:
            got = None
            case['_error'] = repr(e)
        f = _judge(case, got, drv)
        if not np.array_equal(before, Al):
            f.append(dict(kind='property', key='input-modified', detail={}))
        clean = {k: v for k, v in case.items() if not k.startswith('_')}
        for x in f:
            x['case'] = clean
        bs, sh = case['bshape'], case['shape']
        tags = dict(kind=case['kind'], dtype=case['dtype'], ndim=len(sh), layout=case.get('layout', 'C'),
                    mode=case.get('mode', '-'),
                    elem=('larger' if any(b > s for b, s in zip(bs, sh)) else 'even' if any(b % 2 == 0 for b in bs) else 'odd'))
        if case.get('size'):
            tags['size_threshold'] = case['size']
        if case.get('enc'):
            tags['float_values'] = 'any-bit-pattern'
        elif case['kind'] in ('rank', 'median') and np.dtype(case['dtype']).kind == 'f':
            tags['float_values'] = 'quarter-integers'
        if case['kind'] == 'find':
            tags['find'] = case.get('tag', 'random')
            tags['find_values'] = case.get('values', 'small')
        big = 2 ** 24 if case['dtype'] == 'float32' else 2 ** 53
        if case['kind'] in ('rank', 'median', 'mean', 'meanf', 'tm', 'find') and not case.get('enc') \
                and any(abs(v) >= big * case.get('scale', 1) for v in case['data']):
            tags['magnitude'] = '>=2^63' if any(abs(v) >= 2 ** 63 for v in case['data']) else '>=2^53 (float32: 2^24)'
        if case.get('_undefined'):
            tags['pixels_without_samples'] = 'yes'
        if case.get('_skipped'):
            tags['pixels_skipped'] = 'yes'
        if case['kind'] == 'meanf':
            tags['meanf_values'] = case.get('values', '-')
            tags['meanf_exact_pixels'] = 'yes' if case.get('_exact') else 'no'
        if case['kind'] == 'tmf':
            tags['tmf_values'] = case.get('values', '-')
            tags['tmf_exact_pixels'] = 'yes' if case.get('_exact') else 'no'
        if case['kind'] == 'majority':
            tags['majority_n'] = str(case['n'])
        if case['kind'] == 'tm':
            tags['tm_overflow'] = ('n/a' if np.dtype(case['dtype']).kind == 'f' else
                                   'yes' if case.get('_overflow') else 'no')
            tags['tm_values'] = case.get('values', 'small')
        nt = got is not None and (bool(np.any(got)) if case['kind'] in ('find', 'majority') else
                                  not np.array_equal(np.asarray(got, np.float64), np.asarray(A, np.float64)))
        res.append(dict(findings=f, nontrivial=bool(nt), sig=line + case.get('layout', 'C') + case['dtype'], tags=tags))
    return res


def _corpus():
    d = core.VERIF / 'corpus' / ID
    out = []
    if d.exists():
        for p in sorted(d.glob('*.json')):
            out.append(json.loads(p.read_text())['case'])
    return out


def _huge_palette(dtype):
    """magnitudes at and beyond the point where a double (float: a single) stops being exact, and the dtype limits:
    'compute in double' rewrites of an integer kernel merge 2^53 and 2^53+1, lose 2^63.., saturate at the limits"""
    if dtype == 'float64':
        return [2 ** 53, 2 ** 53 + 2, 2 ** 60, 2 ** 1000, -2 ** 53, -(2 ** 53 + 2)]           # exactly representable
    if dtype == 'float32':
        return [2 ** 24, 2 ** 24 + 2, 2 ** 100, -2 ** 24, -(2 ** 24 + 2)]
    if dtype == 'bool':
        return [1]
    lo, hi = gen.dt_range(dtype)
    vals = [hi, hi - 1, lo, lo + 1, hi // 2 + 1]
    for b in (24, 53, 62, 63):
        vals += [2 ** b, 2 ** b + 1, 2 ** b + 2, -(2 ** b + 1)]
    return sorted({v for v in vals if lo <= v <= hi and v != 0})


def _huge_data(rng, n, dtype, density=None):
    pal = _huge_palette(dtype)
    pal = rng.sample(pal, min(len(pal), rng.randint(1, 3)))
    d = density if density is not None else rng.choice([0.15, 0.3, 0.6])
    lo = 0 if dtype.startswith('uint') or dtype == 'bool' else -1
    return [rng.choice(pal) if rng.random() < d else rng.randint(lo, 1) for _ in range(n)]


def _data(rng, n, dtype, small=False):
    dt = np.dtype(dtype)
    if dt.kind == 'f':
        return [rng.randint(-20, 40) for _ in range(n)]
    if dt.kind == 'b':
        return [int(rng.random() < 0.5) for _ in range(n)]
    if small:
        lo, hi = gen.dt_range(dtype)
        return [rng.randint(max(lo, -5), min(hi, 9)) for _ in range(n)]
    style = rng.random()
    if style > 0.8 and dt.itemsize >= 4:                # values at / beyond 2^24, 2^53, 2^63 and the limits, with ties
        return _huge_data(rng, n, dtype)
    if style < 0.4:                                     # many ties
        lo, hi = gen.dt_range(dtype)
        return [rng.randint(max(lo, -2), min(hi, 3)) for _ in range(n)]
    return [int(x) for x in gen.rand_int_array(rng, (n,), dtype).tolist()]


def _fbits_data(rng, n, dtype):
    """arbitrary non-NaN floats as embedded integers: palettes with ties (zero, denormals, 1, 1+ulp, max, +-inf) or uniform
    over all bit patterns"""
    inf = _FINF[dtype]
    one = 0x3F800000 if dtype == 'float32' else 0x3FF0000000000000
    minn = 0x00800000 if dtype == 'float32' else 0x0010000000000000
    pal = [0, 1, -1, minn - 1, minn, -minn, one, one + 1, -one, -(one + 1), inf - 1, -(inf - 1), inf, -inf, rng.randint(-inf, inf)]
    if rng.random() < 0.5:
        pal = rng.sample(pal, rng.randint(2, 6))
        return [rng.choice(pal) for _ in range(n)]
    return [rng.choice(pal) if rng.random() < 0.3 else rng.randint(-inf, inf) for _ in range(n)]


def _bc(rng, shape):
    nd = len(shape)
    r = rng.random()
    if r < 0.3:
        bshape = [3] * nd
    elif r < 0.6:
        bshape = [rng.choice([1, 2, 3, 4, 5]) for _ in range(nd)]
    elif r < 0.8:
        bshape = [s + rng.choice([0, 1, 2, 5]) for s in shape]
    else:
        bshape = [rng.choice([1, 2, 3]) for _ in range(nd)]
    while int(np.prod(bshape)) > 300:
        bshape[bshape.index(max(bshape))] = max(1, max(bshape) // 2)
    n = int(np.prod(bshape))
    p = rng.choice([0.3, 0.6, 1.0, 1.0])
    bc = [int(rng.random() < p) for _ in range(n)]
    if not any(bc):
        bc[rng.randrange(n)] = 1
    return bshape, bc


def _find_cases(rng, tier):
    out = []
    shapes = [(1, 1), (1, 4), (4, 1), (2, 2), (3, 4), (4, 3), (5, 5), (6, 6), (2, 6), (6, 2)]
    if tier == 'quick':
        shapes = [(1, 1), (2, 2)] + rng.sample(shapes[1:], 3)
    for (n0, n1) in shapes:
        for variant in range(3):
            dtype = rng.choice(DTYPES)
            hi = 1 if variant == 0 or dtype == 'bool' else 5       # binary images: many repeated occurrences
            data = [rng.randint(0, hi) for _ in range(n0 * n1)]
            if variant == 2:
                # a periodic row pattern (many true occurrences per row) with values at / beyond 2^53, 2^63 and the dtype
                # limits sprinkled in: occurrences to the right of (and below) a huge value must still be found
                dtype = rng.choice(['int64', 'uint64', 'int64', 'uint64', 'float64', 'float32', 'int32', 'uint16'])
                pal = _huge_palette(dtype)
                per = rng.choice([1, 2, 3])
                pat = [rng.randint(0, 2) for _ in range(per)]
                data = [pat[(i % n1) % per] for i in range(n0 * n1)]
                for r_ in range(n0):
                    if rng.random() < 0.7:
                        data[r_ * n1 + rng.choice([0, 0, min(1, n1 - 1), rng.randrange(n1)])] = rng.choice(pal)
            A = np.array(data, dtype=object).reshape(n0, n1)
            sizes = [(t0, t1) for t0 in range(1, n0 + 1) for t1 in range(1, n1 + 1)]
            if tier == 'quick' and len(sizes) > 9:
                sizes = rng.sample(sizes, 7) + [(n0, n1), (1, n1)]
            for (t0, t1) in sizes:
                places = [(y, x) for y in range(n0 - t0 + 1) for x in range(n1 - t1 + 1)]
                if tier == 'quick' and len(places) > 6:
                    places = rng.sample(places, 4) + [(n0 - t0, n1 - t1), (n0 - t0, 0)]
                for (y, x) in places:
                    T = A[y:y + t0, x:x + t1]
                    tag = ('whole' if (t0, t1) == (n0, n1) else 'flush' if (y == n0 - t0 or x == n1 - t1) else 'interior')
                    base = dict(kind='find', dtype=dtype, shape=[n0, n1], data=data, bshape=[t0, t1],
                                layout=rng.choice(gen.LAYOUTS), blayout=rng.choice(['C', 'C', 'F', 'strided']))
                    if variant == 2:
                        base['values'] = 'huge'
                    if dtype in ('float32', 'float64') and rng.random() < 0.7:
                        # zeros of either sign in image and template (equal as values, different as bit patterns)
                        base['negzero'] = [i for i, v in enumerate(data) if v == 0 and rng.random() < 0.5]
                        base['bnegzero'] = [i for i, v in enumerate(T.ravel().tolist()) if v == 0 and rng.random() < 0.5]
                        base['values'] = base.get('values', 'small') + '+signed-zeros'
                    out.append(dict(base, bc=[int(v) for v in T.ravel().tolist()], tag=tag))
                    if rng.random() < 0.25:
                        P = T.copy()
                        i = rng.randrange(P.size)
                        P.flat[i] = (P.flat[i] + 1) % (hi + 1) if variant < 2 else (0 if P.flat[i] else 1)
                        out.append(dict(base, bc=[int(v) for v in P.ravel().tolist()], tag='perturbed'))
            # templates that cannot fit
            out.append(dict(kind='find', dtype=dtype, shape=[n0, n1], data=data, bshape=[n0 + 1, 1], bc=[0] * (n0 + 1),
                            layout='C', tag='too-large'))
            out.append(dict(kind='find', dtype=dtype, shape=[n0, n1], data=data, bshape=[1, n1 + 2], bc=[0] * (n1 + 2),
                            layout='C', tag='too-large'))
    return out


def _currank_cases(rng, nblocks):
    """triples (n, N2, rank), n <= N2, rank < N2 < 2^26: the binary64 expression of rank_filter against the floor; half
    of them with n*rank one below / exactly at a multiple of N2 (quotient just below / at an integer)"""
    out = []
    for _ in range(nblocks):
        ns, n2s, rs = [], [], []
        for _ in range(2000):
            q = rng.random()
            if q < 0.3:
                N2 = rng.randint(1, 40); n = rng.randint(0, N2); r = rng.randrange(N2)
            elif q < 0.5:
                N2 = rng.randint(1, 2 ** 26 - 1); n = rng.randint(0, N2); r = rng.randrange(N2)
            elif q < 0.75:                     # n * rank = N2 - 1 (just below 1) or a multiple of N2 minus 1
                a, b = rng.randint(1, 2 ** 13 - 1), rng.randint(1, 2 ** 13 - 1)
                N2 = a * b + 1; n, r = a, b
            else:                              # n * rank an exact multiple of N2
                N2 = rng.randint(2, 2 ** 13); k = rng.randint(1, N2 - 1)
                n, r = k, N2 - 1
                if rng.random() < 0.5:
                    g = rng.randint(1, 2 ** 12); N2 = N2 * g; n = k * g; r = min(N2 - 1, (N2 // g) * rng.randint(0, g - 1))
            if N2 >= 2 ** 26 or n > N2 or r >= N2:
                continue
            ns.append(n); n2s.append(N2); rs.append(r)
        out.append(dict(kind='currank', n=ns, n2=n2s, rank=rs))
    return out


def _threshold_cases(rng, tier):
    """size-threshold stream: element counts / neighbourhood sizes / match positions crossing 2^8, 2^15, 2^16 (+-1), so that a
    counter, index or accumulator narrowed to 8/16 bits cannot pass. Judged by the same Lean model/spec (the driver is
    linear on these: < 1 s per line)."""
    pool = []
    def row(nn):
        return rng.choice([[nn], [1, nn], [nn, 1]])
    for nn in (2 ** 16 + 1, 2 ** 16, 2 ** 15 + 1, 2 ** 16 - 1):
        dt = rng.choice(['uint8', 'int32', 'uint16', 'float64', 'int64'])
        sh = row(nn)
        one = lambda k: [k if d > 1 else 1 for d in sh]
        pool.append(dict(kind='rank', dtype=dt, shape=sh, data=_data(rng, nn, dt, small=True), bshape=one(3), bc=[1, 1, 1],
                         rank=rng.randrange(3), mode=rng.choice(MODES), layout='C', size='pixels'))
        pool.append(dict(kind='mean', dtype=dt, shape=sh, data=_data(rng, nn, dt, small=True), bshape=one(3), bc=[1, 1, 1],
                         mode=rng.choice(MODES), layout='C', size='pixels'))
        dti = rng.choice(['uint8', 'uint16', 'int32', 'int8'])
        pool.append(dict(kind='tm', dtype=dti, shape=sh, data=_data(rng, nn, dti, small=True), bshape=one(3), bc=[1, 2, 3],
                         mode=rng.choice(MODES), layout='C', blayout='C', values='small', size='pixels'))
        # find: the only occurrence is flush with the far end (index > 65535)
        for sh2, ts in (([1, nn], [1, 3]), ([nn, 1], [3, 1])):
            pool.append(dict(kind='find', dtype=rng.choice(['uint8', 'int32', 'bool', 'float64'][:1] + ['int32', 'float64']),
                             shape=sh2, data=[0] * (nn - 3) + [1, 2, 3], bshape=ts, bc=[1, 2, 3], layout='C', tag='flush', size='pixels'))
    pool.append(dict(kind='median', dtype='int32', shape=[257, 256], data=_data(rng, 257 * 256, 'int32', small=True),
                     bshape=[3, 3], bc=[1] * 9, mode=rng.choice(MODES), layout='C', size='pixels'))
    pool.append(dict(kind='mean', dtype='uint8', shape=[256, 257], data=_data(rng, 257 * 256, 'uint8'),
                     bshape=[3, 3], bc=[0, 1, 0, 1, 1, 1, 0, 1, 0], mode='ignore', layout='C', size='pixels'))
    # neighbourhoods with 255 / 256 / 257 / 65537 members: n, N2, currank, the sample buffer
    for n2 in (255, 256, 257, 2 ** 16 + 1):
        ln = rng.randint(2, 5) if n2 > 1000 else rng.randint(100, 300)
        dt = rng.choice(['uint8', 'int32', 'float64'])
        pool.append(dict(kind='rank', dtype=dt, shape=[ln], data=_data(rng, ln, dt), bshape=[n2], bc=[1] * n2,
                         rank=rng.choice([n2 - 1, n2 // 2, rng.randrange(n2)]), mode=rng.choice(MODES), layout='C',
                         blayout='C', size='members'))
        pool.append(dict(kind='mean', dtype=dt, shape=[ln], data=_data(rng, ln, dt, small=True), bshape=[n2], bc=[1] * n2,
                         mode=rng.choice(MODES), layout='C', size='members'))
    if tier == 'quick':
        members = [c for c in pool if c['size'] == 'members']
        pixels = [c for c in pool if c['size'] == 'pixels']
        npx = lambda c: int(np.prod(c['shape']))
        big = [c for c in pixels if npx(c) >= 2 ** 16]            # unsigned 16-bit narrowing needs >= 2^16, signed > 2^15
        pick = [rng.choice([c for c in big if c['kind'] == k]) for k in ('rank', 'mean', 'tm')]
        pick += [c for c in big if c['kind'] == 'find' and npx(c) == 2 ** 16 + 1]          # both orientations
        pick += [c for c in big if len(c['shape']) == 2 and min(c['shape']) > 1]           # 257x256, 256x257
        pick += rng.sample([c for c in pixels if npx(c) < 2 ** 16], 1)
        n2 = lambda c: c['bshape'][0]
        pick += [rng.choice([c for c in members if c['kind'] == 'rank' and n2(c) in (256, 257)]),
                 rng.choice([c for c in members if c['kind'] == 'mean' and n2(c) in (256, 257)]),
                 rng.choice([c for c in members if n2(c) > 2 ** 16])]
        return pick
    return pool


def cases(rng, tier):
    out = list(_corpus()) if tier != 'search' else []
    out += _find_cases(rng, 'quick' if tier == 'quick' else 'thorough')
    if tier != 'search':
        out += _currank_cases(rng, 2 if tier == 'quick' else 20)
        out += _threshold_cases(rng, tier)
    nrand = dict(quick=12000, thorough=200000, search=20000)[tier]
    for _ in range(nrand):
        r = rng.random()
        dtype = rng.choice(DTYPES)
        mode = rng.choice(MODES)
        layout = rng.choice(gen.LAYOUTS)
        shape = list(gen.small_shape(rng, maxlen=7, bias=(1, 2, 3, 4, 5)))
        n = int(np.prod(shape))
        isf = np.dtype(dtype).kind == 'f'
        if r < 0.30:
            bshape, bc = _bc(rng, shape)
            n2 = sum(bc)
            c = dict(kind='rank', dtype=dtype, shape=shape, data=_data(rng, n, dtype), bshape=bshape, bc=bc,
                     rank=rng.choice([0, n2 - 1, n2 // 2, rng.randrange(n2)]), mode=mode, layout=layout,
                     blayout=rng.choice(['C', 'C', 'F', 'strided']), scale=rng.choice([1, 4]) if isf else 1)
            if isf and rng.random() < 0.45:
                c.update(enc='bits', scale=1, data=_fbits_data(rng, n, dtype))
            out.append(c)
        elif r < 0.42:
            bshape, bc = _bc(rng, shape)
            c = dict(kind='median', dtype=dtype, shape=shape, data=_data(rng, n, dtype), bshape=bshape, bc=bc, mode=mode,
                     layout=layout, scale=rng.choice([1, 4]) if isf else 1)
            if rng.random() < 0.3:
                c.update(default_bc=True, bshape=[3] * len(shape), bc=[1] * (3 ** len(shape)))
            if isf and rng.random() < 0.45:
                c.update(enc='bits', scale=1, data=_fbits_data(rng, n, dtype))
            out.append(c)
        elif r < 0.55:
            bshape, bc = _bc(rng, shape)
            data = _data(rng, n, dtype, small=rng.random() < 0.7)
            if dtype in ('int64', 'uint64'):
                data = [max(-2 ** 40, min(2 ** 40, v)) for v in data]
            out.append(dict(kind='mean', dtype=dtype, shape=shape, data=data, bshape=bshape, bc=bc,
                            mode=mode if rng.random() < 0.7 else 'ignore', layout=layout))
        elif r < 0.62:
            # template_match on float images with arbitrary dyadic values K / 2^s (both signs, fractions, magnitudes up to
            # the significand): every operation of the kernel rounds; bit for bit against the generic kernel run by the
            # driver in binary64 / binary32, and against the exact SSD within the error bound of the summation
            nd = len(shape)
            fdt = rng.choice(['float32', 'float64'])
            tshape = ([rng.choice([1, 2, 3, 4]) for _ in range(nd)] if rng.random() < 0.8 else [s_ + rng.choice([0, 1, 3]) for s_ in shape])
            while int(np.prod(tshape)) > 60:
                tshape[tshape.index(max(tshape))] = max(1, max(tshape) // 2)
            nt = int(np.prod(tshape))
            sexp = rng.choice([0, 0, 3, 10])
            top = 2 ** 24 - 1 if fdt == 'float32' else 2 ** 52
            values = rng.choice(['small', 'medium', 'significand', 'mixed'])
            def kv():
                mag = dict(small=9, medium=3000, significand=top)[values if values != 'mixed' else rng.choice(['small', 'medium', 'significand'])]
                return rng.randint(-mag, mag)
            out.append(dict(kind='tmf', dtype=fdt, shape=shape, data=[kv() for _ in range(n)], bshape=tshape,
                            bc=[kv() for _ in range(nt)], scale=2 ** sexp, mode=mode, layout=layout,
                            blayout=rng.choice(['C', 'C', 'F', 'strided']), values=values))
        elif r < 0.68:
            # mean_filter on float images with arbitrary dyadic values of both signs (cancellation): the double accumulation
            # in scan order, bit for bit against the generic kernel; against the exact mean within the summation bound
            bshape, bc = _bc(rng, shape)
            fdt = rng.choice(['float32', 'float64', 'float32', 'float64', 'int64', 'uint64'])
            sexp = rng.choice([0, 0, 3, 10])
            top = 2 ** 24 - 1 if fdt == 'float32' else 2 ** 52
            values = rng.choice(['small', 'medium', 'significand', 'mixed'])
            def kv():
                mag = dict(small=9, medium=3000, significand=top)[values if values != 'mixed' else rng.choice(['small', 'medium', 'significand'])]
                return rng.randint(-mag, mag)
            if fdt in ('int64', 'uint64'):
                # 64-bit integers at / beyond 2^53 and 2^63: the conversion of each sample to double rounds, the double
                # accumulation rounds; bit for bit against the same steps, bounded against the exact integer mean
                sexp, values = 0, 'huge'
                mdata = _huge_data(rng, n, fdt)
            else:
                mdata = [kv() for _ in range(n)]
            out.append(dict(kind='meanf', dtype=fdt, shape=shape, data=mdata, bshape=bshape, bc=bc,
                            scale=2 ** sexp, mode=mode if rng.random() < 0.7 else 'ignore', layout=layout, values=values))
        elif r < 0.71:
            rows, cols = rng.randint(1, 9), rng.randint(1, 9)
            dens = rng.choice([0.3, 0.5, 0.5, 0.7, 1.0])
            out.append(dict(kind='majority', dtype='bool', shape=[rows, cols],
                            data=[int(rng.random() < dens) for _ in range(rows * cols)], n=rng.randint(2, 7),
                            bshape=[1, 1], bc=[0], layout=layout))
        elif r < 0.90:
            nd = len(shape)
            q = rng.random()
            tshape = ([rng.choice([1, 2, 3, 4]) for _ in range(nd)] if q < 0.7 else [s + rng.choice([0, 1, 3]) for s in shape])
            while int(np.prod(tshape)) > 60:
                tshape[tshape.index(max(tshape))] = max(1, max(tshape) // 2)
            nt = int(np.prod(tshape))
            values = 'small'
            if dtype != 'bool' and not isf and rng.random() < 0.45:
                # large differences: sums (8/16-bit: also the promoted int products, signed: the differences themselves)
                # overflow the dtype; judged exactly against the wrapping model
                lo_, hi_ = gen.dt_range(dtype)
                values = rng.choice(['full-range', 'extremes', 'mid', 'huge'] if np.dtype(dtype).itemsize >= 4 else ['full-range', 'extremes', 'mid'])
                hp = _huge_palette(dtype)
                def v():
                    if values == 'huge':
                        return rng.choice(hp) if rng.random() < 0.5 else rng.randint(max(lo_, -2), 2)
                    if values == 'extremes':
                        return rng.choice([lo_, hi_, lo_ + 1, hi_ - 1, 0, hi_ // 2])
                    if values == 'mid':            # differences around sqrt(range): some pixels overflow, some do not
                        b = max(2, int((hi_ // max(1, nt)) ** 0.5))
                        return rng.randint(max(lo_, -2 * b), min(hi_, 2 * b))
                    return rng.randint(lo_, hi_)
                data, bc = [v() for _ in range(n)], [v() for _ in range(nt)]
            else:
                hi = 1 if dtype == 'bool' else 3 if dtype in ('uint8', 'int8') else 6
                lo = -hi if (not isf and dtype.startswith('int') and rng.random() < 0.3) or (isf and rng.random() < 0.3) else 0
                data, bc = [rng.randint(lo, hi) for _ in range(n)], [rng.randint(lo, hi) for _ in range(nt)]
            out.append(dict(kind='tm', dtype=dtype, shape=shape, data=data, bshape=tshape, bc=bc, mode=mode, layout=layout,
                            blayout=rng.choice(['C', 'C', 'F', 'strided']), values=values))
        else:
            n0, n1 = rng.randint(1, 7), rng.randint(1, 7)
            t0, t1 = rng.randint(1, n0), rng.randint(1, n1)
            data = [rng.randint(0, 1) for _ in range(n0 * n1)]
            if rng.random() < 0.4:
                fdt = rng.choice(['int64', 'uint64', 'float64', 'int64', 'uint64', 'int32', 'float32'])
                data = _huge_data(rng, n0 * n1, fdt, density=rng.choice([0.1, 0.2]))
                y0, x0 = rng.randint(0, n0 - t0), rng.randint(0, n1 - t1)
                T = np.array(data, dtype=object).reshape(n0, n1)[y0:y0 + t0, x0:x0 + t1]
                out.append(dict(kind='find', dtype=fdt, shape=[n0, n1], data=data, bshape=[t0, t1],
                                bc=[int(v) for v in T.ravel().tolist()], layout=layout, tag='random', values='huge'))
                continue
            out.append(dict(kind='find', dtype=dtype, shape=[n0, n1], data=data, bshape=[t0, t1],
                            bc=[rng.randint(0, 1) for _ in range(t0 * t1)], layout=layout, tag='random'))
    return out


def shrink(case):
    if case['kind'] == 'currank':
        m = len(case['n'])
        if m > 1:
            for sl in (slice(0, m // 2), slice(m // 2, m)):
                yield dict(case, n=case['n'][sl], n2=case['n2'][sl], rank=case['rank'][sl])
        return
    shape, data = case['shape'], case['data']
    A = np.array(data, dtype=object).reshape(shape)
    k = case['kind']
    for ax in range(len(shape)):
        if shape[ax] > 1:
            for j in (shape[ax] - 1, 0):
                B = np.delete(A, j, axis=ax)
                yield dict(case, shape=list(B.shape), data=[int(x) for x in B.ravel().tolist()])
    for key in ('layout', 'blayout'):
        if case.get(key, 'C') != 'C':
            yield dict(case, **{key: 'C'})
    if case.get('default_bc') or k == 'majority':
        return
    Bc = np.array(case['bc'], dtype=object).reshape(case['bshape'])
    for ax in range(Bc.ndim):
        if Bc.shape[ax] > 1:
            for j in (Bc.shape[ax] - 1, 0):
                B = np.delete(Bc, j, axis=ax)
                bc = [int(x) for x in B.ravel().tolist()]
                if k in ('rank', 'median', 'mean', 'meanf') and not any(bc):
                    continue
                c = dict(case, bshape=list(B.shape), bc=bc)
                if k == 'rank':
                    c['rank'] = min(case['rank'], sum(1 for v in bc if v) - 1)
                yield c
    for i, v in enumerate(data):
        if v not in (0, 1):
            d = list(data); d[i] = 0
            yield dict(case, data=d)
