"""C07 — rank / median / mean filters, template_match and find equal their definitions."""
from __future__ import annotations
import json, warnings
from fractions import Fraction
import numpy as np
from .. import core, gen

ID = 'C07'
FOUNDATIONS = ['harness.foundation.filteriter', 'harness.foundation.cscalar']   # the models use the closed form proved by F6 (filterIter_refines)
LEAN_TARGETS = ['Mahotas.Proofs.FilterIter']
LEVEL = 'proof'
MODES = ['nearest', 'wrap', 'reflect', 'mirror', 'constant', 'ignore']
DTYPES = ['uint8', 'int32', 'float64', 'int8', 'uint16', 'int64', 'uint64', 'float32', 'bool']
DTNAMES = {'bool': 'b1', 'uint8': 'u8', 'uint16': 'u16', 'uint32': 'u32', 'uint64': 'u64',
           'int8': 'i8', 'int16': 'i16', 'int32': 'i32', 'int64': 'i64'}   # protocol names of DT.ofName
RULE = ('corpus; find: every placement of every sub-window of seeded images up to 6x6 (incl. last row/column and template = '
        'image) plus perturbed (non-occurring) templates; random 1-3 D x 9 dtypes x 7 layouts x 0/1 neighbourhoods of every '
        'shape (odd/even, larger than the image, centre absent) x every rank x 6 modes; templates of every shape. '
        'Non-trivial = output differs from the input / at least one match; distinct = distinct protocol line + layout.')
ASSUMPTIONS = ['neighbourhoods Bc are 0/1 arrays (median rank = Bc.sum()//2 counts the members); for an even number of samples '
               'the median is element N//2 of the sorted samples (upper median), rescaled like any rank in ignore mode',
               'ranks inside [0, number of members): outside it rank_filter writes nothing (not part of the documented domain)',
               'pixels where no sample at all is selected (ignore mode, centre not a member) are not compared',
               'constant mode with cval = 0 (the only value the wrappers accept)',
               'template_match against the specification: pixels whose exact sum of squared differences fits the image dtype '
               '(the docstring: computed in the dtype of f, may overflow); in constant mode only pixels whose whole window lies '
               'inside the image (the statement does not say what a constant sample contributes). Integer and bool dtypes: '
               'EVERY pixel, overflowing or not, is in addition compared with the model in the wrap-around arithmetic of the '
               'dtype (= exact value mod 2^bits, C07_template_match_wrapping); float dtypes: small integer values (exact), '
               'out-of-range pixels skipped',
               'float images hold integer-valued (or quarter-integer, rank filters only) samples: exact arithmetic, no NaN',
               'mean: sums below 2^53 (exact in double); sizes < 2^26']
TRUSTED = ['numpy (array construction, layout views)', 'python fractions (correctly rounded exact mean)']
EXHAUSTIVE = {'thorough': True}
EXPLANATION = ('model = transliteration of rank_filter/mean_filter/template_match/find2d over exact integers (template_match also in '
               'the wrap-around arithmetic of the image dtype, with the integral promotions), run by the native '
               'Lean driver; spec = k-th smallest by counting, exact sum/n, sum of squared differences with borderSpec, '
               'occurrence predicate')


def _arr(case):
    a = np.array(case['data'], dtype=object)
    dt = np.dtype(case['dtype'])
    if dt.kind == 'f':
        a = (np.array(case['data'], dtype=np.float64) / case.get('scale', 1)).astype(dt)
    else:
        a = a.astype(dt)
    return a.reshape(case['shape'])


def _line(case):
    k = case['kind']
    s = (f"c07 kind={k} mode={MODES.index(case.get('mode', 'reflect'))} shape={gen.enc_shape(case['shape'])} "
         f"data={gen.enc_arr(case['data'])} bshape={gen.enc_shape(case['bshape'])} bc={gen.enc_arr(case['bc'])}")
    if k == 'rank':
        s += f" rank={case['rank']}"
    if k == 'tm' and case['dtype'] in DTNAMES:
        s += f" dt={DTNAMES[case['dtype']]}"
    return s


def _call(case, Al):
    import mahotas as mh
    k = case['kind']
    dt = Al.dtype
    B = np.array(case['bc'], dtype=object).astype(dt).reshape(case['bshape']) if len(case['bc']) else np.zeros(case['bshape'], dt)
    B = gen.relayout(B, case.get('blayout', 'C')) if B.size else B
    with warnings.catch_warnings():
        warnings.simplefilter('ignore')
        if k == 'rank':
            return mh.rank_filter(Al, B, case['rank'], mode=case['mode'])
        if k == 'median':
            if case.get('default_bc'):
                return mh.median_filter(Al, mode=case['mode'])
            return mh.median_filter(Al, B, mode=case['mode'])
        if k == 'mean':
            return mh.mean_filter(Al, B, mode=case['mode'])
        if k == 'tm':
            return mh.template_match(Al, B, mode=case['mode'])
        if k == 'find':
            return mh.find(Al, B)
    raise ValueError(k)


def _opt(s):
    return [None if x == 'u' else int(x) for x in s.split(',')] if s else []


def _judge(case, got, drv):
    k = case['kind']
    if 'error' in drv:
        raise core.Infra('driver: ' + drv['error'])
    if got is None:
        return [dict(kind='property', key=f'{k}:raises', detail=dict(error=case.get('_error', '')))]
    got = np.asarray(got)
    if list(got.shape) != list(case['shape']):
        return [dict(kind='property', key=f'{k}:shape', detail=dict(shape=list(got.shape)))]
    out = []
    sc = case.get('scale', 1)
    isf = np.dtype(case['dtype']).kind == 'f'
    if k in ('rank', 'median'):
        g = got.ravel(order='C').tolist()
        g = [int(round(x * sc)) if isf else int(x) for x in g]
        spec, model = _opt(drv['spec']), _opt(drv['model'])
        bad = [i for i, (a, b) in enumerate(zip(g, spec)) if b is not None and a != b]
        if bad:
            out.append(dict(kind='property', key=f'{k}', detail=dict(pixels=bad[:8], got=g, spec=spec, mode=case['mode'])))
        else:
            badm = [i for i, (a, b) in enumerate(zip(g, model)) if b is not None and a != b]
            if badm or [x is None for x in spec] != [x is None for x in model]:
                out.append(dict(kind='model', key=f'{k}-model', detail=dict(pixels=badm[:8], got=g, model=model)))
        case['_undefined'] = sum(1 for x in spec if x is None)
    elif k == 'mean':
        if got.dtype != np.float64:
            return [dict(kind='property', key='mean:dtype', detail=dict(dtype=str(got.dtype)))]
        g = got.ravel(order='C')
        sums, ns = core.ints(drv['sum']), core.ints(drv['n'])
        model = core.floats(drv['model'])
        bad = [i for i, (s, n) in enumerate(zip(sums, ns)) if n > 0 and g[i] != float(Fraction(s, n))]
        if bad:
            out.append(dict(kind='property', key='mean', detail=dict(pixels=bad[:8], got=g.tolist(), sums=sums, ns=ns,
                                                                      mode=case['mode'])))
        else:
            badm = [i for i, n in enumerate(ns) if n > 0 and g[i] != model[i]]
            if badm:
                out.append(dict(kind='model', key='mean-model', detail=dict(pixels=badm[:8], got=g.tolist(), model=model.tolist())))
        case['_undefined'] = sum(1 for n in ns if n == 0)
    elif k == 'tm':
        g = [int(x) for x in got.ravel(order='C').tolist()]
        spec, model, obs = core.ints(drv['spec']), core.ints(drv['model']), core.ints(drv['obs'])
        lo, hi = (0, 1) if case['dtype'] == 'bool' else gen.dt_range(case['dtype']) if not isf else (-2 ** 24, 2 ** 24)
        cmp = [(case['mode'] != 'constant' or o) and lo <= s <= hi for s, o in zip(spec, obs)]
        bad = [i for i, (a, b, c) in enumerate(zip(g, spec, cmp)) if c and a != b]
        case['_overflow'] = sum(1 for b in model if not lo <= b <= hi)
        if bad:
            out.append(dict(kind='property', key='template_match', detail=dict(pixels=bad[:8], got=g, spec=spec, mode=case['mode'])))
        elif not isf:
            # integer dtypes and bool: EVERY pixel (overflowing ones, constant-mode border pixels) against the model in
            # the dtype's wrap-around arithmetic (C07_template_match_wrapping: = exact SSD reduced modulo 2^bits)
            wrap = core.ints(drv['wrap'])
            badm = [i for i, (a, b) in enumerate(zip(g, wrap)) if a != b]
            if badm or len(wrap) != len(g):
                out.append(dict(kind='model', key='template_match-wrap', detail=dict(pixels=badm[:8], got=g, wrap=wrap,
                                                                                     exact=model)))
            case['_skipped'] = 0
        else:
            case['_skipped'] = sum(1 for c in cmp if not c)
            badm = [i for i, (a, b) in enumerate(zip(g, model)) if lo <= b <= hi and a != b]
            if badm:
                out.append(dict(kind='model', key='template_match-model', detail=dict(pixels=badm[:8], got=g, model=model)))
    elif k == 'find':
        if got.dtype != np.bool_:
            return [dict(kind='property', key='find:dtype', detail=dict(dtype=str(got.dtype)))]
        g = [int(x) for x in got.ravel(order='C').tolist()]
        spec, model = core.ints(drv['spec']), core.ints(drv['model'])
        bad = [i for i, (a, b) in enumerate(zip(g, spec)) if a != b]
        if bad:
            N0, N1 = case['shape']
            T0, T1 = case['bshape']
            flush = all((i // N1 == N0 - T0 or i % N1 == N1 - T1) and spec[i] == 1 for i in bad)
            out.append(dict(kind='property', key='find:flush-edge' if flush else 'find',
                            detail=dict(pixels=bad[:8], got=g, spec=spec)))
        elif g != model:
            out.append(dict(kind='model', key='find-model', detail=dict(got=g, model=model)))
    return out


def evaluate(cases):
    res = []
    lines = [_line(c) for c in cases]
    drvs = core.drive(lines)
    for case, line, drv in zip(cases, lines, drvs):
        A = _arr(case)
        Al = gen.relayout(A, case.get('layout', 'C'))
        before = Al.copy()
        try:
            got = _call(case, Al)
        except Exception as e:
            got = None
            case['_error'] = repr(e)
        f = _judge(case, got, drv)
        if not np.array_equal(before, Al):
            f.append(dict(kind='property', key='input-modified', detail={}))
        clean = {k: v for k, v in case.items() if not k.startswith('_')}
        for x in f:
            x['case'] = clean
        bs, sh = case['bshape'], case['shape']
        tags = dict(kind=case['kind'], dtype=case['dtype'], ndim=len(sh), layout=case.get('layout', 'C'),
                    mode=case.get('mode', '-'),
                    elem=('larger' if any(b > s for b, s in zip(bs, sh)) else 'even' if any(b % 2 == 0 for b in bs) else 'odd'))
        if case['kind'] == 'find':
            tags['find'] = case.get('tag', 'random')
        if case.get('_undefined'):
            tags['pixels_without_samples'] = 'yes'
        if case.get('_skipped'):
            tags['pixels_skipped'] = 'yes'
        if case['kind'] == 'tm':
            tags['tm_overflow'] = ('n/a' if np.dtype(case['dtype']).kind == 'f' else
                                   'yes' if case.get('_overflow') else 'no')
            tags['tm_values'] = case.get('values', 'small')
        nt = got is not None and (bool(np.any(got)) if case['kind'] == 'find' else
                                  not np.array_equal(np.asarray(got, np.float64), np.asarray(A, np.float64)))
        res.append(dict(findings=f, nontrivial=bool(nt), sig=line + case.get('layout', 'C') + case['dtype'], tags=tags))
    return res


def _corpus():
    d = core.VERIF / 'corpus' / ID
    out = []
    if d.exists():
        for p in sorted(d.glob('*.json')):
            out.append(json.loads(p.read_text())['case'])
    return out


def _data(rng, n, dtype, small=False):
    dt = np.dtype(dtype)
    if dt.kind == 'f':
        return [rng.randint(-20, 40) for _ in range(n)]
    if dt.kind == 'b':
        return [int(rng.random() < 0.5) for _ in range(n)]
    if small:
        lo, hi = gen.dt_range(dtype)
        return [rng.randint(max(lo, -5), min(hi, 9)) for _ in range(n)]
    style = rng.random()
    if style < 0.4:                                     # many ties
        lo, hi = gen.dt_range(dtype)
        return [rng.randint(max(lo, -2), min(hi, 3)) for _ in range(n)]
    return [int(x) for x in gen.rand_int_array(rng, (n,), dtype).tolist()]


def _bc(rng, shape):
    nd = len(shape)
    r = rng.random()
    if r < 0.3:
        bshape = [3] * nd
    elif r < 0.6:
        bshape = [rng.choice([1, 2, 3, 4, 5]) for _ in range(nd)]
    elif r < 0.8:
        bshape = [s + rng.choice([0, 1, 2, 5]) for s in shape]
    else:
        bshape = [rng.choice([1, 2, 3]) for _ in range(nd)]
    while int(np.prod(bshape)) > 300:
        bshape[bshape.index(max(bshape))] = max(1, max(bshape) // 2)
    n = int(np.prod(bshape))
    p = rng.choice([0.3, 0.6, 1.0, 1.0])
    bc = [int(rng.random() < p) for _ in range(n)]
    if not any(bc):
        bc[rng.randrange(n)] = 1
    return bshape, bc


def _find_cases(rng, tier):
    out = []
    shapes = [(1, 1), (1, 4), (4, 1), (2, 2), (3, 4), (4, 3), (5, 5), (6, 6), (2, 6), (6, 2)]
    if tier == 'quick':
        shapes = [(1, 1), (2, 2)] + rng.sample(shapes[1:], 3)
    for (n0, n1) in shapes:
        for variant in range(2):
            dtype = rng.choice(DTYPES)
            hi = 1 if variant == 0 or dtype == 'bool' else 5       # binary images: many repeated occurrences
            data = [rng.randint(0, hi) for _ in range(n0 * n1)]
            A = np.array(data).reshape(n0, n1)
            sizes = [(t0, t1) for t0 in range(1, n0 + 1) for t1 in range(1, n1 + 1)]
            if tier == 'quick' and len(sizes) > 9:
                sizes = rng.sample(sizes, 7) + [(n0, n1), (1, n1)]
            for (t0, t1) in sizes:
                places = [(y, x) for y in range(n0 - t0 + 1) for x in range(n1 - t1 + 1)]
                if tier == 'quick' and len(places) > 6:
                    places = rng.sample(places, 4) + [(n0 - t0, n1 - t1), (n0 - t0, 0)]
                for (y, x) in places:
                    T = A[y:y + t0, x:x + t1]
                    tag = ('whole' if (t0, t1) == (n0, n1) else 'flush' if (y == n0 - t0 or x == n1 - t1) else 'interior')
                    base = dict(kind='find', dtype=dtype, shape=[n0, n1], data=data, bshape=[t0, t1],
                                layout=rng.choice(gen.LAYOUTS), blayout=rng.choice(['C', 'C', 'F', 'strided']))
                    out.append(dict(base, bc=[int(v) for v in T.ravel().tolist()], tag=tag))
                    if rng.random() < 0.25:
                        P = T.copy()
                        i = rng.randrange(P.size)
                        P.flat[i] = (P.flat[i] + 1) % (hi + 1)
                        out.append(dict(base, bc=[int(v) for v in P.ravel().tolist()], tag='perturbed'))
            # templates that cannot fit
            out.append(dict(kind='find', dtype=dtype, shape=[n0, n1], data=data, bshape=[n0 + 1, 1], bc=[0] * (n0 + 1),
                            layout='C', tag='too-large'))
            out.append(dict(kind='find', dtype=dtype, shape=[n0, n1], data=data, bshape=[1, n1 + 2], bc=[0] * (n1 + 2),
                            layout='C', tag='too-large'))
    return out


def cases(rng, tier):
    out = list(_corpus()) if tier != 'search' else []
    out += _find_cases(rng, 'quick' if tier == 'quick' else 'thorough')
    nrand = dict(quick=10000, thorough=200000, search=20000)[tier]
    for _ in range(nrand):
        r = rng.random()
        dtype = rng.choice(DTYPES)
        mode = rng.choice(MODES)
        layout = rng.choice(gen.LAYOUTS)
        shape = list(gen.small_shape(rng, maxlen=7, bias=(1, 2, 3, 4, 5)))
        n = int(np.prod(shape))
        isf = np.dtype(dtype).kind == 'f'
        if r < 0.35:
            bshape, bc = _bc(rng, shape)
            n2 = sum(bc)
            out.append(dict(kind='rank', dtype=dtype, shape=shape, data=_data(rng, n, dtype), bshape=bshape, bc=bc,
                            rank=rng.choice([0, n2 - 1, n2 // 2, rng.randrange(n2)]), mode=mode, layout=layout,
                            blayout=rng.choice(['C', 'C', 'F', 'strided']), scale=rng.choice([1, 4]) if isf else 1))
        elif r < 0.50:
            bshape, bc = _bc(rng, shape)
            c = dict(kind='median', dtype=dtype, shape=shape, data=_data(rng, n, dtype), bshape=bshape, bc=bc, mode=mode,
                     layout=layout, scale=rng.choice([1, 4]) if isf else 1)
            if rng.random() < 0.3:
                c.update(default_bc=True, bshape=[3] * len(shape), bc=[1] * (3 ** len(shape)))
            out.append(c)
        elif r < 0.70:
            bshape, bc = _bc(rng, shape)
            data = _data(rng, n, dtype, small=rng.random() < 0.7)
            if dtype in ('int64', 'uint64'):
                data = [max(-2 ** 40, min(2 ** 40, v)) for v in data]
            out.append(dict(kind='mean', dtype=dtype, shape=shape, data=data, bshape=bshape, bc=bc,
                            mode=mode if rng.random() < 0.7 else 'ignore', layout=layout))
        elif r < 0.90:
            nd = len(shape)
            q = rng.random()
            tshape = ([rng.choice([1, 2, 3, 4]) for _ in range(nd)] if q < 0.7 else [s + rng.choice([0, 1, 3]) for s in shape])
            while int(np.prod(tshape)) > 60:
                tshape[tshape.index(max(tshape))] = max(1, max(tshape) // 2)
            nt = int(np.prod(tshape))
            values = 'small'
            if dtype != 'bool' and not isf and rng.random() < 0.45:
                # large differences: sums (8/16-bit: also the promoted int products, signed: the differences themselves)
                # overflow the dtype; judged exactly against the wrapping model
                lo_, hi_ = gen.dt_range(dtype)
                values = rng.choice(['full-range', 'extremes', 'mid'])
                def v():
                    if values == 'extremes':
                        return rng.choice([lo_, hi_, lo_ + 1, hi_ - 1, 0, hi_ // 2])
                    if values == 'mid':            # differences around sqrt(range): some pixels overflow, some do not
                        b = max(2, int((hi_ // max(1, nt)) ** 0.5))
                        return rng.randint(max(lo_, -2 * b), min(hi_, 2 * b))
                    return rng.randint(lo_, hi_)
                data, bc = [v() for _ in range(n)], [v() for _ in range(nt)]
            else:
                hi = 1 if dtype == 'bool' else 3 if dtype in ('uint8', 'int8') else 6
                lo = -hi if (not isf and dtype.startswith('int') and rng.random() < 0.3) or (isf and rng.random() < 0.3) else 0
                data, bc = [rng.randint(lo, hi) for _ in range(n)], [rng.randint(lo, hi) for _ in range(nt)]
            out.append(dict(kind='tm', dtype=dtype, shape=shape, data=data, bshape=tshape, bc=bc, mode=mode, layout=layout,
                            blayout=rng.choice(['C', 'C', 'F', 'strided']), values=values))
        else:
            n0, n1 = rng.randint(1, 7), rng.randint(1, 7)
            t0, t1 = rng.randint(1, n0), rng.randint(1, n1)
            data = [rng.randint(0, 1) for _ in range(n0 * n1)]
            out.append(dict(kind='find', dtype=dtype, shape=[n0, n1], data=data, bshape=[t0, t1],
                            bc=[rng.randint(0, 1) for _ in range(t0 * t1)], layout=layout, tag='random'))
    return out


def shrink(case):
    shape, data = case['shape'], case['data']
    A = np.array(data, dtype=object).reshape(shape)
    k = case['kind']
    for ax in range(len(shape)):
        if shape[ax] > 1:
            for j in (shape[ax] - 1, 0):
                B = np.delete(A, j, axis=ax)
                yield dict(case, shape=list(B.shape), data=[int(x) for x in B.ravel().tolist()])
    for key in ('layout', 'blayout'):
        if case.get(key, 'C') != 'C':
            yield dict(case, **{key: 'C'})
    if case.get('default_bc'):
        return
    Bc = np.array(case['bc'], dtype=object).reshape(case['bshape'])
    for ax in range(Bc.ndim):
        if Bc.shape[ax] > 1:
            for j in (Bc.shape[ax] - 1, 0):
                B = np.delete(Bc, j, axis=ax)
                bc = [int(x) for x in B.ravel().tolist()]
                if k in ('rank', 'median', 'mean') and not any(bc):
                    continue
                c = dict(case, bshape=list(B.shape), bc=bc)
                if k == 'rank':
                    c['rank'] = min(case['rank'], sum(1 for v in bc if v) - 1)
                yield c
    for i, v in enumerate(data):
        if v not in (0, 1):
            d = list(data); d[i] = 0
            yield dict(case, data=d)
