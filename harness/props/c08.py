"""C08 — results depend only on logical input: layout-independent, repeatable, pure.

Three streams of cases:
  view    the Lean accessor model (iterator_base, at_flat, pos_to_flat/flat_to_pos, row pointer) against numpy's own
          view semantics (np.lib.stride_tricks.as_strided over an address-valued buffer) and against the compiled
          iterator_base (labeled_sum over an arbitrarily strided view with labels 0..n-1 reports the visiting order);
  sweep   every public array-taking function x every array argument x 7 layouts: result compared with the
          C-contiguous call, arguments (and the padding around strided/offset views) hashed before/after,
          and the same call repeated in two worker processes with different heap histories;
  cover   the registry is compared with the public API found by introspection.
"""
from __future__ import annotations
import base64, hashlib, importlib, json, os, pickle, random, subprocess, sys, types, warnings
import numpy as np
from .. import core, gen

ID = 'C08'
FOUNDATIONS = ['harness.foundation.cscalar']   # ties of the C++ helper functions the model rests on (generated from their text)
LEVEL = 'other'
RULE = ('corpus; accessor-model cases: random 1-4 D shapes x random element strides (negative, zero, non-monotone, offsets) '
        'compared with numpy as_strided and with the compiled iterator through labeled_sum; sweep: every registered public '
        'function (registry checked against introspection of the public modules) x every ndarray argument x 7 layouts x '
        'seeded in-domain inputs, each call also repeated in two subprocesses (MALLOC_PERTURB_=85/170, freed buffers of the '
        'sizes involved pre-filled with 0xAA/0x55). Non-trivial = the laid-out argument is not C-contiguous or not writeable '
        '(sweep) / the view has >1 element (view); distinct = distinct (function, argument, layout, input seed, size).')
ASSUMPTIONS = ['inputs are drawn from each function\'s documented domain (dtype, rank, value range) by the registry generators',
               'float results are compared with relative tolerance 1e-12 (of the largest magnitude in the result); bool/int bit-identical',
               'functions asked to work in place (inplace/inline/in_place=True) and documented canvases (polygon.line, fill_polygon) '
               'are exempt from the no-modification clause for that argument and are not given read-only views of it',
               'NaN positions must coincide; array sizes < 2^31',
               'heap-history independence is validated dynamically (two perturbed worker processes), not proved']
TRUSTED = ['numpy (array construction, as_strided views, comparison)', 'glibc MALLOC_PERTURB_ and numpy\'s small-block cache '
           'as the source of differing heap contents']
EXPLANATION = ('Lean theorems cover the accessor layer (iterator/at_flat/pos_to_flat for any strides); the whole-API layout, '
               'purity and heap-history claims are validated by the sweep on the rebuilt code.')

PUBLIC_MODULES = ['mahotas', 'mahotas.labeled', 'mahotas.morph', 'mahotas.features', 'mahotas.segmentation', 'mahotas.polygon',
                  'mahotas.interpolate', 'mahotas.thresholding', 'mahotas.colors', 'mahotas.convolve', 'mahotas.features.surf',
                  'mahotas.features.texture', 'mahotas.features.lbp', 'mahotas.features.tas', 'mahotas.features.zernike',
                  'mahotas.features.shape', 'mahotas.features.moments', 'mahotas.stretch', 'mahotas.euler', 'mahotas.thin',
                  'mahotas.distance', 'mahotas.center_of_mass', 'mahotas.bbox', 'mahotas.histogram', 'mahotas.resize',
                  'mahotas.edge']
# public callables that take no array argument (or are I/O / display / test runners)
NOT_ARRAY_TAKING = {'mahotas.citation', 'mahotas.io.pil.imread', 'mahotas.io.pil.imsave', 'mahotas.tests.run',
                    'mahotas.morph.disk', 'mahotas.features.surf.show_surf', 'mahotas.io.freeimage.imread',
                    'mahotas.io.freeimage.imsave', 'mahotas.morph.circle_se', 'mahotas.io.error_imread',
                    'mahotas.io.error_imsave', 'mahotas.error_imread', 'mahotas.error_imsave'}


# ------------------------------------------------------------------------------------------------------------------
# input generators (everything from one seeded random.Random; integer-valued floats keep most arithmetic exact)

class G:
    def __init__(self, seed, size):
        self.r = random.Random(seed)
        self.size = max(3, int(size))

    def shape(self, nd=2, lo=3):
        return tuple(self.r.randint(lo, max(lo, self.size)) for _ in range(nd))

    def ints(self, shape, lo, hi, dtype):
        n = int(np.prod(shape))
        return np.array([self.r.randint(lo, hi) for _ in range(n)], dtype=np.int64).astype(dtype).reshape(shape)

    def u8(self, shape, hi=6):
        return self.ints(shape, 0, hi, np.uint8)

    def b(self, shape, p=0.55):
        n = int(np.prod(shape))
        return np.array([self.r.random() < p for _ in range(n)], bool).reshape(shape)

    def fl(self, shape, lo=-4, hi=5):
        return self.ints(shape, lo, hi, np.float64)

    def lab(self, shape, n=3, dtype=np.int32):
        return self.ints(shape, 0, n, dtype)

    def idt(self):
        return self.r.choice([np.uint8, np.int8, np.uint16, np.int16, np.int32, np.uint32, np.int64, np.uint64])

    def img(self, shape, dtype=None):
        dtype = dtype or self.idt()
        return self.ints(shape, 0, 9, dtype)

    def bc(self, nd=2):
        m = self.b((3,) * nd, 0.6)
        m[(1,) * nd] = True
        return m

    def nd(self, choices=(1, 2, 2, 2, 3)):
        return self.r.choice(choices)


REG = {}
# catalogue functions that take no array argument (nothing to lay out): covered by the history stream only through their users
CATALOGUE_NO_ARRAY = {'mahotas.disk', 'mahotas.features.lbp.count_binary1s'}


def reg(name, path, genf, call, no_readonly=(), canvas=(), nd_min=1):
    REG[name] = dict(name=name, path=path, gen=genf, call=call, no_readonly=set(no_readonly), canvas=set(canvas))


def _registry():
    if REG:
        return REG
    L = 'mahotas.labeled.'
    M = 'mahotas.morph.'
    C = 'mahotas.convolve.'

    def morph_gen(g):
        nd = g.nd()
        shp = g.shape(nd, 2)
        dt = g.r.choice([bool, np.uint8, np.int16, np.uint16, np.int32])
        A = g.b(shp) if dt is bool else g.img(shp, dt)
        return dict(A=A, Bc=g.bc(nd).astype(A.dtype))
    for fn in ('erode', 'dilate', 'open', 'close', 'tophat_open', 'tophat_close'):
        reg(fn, M + fn, morph_gen, lambda f, a: f(a['A'], a['Bc']))

    def cmorph_gen(g):
        a = morph_gen(g)
        a['g'] = (a['A'] ^ g.b(a['A'].shape, 0.3)) if a['A'].dtype == bool else g.img(a['A'].shape, a['A'].dtype)
        return a
    reg('cerode', M + 'cerode', cmorph_gen, lambda f, a: f(a['A'], a['g'], a['Bc']))
    reg('cdilate', M + 'cdilate', cmorph_gen, lambda f, a: f(a['A'], a['g'], a['Bc'], 2))
    reg('subm', M + 'subm', lambda g: (lambda s, dt: dict(a=g.img(s, dt), b=g.img(s, dt)))(g.shape(g.nd(), 1), g.idt()),
        lambda f, a: f(a['a'], a['b']))
    reg('close_holes', M + 'close_holes', lambda g: dict(ref=g.b(g.shape(2, 4), 0.6), Bc=g.bc(2)),
        lambda f, a: f(a['ref'], a['Bc']))

    def ws_gen(g):
        nd = g.r.choice([2, 2, 3])
        shp = g.shape(nd, 3)
        mk = np.zeros(shp, np.int64)
        flat = mk.reshape(-1)
        for k, i in enumerate(g.r.sample(range(flat.size), 2)):
            flat[i] = k + 1
        return dict(surface=g.u8(shp), markers=mk, Bc=g.bc(nd))
    reg('cwatershed', M + 'cwatershed', ws_gen, lambda f, a: f(a['surface'], a['markers'], a['Bc'], return_lines=True))
    reg('cwatershed_default', M + 'cwatershed', ws_gen, lambda f, a: f(a['surface'], a['markers']))
    def hm_template(g):
        # mostly "don't care" so that the template matches often enough for wrong reads to show
        t = np.array([2 if g.r.random() < 0.65 else g.r.randint(0, 1) for _ in range(9)], np.uint8).reshape(3, 3)
        t[1, 1] = 1
        return t
    reg('hitmiss', M + 'hitmiss', lambda g: dict(input=g.u8(g.shape(2, 3), 1), Bc=hm_template(g)),
        lambda f, a: f(a['input'], a['Bc']))
    reg('hitmiss_bool', M + 'hitmiss', lambda g: dict(input=g.b(g.shape(2, 3)), Bc=hm_template(g)),
        lambda f, a: f(a['input'], a['Bc']))

    def ext_gen(g):
        nd = g.nd((1, 2, 2, 3))
        f = g.fl(g.shape(nd, 2), 0, 3) if g.r.random() < 0.3 else g.img(g.shape(nd, 2))
        return dict(f=f, Bc=g.bc(nd))
    for fn in ('locmax', 'locmin', 'regmax', 'regmin'):
        reg(fn, M + fn, ext_gen, lambda f, a: f(a['f'], a['Bc']))
    reg('majority_filter', M + 'majority_filter', lambda g: dict(img=g.b(g.shape(2, 3))), lambda f, a: f(a['img'], 3))
    reg('get_structuring_elem', M + 'get_structuring_elem', lambda g: dict(A=g.u8(g.shape(2, 2)), Bc=g.bc(2)),
        lambda f, a: f(a['A'], a['Bc']))

    # ---- convolve
    def conv_gen(g):
        nd = g.nd((1, 2, 2, 3))
        return dict(f=g.fl(g.shape(nd, 2)), weights=g.fl(tuple(g.r.randint(1, 3) for _ in range(nd)), 0, 3),
                    mode=g.r.choice(['reflect', 'nearest', 'wrap', 'mirror', 'constant', 'ignore']))
    reg('convolve', C + 'convolve', conv_gen, lambda f, a: f(a['f'], a['weights'], mode=a['mode']))

    def conv1_gen(g):
        nd = g.nd((1, 2, 2, 3))
        return dict(f=g.fl(g.shape(nd, 3)), weights=g.fl((g.r.choice([2, 3, 5]),), 0, 3), axis=g.r.randrange(nd))
    reg('convolve1d', C + 'convolve1d', conv1_gen, lambda f, a: f(a['f'], a['weights'], a['axis']))
    reg('gaussian_filter', C + 'gaussian_filter', lambda g: dict(array=g.fl(g.shape(g.nd((1, 2, 2, 3)), 3))),
        lambda f, a: f(a['array'], 0.75))
    reg('gaussian_filter1d', C + 'gaussian_filter1d', lambda g: dict(array=g.fl(g.shape(g.nd((1, 2, 2)), 3))),
        lambda f, a: f(a['array'], 0.75, 0))
    # the same sigma with other derivative orders (hidden per-sigma state would make these depend on earlier calls)
    reg('gaussian_filter_order1', C + 'gaussian_filter', lambda g: dict(array=g.fl(g.shape(g.nd((1, 2, 2, 3)), 3))),
        lambda f, a: f(a['array'], 0.75, order=1))
    reg('gaussian_filter_mixed', C + 'gaussian_filter', lambda g: dict(array=g.fl(g.shape(2, 3))),
        lambda f, a: f(a['array'], 0.75, order=(0, 1)))
    reg('gaussian_filter1d_order2', C + 'gaussian_filter1d', lambda g: dict(array=g.fl(g.shape(g.nd((1, 2, 2)), 3))),
        lambda f, a: f(a['array'], 0.75, 0, order=2))
    reg('laplacian_2D', C + 'laplacian_2D', lambda g: dict(array=g.fl(g.shape(2, 3))), lambda f, a: f(a['array']))

    def filt_gen(g):
        nd = g.nd((1, 2, 2, 3))
        return dict(f=g.img(g.shape(nd, 2), g.r.choice([np.uint8, np.int32, np.float64])), Bc=g.bc(nd))
    reg('median_filter', C + 'median_filter', filt_gen, lambda f, a: f(a['f'], a['Bc']))
    reg('rank_filter', C + 'rank_filter', filt_gen, lambda f, a: f(a['f'], a['Bc'], 0))
    reg('mean_filter', C + 'mean_filter', filt_gen, lambda f, a: f(a['f'], a['Bc']))
    reg('template_match', C + 'template_match', lambda g: dict(f=g.fl(g.shape(2, 3)), template=g.fl((2, 2), 0, 3)),
        lambda f, a: f(a['f'], a['template']))

    # a template whose dtype differs from the image's (the wrapper converts it; the conversion must not keep a layout
    # the native code cannot read)
    reg('template_match_dtypes', C + 'template_match',
        lambda g: dict(f=g.fl(g.shape(2, 3)), template=g.ints((2, 3), 0, 3, g.r.choice([np.int64, np.uint8, np.int32]))),
        lambda f, a: f(a['f'], a['template']))

    def find_gen(g):
        f = g.u8(g.shape(2, 4), 2)
        y, x = g.r.randrange(f.shape[0] - 1), g.r.randrange(f.shape[1] - 1)
        return dict(f=f, template=f[y:y + 2, x:x + 2].copy())
    reg('find', C + 'find', find_gen, lambda f, a: f(a['f'], a['template']))

    def find_float_gen(g):
        # float image of zeros and ones whose zeros carry either sign; the template is cut out of the image and the signs of ITS
        # zeros are flipped: equal as values (so every cut-out position is an occurrence), different as bit patterns
        shp = g.shape(2, 3)
        dt = g.r.choice([np.float64, np.float64, np.float32])
        f = np.array([[g.r.choice([0.0, -0.0, 1.0, 0.0]) for _ in range(shp[1])] for _ in range(shp[0])], dt)
        h, w = g.r.choice([1, 1, 2]), g.r.choice([1, 2, 2])
        y, x = g.r.randrange(f.shape[0] - h + 1), g.r.randrange(f.shape[1] - w + 1)
        t = f[y:y + h, x:x + w].copy()
        z = (t == 0)
        t[z] = -t[z]
        return dict(f=f, template=t)
    reg('find_float', C + 'find', find_float_gen, lambda f, a: f(a['f'], a['template']))

    def wav_gen(g):
        # every 2-D size is in the documented domain (odd axis lengths included: the last coefficient of an odd row is 0)
        if g.r.random() < 0.5:
            return dict(f=g.fl((2 * g.r.randint(2, 4), 2 * g.r.randint(2, 4))))
        return dict(f=g.fl((g.r.randint(2, 9), g.r.randint(2, 9))))
    reg('haar', C + 'haar', wav_gen, lambda f, a: f(a['f']))
    reg('ihaar', C + 'ihaar', wav_gen, lambda f, a: f(a['f']))
    reg('daubechies', C + 'daubechies', wav_gen, lambda f, a: f(a['f'], 'D4'))
    reg('idaubechies', C + 'idaubechies', wav_gen, lambda f, a: f(a['f'], 'D4'))
    # round 4: `inline=True` — the caller's own (possibly non-contiguous) array is transformed in place and returned; the
    # VALUE must still be a function of the logical content (rows are walked with `stride(1)`, columns through `f.T`)
    reg('haar_inline', C + 'haar', wav_gen, lambda f, a: np.array(f(a['f'], inline=True)), no_readonly=['f'], canvas=['f'])
    reg('ihaar_inline', C + 'ihaar', wav_gen, lambda f, a: np.array(f(a['f'], inline=True)), no_readonly=['f'], canvas=['f'])
    reg('daubechies_inline', C + 'daubechies', wav_gen, lambda f, a: np.array(f(a['f'], 'D4', inline=True)),
        no_readonly=['f'], canvas=['f'])
    reg('idaubechies_inline', C + 'idaubechies', wav_gen, lambda f, a: np.array(f(a['f'], 'D6', inline=True)),
        no_readonly=['f'], canvas=['f'])
    reg('wavelet_center', C + 'wavelet_center', lambda g: dict(f=g.fl(g.shape(2, 3))), lambda f, a: f(a['f']))
    reg('wavelet_decenter', C + 'wavelet_decenter', lambda g: dict(w=g.fl((8, 8))), lambda f, a: f(a['w'], (5, 6)))

    # ---- misc top level
    reg('distance', 'mahotas.distance.distance', lambda g: dict(bw=g.b(g.shape(g.nd((1, 2, 2, 3)), 2), 0.7)),
        lambda f, a: f(a['bw']))
    reg('dog', 'mahotas.edge.dog', lambda g: dict(img=g.fl(g.shape(2, 5))), lambda f, a: f(a['img'], 1.0))
    reg('sobel', 'mahotas.edge.sobel', lambda g: dict(img=g.fl(g.shape(2, 4))), lambda f, a: f(a['img']))
    reg('sobel_filter', 'mahotas.edge.sobel', lambda g: dict(img=g.fl(g.shape(2, 4))), lambda f, a: f(a['img'], just_filter=True))
    reg('euler', 'mahotas.euler.euler', lambda g: dict(f=g.b(g.shape(2, 3))), lambda f, a: f(a['f']))
    reg('thin', 'mahotas.thin.thin', lambda g: dict(binimg=g.b(g.shape(2, 4), 0.7)), lambda f, a: f(a['binimg']))
    reg('bbox', 'mahotas.bbox.bbox', lambda g: dict(img=g.b(g.shape(g.nd((1, 2, 2, 3)), 2), 0.3)), lambda f, a: f(a['img']))

    def bbox_sparse_gen(g):
        # one to three non-zero pixels in a clearly non-square image (often near the far corner): the tight box depends on every
        # extreme separately, so a scan that mixes up the axes of another memory order cannot hide behind a dense image
        nd = g.r.choice([2, 2, 2, 3])
        shp = tuple(g.r.choice([2, 3, 4, 9, 10, 13]) for _ in range(nd))
        if nd == 2 and shp[0] == shp[1]:
            shp = (shp[0], shp[1] + g.r.choice([3, 6]))
        img = np.zeros(shp, g.r.choice([bool, np.uint8, np.int32, np.float64]))
        for _ in range(g.r.choice([1, 1, 2, 3])):
            pos = tuple(g.r.randrange(n) if g.r.random() < 0.5 else n - 1 - g.r.randrange(min(n, 2)) for n in shp)
            img[pos] = 1
        return dict(img=img)
    reg('bbox_sparse', 'mahotas.bbox.bbox', bbox_sparse_gen, lambda f, a: f(a['img']))
    for k_ in (2, 3, 4):       # more draws of the same generator (each registry entry gets its share of every layout)
        reg(f'bbox_sparse{k_}', 'mahotas.bbox.bbox', bbox_sparse_gen, lambda f, a: f(a['img']))
    reg('croptobbox_sparse', 'mahotas.bbox.croptobbox', bbox_sparse_gen, lambda f, a: f(a['img']))
    reg('bbox_slice', 'mahotas.bbox.bbox', lambda g: dict(img=g.b(g.shape(2, 2), 0.3)), lambda f, a: f(a['img'], as_slice=True))
    reg('croptobbox', 'mahotas.bbox.croptobbox', lambda g: dict(img=g.u8(g.shape(2, 3), 1)), lambda f, a: f(a['img']))
    reg('center_of_mass', 'mahotas.center_of_mass.center_of_mass',
        lambda g: dict(img=g.img(g.shape(g.nd((1, 2, 2, 3)), 2), g.r.choice([np.uint8, np.float64, np.int32]))),
        lambda f, a: f(a['img']))
    reg('center_of_mass_labels', 'mahotas.center_of_mass.center_of_mass',
        lambda g: (lambda s: dict(img=g.u8(s), labels=g.lab(s)))(g.shape(2, 2)), lambda f, a: f(a['img'], a['labels']))
    reg('fullhistogram', 'mahotas.histogram.fullhistogram',
        lambda g: dict(img=g.img(g.shape(g.nd(), 2), g.r.choice([np.uint8, np.uint16, np.uint32]))), lambda f, a: f(a['img']))
    reg('otsu', 'mahotas.thresholding.otsu', lambda g: dict(img=g.u8(g.shape(2, 3), 9)), lambda f, a: f(a['img']))
    reg('rc', 'mahotas.thresholding.rc', lambda g: dict(img=g.u8(g.shape(2, 3), 9)), lambda f, a: f(a['img']))
    reg('soft_threshold', 'mahotas.thresholding.soft_threshold', lambda g: dict(f=g.fl(g.shape(2, 2))), lambda f, a: f(a['f'], 1.5))
    reg('bernsen', 'mahotas.thresholding.bernsen', lambda g: dict(f=g.u8(g.shape(2, 4), 9)), lambda f, a: f(a['f'], 1, 2))
    reg('gbernsen', 'mahotas.thresholding.gbernsen', lambda g: dict(f=g.u8(g.shape(2, 4), 9), se=g.bc(2)),
        lambda f, a: f(a['f'], a['se'], 2, 4))
    reg('stretch', 'mahotas.stretch.stretch', lambda g: dict(img=g.fl(g.shape(g.nd(), 2))), lambda f, a: f(a['img']))
    reg('stretch_rgb', 'mahotas.stretch.stretch_rgb', lambda g: dict(img=g.u8(g.shape(2, 2) + (3,), 200)), lambda f, a: f(a['img']))

    def rgb3(g):
        s = g.shape(2, 2)
        return dict(r=g.fl(s, 0, 9), g=g.fl(s, 0, 9), b=g.fl(s, 0, 9))
    reg('as_rgb', 'mahotas.stretch.as_rgb', rgb3, lambda f, a: f(a['r'], a['g'], a['b']))
    reg('overlay', 'mahotas.stretch.overlay', lambda g: (lambda s: dict(gray=g.u8(s, 200), red=g.b(s), green=g.b(s, 0.2)))(g.shape(2, 2)),
        lambda f, a: f(a['gray'], a['red'], a['green']))
    for fn in ('rgb2grey', 'rgb2lab', 'rgb2sepia', 'rgb2xyz'):
        reg(fn, 'mahotas.colors.' + fn, lambda g: dict(rgb=g.u8(g.shape(2, 2) + (3,), 255)), lambda f, a: f(a['rgb']))
    reg('xyz2lab', 'mahotas.colors.xyz2lab', lambda g: dict(xyz=g.fl(g.shape(2, 2) + (3,), 1, 90)), lambda f, a: f(a['xyz']))
    reg('xyz2rgb', 'mahotas.colors.xyz2rgb', lambda g: dict(xyz=g.fl(g.shape(2, 2) + (3,), 1, 90) / 128.0), lambda f, a: f(a['xyz']))
    reg('imresize', 'mahotas.resize.imresize', lambda g: dict(img=g.fl(g.shape(2, 4))), lambda f, a: f(a['img'], (7, 9)))
    reg('resize_to', 'mahotas.resize.resize_to', lambda g: dict(im=g.fl(g.shape(2, 4))), lambda f, a: f(a['im'], (3, 5)))
    reg('resize_rgb_to', 'mahotas.resize.resize_rgb_to', lambda g: dict(im=g.fl(g.shape(2, 4) + (3,), 0, 9)), lambda f, a: f(a['im'], (3, 5)))

    # ---- interpolate
    I = 'mahotas.interpolate.'
    reg('shift', I + 'shift', lambda g: dict(array=g.fl(g.shape(2, 4))), lambda f, a: f(a['array'], [1, 0.5], order=3))
    # the shift itself as a float64 ndarray argument: it must come back unchanged (the wrapper flips its sign internally)
    reg('shift_arr', I + 'shift', lambda g: dict(array=g.fl(g.shape(2, 4)), shift=np.array([1.0, -0.5])),
        lambda f, a: f(a['array'], a['shift'], order=1))
    reg('shift_order1', I + 'shift', lambda g: dict(array=g.fl(g.shape(2, 4))), lambda f, a: f(a['array'], [1, 0.5], order=1))
    reg('zoom', I + 'zoom', lambda g: dict(array=g.fl(g.shape(2, 4))), lambda f, a: f(a['array'], 1.5, order=3))
    reg('zoom_order1', I + 'zoom', lambda g: dict(array=g.fl(g.shape(2, 4))), lambda f, a: f(a['array'], 1.5, order=1))
    reg('spline_filter', I + 'spline_filter', lambda g: dict(array=g.fl(g.shape(2, 4))), lambda f, a: f(a['array']))
    reg('spline_filter1d', I + 'spline_filter1d', lambda g: dict(array=g.fl(g.shape(2, 4))), lambda f, a: f(a['array'], 3, 0))

    # ---- labeled
    def lab_gen(g):
        return dict(labeled=g.lab(g.shape(g.nd((2, 2, 2, 3)), 3), 3, g.r.choice([np.int32, np.int32, np.int64, np.uint8])))

    def lab2_gen(g):
        return dict(labeled=g.lab(g.shape(2, 3), 3, np.int32))
    reg('label', L + 'label', lambda g: (lambda nd: dict(array=g.b(g.shape(nd, 2)), Bc=g.bc(nd)))(g.nd()), lambda f, a: f(a['array'], a['Bc']))
    reg('relabel', L + 'relabel', lambda g: (lambda d: dict(labeled=d['labeled'] * 2))(lab_gen(g)), lambda f, a: f(a['labeled']))
    reg('is_same_labeling', L + 'is_same_labeling', lambda g: (lambda l: dict(labeled0=l, labeled1=(l * 2) % 5))(g.lab(g.shape(2, 3))),
        lambda f, a: f(a['labeled0'], a['labeled1']))
    reg('remove_regions', L + 'remove_regions', lab_gen, lambda f, a: f(a['labeled'], [1]))
    reg('remove_regions_arr', L + 'remove_regions', lambda g: dict(labeled=g.lab(g.shape(2, 3)), regions=np.array([[1, 2], [2, 1]])),
        lambda f, a: f(a['labeled'], a['regions']))
    # an unsorted native-int array of region ids: the wrapper sorts/uniques a COPY, never the caller's array
    reg('remove_regions_arr32', L + 'remove_regions', lambda g: dict(labeled=g.lab(g.shape(2, 3)), regions=np.array(g.r.sample([4, 1, 3, 2, 0], 3), np.intc)),
        lambda f, a: f(a['labeled'], a['regions']))
    reg('remove_regions_where', L + 'remove_regions_where',
        lambda g: dict(labeled=g.lab(g.shape(2, 3)), conditions=np.array([False, True, False, True])),
        lambda f, a: f(a['labeled'], a['conditions']))
    reg('remove_bordering', L + 'remove_bordering', lab2_gen, lambda f, a: f(a['labeled']))
    reg('border', L + 'border', lab_gen, lambda f, a: f(a['labeled'], 1, 2))
    reg('borders', L + 'borders', lab_gen, lambda f, a: f(a['labeled']))
    reg('bwperim', L + 'bwperim', lambda g: dict(bw=g.b(g.shape(2, 3))), lambda f, a: f(a['bw']))
    reg('perimeter', L + 'perimeter', lambda g: dict(bwimage=g.b(g.shape(2, 3))), lambda f, a: f(a['bwimage']))
    reg('filter_labeled', L + 'filter_labeled', lab2_gen, lambda f, a: f(a['labeled'], min_size=2))
    reg('filter_labeled_rb', L + 'filter_labeled', lab2_gen, lambda f, a: f(a['labeled'], remove_bordering=True, max_size=5))

    def ls_gen(g):
        s = g.shape(g.nd((1, 2, 2, 3)), 2)
        return dict(array=g.img(s, g.r.choice([np.uint8, np.int32, np.float64])), labeled=g.lab(s, 3, g.r.choice([np.int32, np.int64])))
    for fn in ('labeled_sum', 'labeled_max'):
        reg(fn, L + fn, ls_gen, lambda f, a: f(a['array'], a['labeled']))
    reg('labeled_min', L + 'labeled_min', ls_gen, lambda f, a: f(a['array'], a['labeled']))
    reg('labeled_size', L + 'labeled_size', lab_gen, lambda f, a: f(a['labeled']))
    reg('labeled_bbox', L + 'bbox', lab_gen, lambda f, a: f(a['labeled']))

    # ---- polygon
    P = 'mahotas.polygon.'
    reg('convexhull', P + 'convexhull', lambda g: dict(bwimg=g.b(g.shape(2, 4), 0.4)), lambda f, a: f(a['bwimg']))
    reg('fill_convexhull', P + 'fill_convexhull', lambda g: dict(bwimg=g.b(g.shape(2, 4), 0.4)), lambda f, a: f(a['bwimg']))

    def canvas_call(draw):
        def call(f, a):
            c = a['canvas']
            draw(f, c)
            return np.array(c)
        return call
    reg('line', P + 'line', lambda g: dict(canvas=np.zeros((6, 7), np.uint8)), canvas_call(lambda f, c: f((0, 1), (5, 4), c, 3)),
        no_readonly=['canvas'], canvas=['canvas'])
    reg('fill_polygon', P + 'fill_polygon', lambda g: dict(canvas=np.zeros((7, 8), np.uint8)),
        canvas_call(lambda f, c: f([(1, 1), (5, 2), (4, 6), (1, 5)], c, 2)), no_readonly=['canvas'], canvas=['canvas'])
    reg('fill_polygon_pts', P + 'fill_polygon', lambda g: dict(polygon=np.array([(1, 1), (5, 2), (4, 6), (1, 5)])),
        lambda f, a: (lambda c: (f(a['polygon'], c, 2), c)[1])(np.zeros((7, 8), np.uint8)))

    # ---- segmentation
    reg('gvoronoi', 'mahotas.segmentation.gvoronoi', lambda g: dict(labeled=g.lab(g.shape(2, 3), 2)), lambda f, a: f(a['labeled']))
    reg('slic', 'mahotas.segmentation.slic', lambda g: dict(array=g.fl((8, 9, 3), 0, 9)), lambda f, a: f(a['array'], 3))

    # ---- features
    F = 'mahotas.features.'
    reg('haralick', F + 'texture.haralick', lambda g: dict(f=g.u8((6, 7), 4)), lambda f, a: f(a['f']))
    reg('haralick3d', F + 'texture.haralick', lambda g: dict(f=g.u8((4, 4, 4), 3)), lambda f, a: f(a['f']))
    reg('cooccurence', F + 'texture.cooccurence', lambda g: dict(f=g.u8(g.shape(2, 3), 4)), lambda f, a: f(a['f'], 0))
    reg('lbp', F + 'lbp.lbp', lambda g: dict(image=g.fl(g.shape(2, 5), 0, 9)), lambda f, a: f(a['image'], 1, 6))
    reg('lbp_transform', F + 'lbp.lbp_transform', lambda g: dict(image=g.fl(g.shape(2, 5), 0, 9)), lambda f, a: f(a['image'], 1, 6))
    reg('moments', F + 'moments.moments', lambda g: dict(img=g.fl(g.shape(2, 3), 0, 5)), lambda f, a: f(a['img'], 1, 2))
    reg('moments_cm', F + 'moments.moments', lambda g: dict(img=g.fl(g.shape(2, 3), 0, 5), cm=np.array([1.0, 2.0])),
        lambda f, a: f(a['img'], 1, 2, cm=a['cm']))
    for fn in ('eccentricity', 'ellipse_axes', 'roundness'):
        reg(fn, F + 'shape.' + fn, lambda g: dict(bwimage=g.b(g.shape(2, 4), 0.7)), lambda f, a: f(a['bwimage']))
    reg('zernike_moments', F + 'zernike.zernike_moments', lambda g: dict(im=g.fl(g.shape(2, 5), 0, 5)), lambda f, a: f(a['im'], 3, 4))
    reg('zernike', F + 'zernike.zernike', lambda g: dict(im=g.fl(g.shape(2, 5), 0, 5)), lambda f, a: f(a['im'], 4, 3))
    reg('tas', F + 'tas.tas', lambda g: dict(img=g.u8((8, 9), 60)), lambda f, a: f(a['img']))
    reg('pftas', F + 'tas.pftas', lambda g: dict(img=g.u8((8, 9), 60)), lambda f, a: f(a['img']))
    reg('tas3d', F + 'tas.tas', lambda g: dict(img=g.u8((5, 6, 4), 60)), lambda f, a: f(a['img']))
    reg('surf_integral', F + 'surf.integral', lambda g: dict(f=g.fl(g.shape(2, 3))), lambda f, a: f(a['f']))
    reg('surf', F + 'surf.surf', lambda g: dict(f=np.kron(g.fl((5, 6), 0, 9), np.ones((6, 6)))), lambda f, a: f(a['f']))
    reg('surf_dense', F + 'surf.dense', lambda g: dict(f=np.kron(g.fl((5, 6), 0, 9), np.ones((6, 6)))), lambda f, a: f(a['f'], 12))
    reg('surf_interest_points', F + 'surf.interest_points', lambda g: dict(f=np.kron(g.fl((5, 6), 0, 9), np.ones((6, 6)))),
        lambda f, a: f(a['f']))

    def desc_gen(g):
        return dict(f=np.kron(g.fl((5, 6), 0, 9), np.ones((6, 6))), interest_points=np.array([[15., 15., 2., 1., 1.], [18., 20., 2., 1., -1.]]))
    reg('surf_descriptors', F + 'surf.descriptors', desc_gen, lambda f, a: f(a['f'], a['interest_points']))
    return REG


# ------------------------------------------------------------------------------------------------------------------
# calling, canonicalising, comparing

def _resolve(path):
    mod, name = path.rsplit('.', 1)
    return getattr(importlib.import_module(mod), name)


def canon(r):
    """flatten a result into a list of numpy arrays"""
    if r is None:
        return [np.zeros(0)]
    if isinstance(r, np.ndarray):
        return [np.array(r)]
    if isinstance(r, slice):
        return [np.array([-1 if x is None else x for x in (r.start, r.stop, r.step)])]
    if isinstance(r, (tuple, list)):
        out = []
        for x in r:
            out += canon(x)
        return out or [np.zeros(0)]
    return [np.asarray(r)]


def same(a, b):
    """None if equal under the property's comparison, else a description"""
    if len(a) != len(b):
        return f'result arity {len(a)} vs {len(b)}'
    for i, (x, y) in enumerate(zip(a, b)):
        if x.shape != y.shape:
            return f'part {i}: shape {x.shape} vs {y.shape}'
        if x.dtype != y.dtype:
            return f'part {i}: dtype {x.dtype} vs {y.dtype}'
        if x.dtype.kind in 'fc':
            nx, ny = np.isnan(x), np.isnan(y)
            if not np.array_equal(nx, ny):
                return f'part {i}: NaN pattern differs'
            xs, ys = np.where(nx, 0, x), np.where(ny, 0, y)
            fin = np.isfinite(xs) & np.isfinite(ys)
            if not np.array_equal(xs[~fin], ys[~fin]):
                return f'part {i}: infinities differ'
            scale = max(1.0, float(np.max(np.abs(xs[fin]))) if fin.any() else 1.0)
            d = np.abs(xs[fin] - ys[fin])
            if d.size and float(d.max()) > 1e-12 * scale:
                j = int(np.argmax(d))
                return f'part {i}: float differs by {float(d.max()):.3g} (scale {scale:.3g}) at flat {j}'
        elif not np.array_equal(x, y):
            j = int(np.flatnonzero((x != y).ravel())[0]) if x.size else -1
            return f'part {i}: value differs at flat {j}: {x.ravel()[j] if x.size else None} vs {y.ravel()[j] if y.size else None}'
    return None


def _digest(a):
    a = np.asarray(a)
    return hashlib.sha1(np.ascontiguousarray(a).tobytes() + str((a.shape, a.dtype.str)).encode()).hexdigest()


def _root(a):
    while isinstance(getattr(a, 'base', None), np.ndarray):
        a = a.base
    return a


def build_args(case):
    e = _registry()[case['fn']]
    args = e['gen'](G(case['seed'], case.get('size', 6)))
    return e, args


def laid_out(args, pos, layout):
    out = dict(args)
    if pos is not None and layout != 'C':
        out[pos] = gen.relayout(args[pos], layout)
    return out


def run_call(e, args):
    """-> ('ok', canon result) | ('exc', class name, message)"""
    f = _resolve(e['path'])
    with warnings.catch_warnings():
        warnings.simplefilter('ignore')
        try:
            with np.errstate(all='ignore'):
                return ('ok', canon(e['call'](f, args)))
        except Exception as ex:  # noqa
            return ('exc', type(ex).__name__, str(ex)[:200])


def predirty(args, pattern):
    """allocate, fill and free buffers of the sizes the call is likely to request (numpy keeps small blocks in its own
    cache and hands them back without clearing; larger ones go back to malloc's bins)"""
    sizes = set()
    for v in args.values():
        if isinstance(v, np.ndarray):
            for k in (1, 2, 4, 8, 16, 24):
                sizes.add(int(v.size) * k)
                sizes.add(int(v.size) * k + 8)
    sizes |= {8, 16, 32, 64, 128, 256, 512, 1024, 2048, 4096}
    for s in sorted(sizes):
        if 0 < s <= (1 << 22):
            bufs = [np.empty(s, np.uint8) for _ in range(6)]
            for b in bufs:
                b[:] = pattern
            del bufs


# ------------------------------------------------------------------------------------------------------------------
# heap-history workers

def _worker_main():
    payload = pickle.loads(sys.stdin.buffer.read())
    core.use_impl(__import__('pathlib').Path(payload['src']))
    pattern = payload['pattern']
    outs = []
    for case in payload['cases']:
        try:
            e, args = build_args(case)
            a = laid_out(args, case.get('pos'), case.get('layout', 'C'))
            predirty(args, pattern)
            outs.append(run_call(e, a))
        except Exception as ex:  # noqa
            outs.append(('infra', type(ex).__name__, str(ex)[:300]))
    sys.stdout.buffer.write(pickle.dumps(outs))
    sys.stdout.buffer.flush()


_SRC = None


def setup(src):
    global _SRC
    _SRC = str(src)


def _heap_runs(cases):
    """the same calls in two fresh processes with different allocator histories"""
    src = _SRC
    if src is None:
        import mahotas
        src = str(__import__('pathlib').Path(mahotas.__file__).resolve().parent.parent)
    res = []
    for perturb, pattern in ((85, 0xAA), (170, 0x55)):
        env = dict(os.environ)
        env['MALLOC_PERTURB_'] = str(perturb)
        env['PYTHONPATH'] = str(core.VERIF)
        env['PYTHONHASHSEED'] = '0'
        r = subprocess.run([core.PY, '-m', 'harness.props.c08', '--worker'], input=pickle.dumps(dict(src=src, pattern=pattern, cases=cases)),
                           stdout=subprocess.PIPE, stderr=subprocess.PIPE, env=env, cwd=str(core.VERIF))
        if r.returncode != 0:
            # a crash of the whole worker: rerun one by one to find the culprit
            outs = []
            for c in cases:
                r1 = subprocess.run([core.PY, '-m', 'harness.props.c08', '--worker'],
                                    input=pickle.dumps(dict(src=src, pattern=pattern, cases=[c])),
                                    stdout=subprocess.PIPE, stderr=subprocess.PIPE, env=env, cwd=str(core.VERIF))
                if r1.returncode != 0:
                    outs.append(('crash', str(r1.returncode), r1.stderr.decode(errors='replace')[-300:]))
                else:
                    outs += pickle.loads(r1.stdout)
            res.append(outs)
        else:
            res.append(pickle.loads(r.stdout))
    return res


# ------------------------------------------------------------------------------------------------------------------
# keys

GROUP = {'locmax': 'locminmax', 'locmin': 'locminmax', 'regmax': 'locminmax', 'regmin': 'locminmax',
         'shift_order1': 'interpolate', 'shift_arr': 'interpolate', 'zoom_order1': 'interpolate',
         'lbp_transform': 'lbp'}
CANON_KEYS = {('locminmax', 'differs'): 'locminmax:layout',
              ('locminmax', 'heap'): 'locminmax:layout',     # the misplaced reads also reach memory outside the array
              ('cwatershed', 'heap'): 'cwatershed:uninitialised-output',
              ('cwatershed', 'differs'): 'cwatershed:uninitialised-output',
              ('interpolate', 'raises'): 'interpolate:non-C-layout-rejected',
              ('lbp', 'raises'): 'lbp:non-C-layout-rejected',
              # the raw-pointer reads of a non-contiguous template also reach memory outside it (heap dependent)
              ('template_match', 'heap'): 'template_match:layout-differs',
              ('convolve1d', 'heap'): 'convolve1d:layout-differs'}


def _key(fn, cls):
    g = GROUP.get(fn, fn)
    return CANON_KEYS.get((g, cls), f'{g}:layout-{cls}' if cls in ('differs', 'raises', 'answers') else f'{g}:{cls}')


# ------------------------------------------------------------------------------------------------------------------
# evaluation

def _eval_sweep(cases):
    heap = _heap_runs(cases)
    out = []
    for idx, case in enumerate(cases):
        e, args = build_args(case)
        pos, layout = case.get('pos'), case.get('layout', 'C')
        findings = []
        crashed = [(hi, hres[idx]) for hi, hres in enumerate(heap) if hres[idx][0] == 'crash']
        if crashed:
            # the isolated workers already died on this call: do not repeat it inside the checking process
            hi, h = crashed[0]
            out.append(dict(findings=[dict(kind='property', key=_key(case['fn'], 'crash'),
                                           detail=dict(fn=case['fn'], pos=pos, layout=layout, heap=hi, rc=h[1], err=h[2]))],
                            nontrivial=True, sig=json.dumps(case, sort_keys=True),
                            tags=dict(stream='sweep', layout=layout, fn=case['fn'], outcome='crash', module=e['path'].rsplit('.', 1)[0])))
            continue
        base = run_call(e, {k: (v.copy() if isinstance(v, np.ndarray) else v) for k, v in args.items()})
        a = laid_out(args, pos, layout)
        arrs = {k: v for k, v in a.items() if isinstance(v, np.ndarray)}
        before = {k: (_digest(v), _digest(_root(v))) for k, v in arrs.items()}
        got = run_call(e, a)
        fn = case['fn']
        det = dict(fn=fn, pos=pos, layout=layout)
        nontrivial = False
        if pos is not None:
            v = a[pos]
            nontrivial = (not v.flags.c_contiguous) or (not v.flags.writeable)
        # purity
        for k, v in arrs.items():
            if k in e['canvas']:
                continue
            d, dr = _digest(v), _digest(_root(v))
            if d != before[k][0]:
                findings.append(dict(kind='property', key=_key(fn, 'argument-modified'), detail=dict(det, argument=k)))
            elif dr != before[k][1]:
                findings.append(dict(kind='property', key=_key(fn, 'padding-modified'), detail=dict(det, argument=k)))
        # layout
        if base[0] == 'ok' and got[0] == 'ok':
            why = same(base[1], got[1])
            if why:
                findings.append(dict(kind='property', key=_key(fn, 'differs'), detail=dict(det, why=why)))
        elif base[0] == 'ok' and got[0] == 'exc':
            findings.append(dict(kind='property', key=_key(fn, 'raises'), detail=dict(det, exc=got[1], msg=got[2])))
        elif base[0] == 'exc' and got[0] == 'ok':
            findings.append(dict(kind='property', key=_key(fn, 'answers'), detail=dict(det, base_exc=base[1], msg=base[2])))
        # the caller reuses its arrays: the very same objects first hold other content of the same kind (their own
        # content reversed; the call's result is discarded), are refilled IN PLACE with this case's data, and the call
        # is repeated: the answer may depend on what the arrays hold now, not on what these objects held before
        if got[0] == 'ok' and not e['canvas']:
            a2 = laid_out({k: (v.copy() if isinstance(v, np.ndarray) else v) for k, v in args.items()}, pos, layout)
            keep = {k: v.copy() for k, v in a2.items()
                    if isinstance(v, np.ndarray) and v.flags.writeable and v.size > 1 and k not in e['canvas']}
            if keep:
                for k, kv in keep.items():
                    a2[k][...] = kv.ravel()[::-1].reshape(kv.shape)
                run_call(e, a2)
                for k, kv in keep.items():
                    a2[k][...] = kv
                again = run_call(e, a2)
                if again[0] != 'ok':
                    findings.append(dict(kind='property', key=_key(fn, 'reuse'), detail=dict(det, again=str(again)[:200])))
                else:
                    why = same(got[1], again[1])
                    if why:
                        findings.append(dict(kind='property', key=_key(fn, 'reuse'), detail=dict(det, why=why)))
        # heap histories: the same laid-out call in two other processes
        for hi, hres in enumerate(heap):
            h = hres[idx]
            if h[0] == 'infra':
                raise core.Infra(f'heap worker failed on {case}: {h}')
            if h[0] == 'crash':
                findings.append(dict(kind='property', key=_key(fn, 'crash'), detail=dict(det, heap=hi, rc=h[1], err=h[2])))
            elif h[0] != got[0]:
                findings.append(dict(kind='property', key=_key(fn, 'heap'), detail=dict(det, heap=hi, here=got[0], there=h[0], info=str(h[1:])[:200])))
            elif h[0] == 'ok':
                why = same(got[1], h[1])
                if why:
                    findings.append(dict(kind='property', key=_key(fn, 'heap'), detail=dict(det, heap=hi, why=why)))
        seen, keep = set(), []
        for f in findings:
            if f['key'] not in seen:
                seen.add(f['key'])
                keep.append(f)
        out.append(dict(findings=keep, nontrivial=nontrivial, sig=json.dumps(case, sort_keys=True),
                        tags={'stream': 'sweep', 'layout': layout, 'fn': fn, 'outcome': got[0] if got[0] == 'ok' else 'exc:' + got[1],
                              'module': e['path'].rsplit('.', 1)[0], 'sweep:' + e['path']: 'C' if layout == 'C' else 'non-C'}))
    return out


def _mk_view(case):
    shape, strides, base = case['shape'], case['strides'], case['base']
    n = case['buf']
    buf = np.arange(n, dtype=np.int64)
    v = np.lib.stride_tricks.as_strided(buf[base:], shape=tuple(shape), strides=tuple(8 * s for s in strides), writeable=False)
    return buf, v


def _eval_view(cases):
    lines, views = [], []
    for c in cases:
        buf, v = _mk_view(c)
        views.append(v)
        lines.append(f"c08 kind=view base={c['base']} shape={gen.enc_shape(c['shape'])} strides={gen.enc_arr(list(c['strides']))} "
                     f"carray={1 if (v.flags.c_contiguous and v.flags.aligned) else 0}")
    drvs = core.drive(lines)
    import mahotas.labeled
    # the complete kernel model (labeled_foldl over views) against the compiled labeled_sum, random labels (some -1)
    llines, labs = [], []
    for c, v in zip(cases, views):
        n = int(np.prod(c['shape']))
        r = random.Random(json.dumps(c, sort_keys=True))
        lab = np.array([r.randint(-1, 3) for _ in range(n)], dtype=np.intc).reshape(c['shape'])
        labs.append(lab)
        cs, acc = [], 1
        for d in reversed(c['shape']):
            cs.insert(0, acc)
            acc *= d
        llines.append(f"c08 kind=lsum abase={c['base']} shape={gen.enc_shape(c['shape'])} astrides={gen.enc_arr(list(c['strides']))} "
                      f"amem={gen.enc_arr(list(range(c['buf'])))} lbase=0 lstrides={gen.enc_arr(cs)} lmem={gen.enc_arr(lab)} "
                      f"maxlabel={max(0, int(lab.max()) + 1) if n else 0}")
    ldrvs = core.drive(llines)
    kres = _eval_kview(cases)
    out = []
    for c, v, drv, lab, ldrv, kr in zip(cases, views, drvs, labs, ldrvs, kres):
        findings = list(kr['findings'])
        if lab.size and lab.max() >= 0:
            real_sum = [int(x) for x in mahotas.labeled.labeled_sum(v, lab).tolist()]
            logical_sum = [int(np.asarray(v)[lab == k].sum()) for k in range(int(lab.max()) + 1)]
            if real_sum != logical_sum:
                findings.append(dict(kind='property', key='labeled_sum:strided-array', detail=dict(real=real_sum, logical=logical_sum)))
            if core.ints(ldrv['sum']) != real_sum:
                findings.append(dict(kind='model', key='view:labeled-fold-model', detail=dict(real=real_sum, model=core.ints(ldrv['sum']))))
        truth = [int(x) for x in v.ravel(order='C').tolist()]          # numpy's own element access: value == address
        spec = core.ints(drv['spec'])
        if spec != truth:
            findings.append(dict(kind='model', key='view:addr-vs-numpy', detail=dict(spec=spec, numpy=truth)))
        for name in ('iter', 'atflat'):
            if core.ints(drv[name]) != truth:
                findings.append(dict(kind='model', key=f'view:{name}-model-vs-numpy', detail=dict(model=core.ints(drv[name]), numpy=truth)))
        n = len(truth)
        if core.ints(drv['p2f']) != list(range(n)):
            findings.append(dict(kind='model', key='view:pos_to_flat', detail=dict(model=core.ints(drv['p2f']))))
        if n and set(drv['f2p'].split(',')) != {'1'}:
            findings.append(dict(kind='model', key='view:flat_to_pos', detail=dict(model=drv['f2p'])))
        if len(c['shape']) == 2 and core.ints(drv['row']) != truth:
            findings.append(dict(kind='model', key='view:rowptr', detail=dict(model=core.ints(drv['row']), numpy=truth)))
        # the compiled iterator_base: labeled_sum visits `array` with the iterator while `labeled` (C order 0..n-1)
        # says where each visited value goes, so the result is the sequence of visited addresses
        if n:
            labels = np.arange(n, dtype=np.intc).reshape(c['shape'])
            real = [int(x) for x in mahotas.labeled.labeled_sum(v, labels).tolist()]
            if real != truth:
                findings.append(dict(kind='property', key='iterator:visiting-order', detail=dict(real=real, logical=truth)))
            if real != core.ints(drv['iter']):
                findings.append(dict(kind='model', key='view:iter-model-vs-compiled', detail=dict(real=real, model=core.ints(drv['iter']))))
        # the compiled at_flat: hitmiss with the 1x...x1 template [1] computes res.flat[i] = (input.at_flat(i) == 1) and
        # passes `input` through unnormalised; one call per address bit reconstructs the address at_flat(i) reads
        if n and c['buf'] <= 4096:
            nbits = max(1, int(c['buf'] - 1).bit_length())
            got = np.zeros(n, np.int64)
            one = np.ones((1,) * len(c['shape']), np.uint8)
            for b in range(nbits):
                bits = ((np.arange(c['buf']) >> b) & 1).astype(np.uint8)
                vb = np.lib.stride_tricks.as_strided(bits[c['base']:], shape=tuple(c['shape']), strides=tuple(c['strides']),
                                                     writeable=True)     # C-contiguous views then take the is_carray shortcut
                got |= (np.asarray(mahotas.hitmiss(vb, one)).astype(np.int64).ravel() & 1) << b
            real_af = [int(x) for x in got.tolist()]
            if real_af != truth:
                findings.append(dict(kind='property', key='at_flat:strided-input', detail=dict(real=real_af, logical=truth)))
            if real_af != core.ints(drv['atflat']):
                findings.append(dict(kind='model', key='view:atflat-model-vs-compiled', detail=dict(real=real_af, model=core.ints(drv['atflat']))))
        out.append(dict(findings=findings, nontrivial=n > 1, sig=lines[len(out)],
                        tags=dict(stream='view', kview=kr['kernel'], fastpath=bool(kr.get('fast', False)), ndim=len(c['shape']), neg=any(s < 0 for s in c['strides']),
                                  zero=any(s == 0 for s in c['strides']), carray=lines[len(out)].endswith('1'))))
    return out


# ------------------------------------------------------------------------------------------------------------------
# kview: the view-level kernel models of Model/C08.lean (erodeView, dilateView, ... — the definitions the Round-2
# theorems C08_<kernel>_layout_free / C08_defined_everywhere_* are about) against the compiled kernels, on the same
# arbitrarily strided views as the accessor stream

KVIEW_KERNELS = ['erode', 'erode_bool', 'dilate', 'dilate_bool', 'locmax', 'locmin', 'convolve', 'rank', 'mean', 'tm',
                 'borders', 'hitmiss', 'bbox', 'com', 'cwatershed', 'line',
                 'regmax', 'regmin', 'close_holes', 'majority', 'cooccurence']      # round 4: `kind=kviewA` (Model/C08ViewsA.lean)
KVIEW_A = ('regmax', 'regmin', 'close_holes', 'majority', 'cooccurence')
MODES = ['nearest', 'wrap', 'reflect', 'mirror', 'constant', 'ignore']


def _cstr(shape):
    cs, acc = [], 1
    for d in reversed(shape):
        cs.insert(0, acc)
        acc *= d
    return cs


def _kview_setup(c):
    """deterministic (from the case) choice of kernel, memory content, filter and its layout"""
    r = random.Random('kview' + json.dumps(c, sort_keys=True))
    kernel = r.choice(KVIEW_KERNELS)
    shape, nd = c['shape'], len(c['shape'])
    if nd == 2 and list(c['strides']) == _cstr(shape) and r.random() < 0.6:
        # a 2-D C-array: half of these cases exercise the binary fast path of py_erode / py_dilate (Round 3: the
        # driver dispatches like the C++ and runs `fastBinaryView`, the model with unwritten cells)
        kernel = r.choice(['erode_bool', 'dilate_bool'])
    if kernel in ('close_holes', 'majority') and nd != 2:      # the wrappers admit matrices only
        kernel = r.choice(['regmax', 'regmin'])
    isbool = kernel in ('erode_bool', 'dilate_bool', 'hitmiss', 'close_holes', 'majority')
    hi = 1 if isbool else (3 if kernel in ('borders', 'cwatershed', 'cooccurence') else 9)
    mem = [r.randint(0, hi) for _ in range(c['buf'])]
    bshape = [r.choice([1, 2, 3, 3]) for _ in range(nd)]
    nb = int(np.prod(bshape))
    if kernel == 'hitmiss':
        b = [r.choice([0, 1, 2, 2, 2]) for _ in range(nb)]
    elif kernel in ('convolve', 'tm'):
        b = [r.randint(0, 3) for _ in range(nb)]
    elif kernel in ('erode', 'dilate'):
        b = [r.choice([0, 1, 1, 2]) for _ in range(nb)]
    else:
        b = [r.choice([0, 1, 1]) for _ in range(nb)]
    if kernel in ('locmax', 'locmin'):
        pass    # the wrapper removes the centre itself; the model receives the centre-less element (below)
    if kernel in ('regmax', 'regmin'):
        mem = [r.randint(0, 2) for _ in range(c['buf'])]       # few levels: plateaus, ties between plateaus
    if kernel == 'cooccurence':                                 # the wrapper's one-hot direction array (any position here)
        b = [0] * nb
        b[r.randrange(nb)] = 1
    mode = r.randrange(6)
    if kernel == 'rank' and mode == 5:
        mode = 2
    blayout = r.choice(['C', 'F', 'negstride', 'strided'])
    return dict(kernel=kernel, mem=mem, bshape=bshape, b=b, mode=mode, blayout=blayout, isbool=isbool,
                rank=r.randrange(max(1, sum(1 for x in b if x))), axis=r.randrange(nd), n=r.choice([3, 3, 5]),
                p=[r.randrange(d) for d in shape], markers=[r.choice([0, 0, 0, 1, 2]) for _ in range(int(np.prod(shape)))])


def _kview_line(c, k):
    shape = c['shape']
    b = list(k['b'])
    if k['kernel'] in ('locmax', 'locmin', 'regmax', 'regmin'):
        ctr = 0
        for d, cs in zip(k['bshape'], _cstr(k['bshape'])):
            ctr += (d // 2) * cs
        b[ctr] = 0
    kern = {'erode_bool': 'erode', 'dilate_bool': 'dilate'}.get(k['kernel'], k['kernel'])
    dt = 'b1' if k['isbool'] and kern in ('erode', 'dilate') else ('u8' if kern in ('erode', 'dilate') else 'i64')
    carr = 1 if list(c['strides']) == _cstr(shape) else 0
    kind = 'kviewA' if kern in KVIEW_A else 'kview'
    line = (f"c08 kind={kind} kernel={kern} n={k.get('n', 3)} mm=4 dt={dt} mode={k['mode']} rank={k['rank']} axis={k['axis']} p={gen.enc_arr(k['p'])} "
            f"amem={gen.enc_arr(k['mem'])} abase={c['base']} ashape={gen.enc_shape(shape)} astrides={gen.enc_arr(list(c['strides']))} "
            f"acarray={carr} bmem={gen.enc_arr(b)} bbase=0 bshape={gen.enc_shape(k['bshape'])} "
            f"bstrides={gen.enc_arr(_cstr(k['bshape']))} bcarray=1")
    if kern == 'cwatershed':
        line += (f" mmem={gen.enc_arr(k['markers'])} mbase=0 mshape={gen.enc_shape(shape)} mstrides={gen.enc_arr(_cstr(shape))} mcarray=1")
    return line


def _kview_fast(c, k):
    return (k['kernel'] in ('erode_bool', 'dilate_bool') and len(c['shape']) == 2
            and list(c['strides']) == _cstr(c['shape']))


def _kview_real(c, k):
    """the compiled kernel on the strided view; returns a dict of comparable lists"""
    import mahotas, mahotas.labeled, mahotas.convolve
    kern = k['kernel']
    dtype = np.bool_ if k['isbool'] and kern != 'hitmiss' else (np.float64 if kern in ('convolve',) else
                                                                 (np.uint8 if kern in ('erode', 'dilate', 'hitmiss') else np.int64))
    buf = np.array(k['mem']).astype(dtype)
    isz = buf.itemsize
    # erode_bool / dilate_bool on a C-contiguous view: writeable, so that PyArray_ISCARRAY holds and the compiled code
    # takes the same branch as the driver (`acarray=1`); everything else stays read-only
    fast = _kview_fast(c, k)
    v = np.lib.stride_tricks.as_strided(buf[c['base']:], shape=tuple(c['shape']), strides=tuple(isz * s for s in c['strides']),
                                        writeable=fast)
    b = np.array(k['b']).astype(dtype).reshape(k['bshape'])
    if k['blayout'] == 'F':
        b = np.asfortranarray(b)
    elif k['blayout'] == 'negstride':
        b = b[::-1].copy()[::-1]
    elif k['blayout'] == 'strided':
        big = np.zeros(tuple(2 * d for d in k['bshape']), dtype)
        big[tuple(slice(None, None, 2) for _ in k['bshape'])] = b
        b = big[tuple(slice(None, None, 2) for _ in k['bshape'])]
    mode = MODES[k['mode']]
    flat = lambda a: [int(x) for x in np.asarray(a).ravel(order='C').tolist()]
    if kern in ('erode', 'erode_bool'):
        return dict(out=flat(mahotas.erode(v, b)))
    if kern in ('dilate', 'dilate_bool'):
        return dict(out=flat(mahotas.dilate(v, b)))
    if kern == 'locmax':
        return dict(out=flat(mahotas.locmax(v, b)))
    if kern == 'locmin':
        return dict(out=flat(mahotas.locmin(v, b)))
    if kern == 'convolve':
        return dict(out=flat(mahotas.convolve(v, b, mode=mode)))
    if kern == 'rank':
        return dict(out=flat(mahotas.rank_filter(v, b, k['rank'], mode=mode)))
    if kern == 'mean':
        return dict(mean=[float(x) for x in mahotas.mean_filter(v, b, mode=mode).ravel().tolist()])
    if kern == 'tm':
        return dict(out=flat(mahotas.template_match(v, b, mode=mode)))
    if kern == 'borders':
        return dict(out=flat(mahotas.labeled.borders(v, b, mode=mode)))
    if kern == 'hitmiss':
        return dict(out=flat(mahotas.hitmiss(v, b)))
    if kern == 'bbox':
        return dict(out=flat(mahotas.bbox(v)))
    if kern == 'com':
        return dict(com=[float(x) for x in np.asarray(mahotas.center_of_mass(v)).ravel().tolist()])
    if kern == 'cwatershed':
        mk = np.array(k['markers'], np.int64).reshape(c['shape'])
        r, lines = mahotas.cwatershed(v, mk, Bc=b.astype(bool) if b.any() else None, return_lines=True)
        return dict(out=flat(r), lines=flat(lines), skip=not b.any())
    if kern in ('regmax', 'regmin'):
        return dict(out=flat((mahotas.regmax if kern == 'regmax' else mahotas.regmin)(v, b)))
    if kern == 'close_holes':
        return dict(out=flat(mahotas.close_holes(v, b)))
    if kern == 'majority':
        return dict(out=flat(mahotas.majority_filter(v, k['n'])))
    if kern == 'cooccurence':
        # the native entry point itself (the wrapper builds only centred 3^nd one-hot arrays): values in [0, 4), a zeroed
        # 4 x 4 int32 result, the direction array in any layout
        from mahotas.features import _texture
        res = np.zeros((4, 4), np.int32)
        _texture.cooccurence(v, res, b, 0)
        return dict(out=flat(res))
    if kern == 'line':
        ln = np.moveaxis(np.asarray(v), k['axis'], -1)[tuple(x for i, x in enumerate(k['p']) if i != k['axis'])]
        return dict(out=flat(ln))
    raise KeyError(kern)


def _eval_kview(cases):
    ks = [_kview_setup(c) for c in cases]
    drvs = core.drive([_kview_line(c, k) for c, k in zip(cases, ks)])
    res = []
    for c, k, drv in zip(cases, ks, drvs):
        f = []
        kern = k['kernel']
        try:
            with warnings.catch_warnings():
                warnings.simplefilter('ignore')
                real = _kview_real(c, k)
        except Exception as e:          # a value turned into an exception by the layout: the sweep judges that; here it is a model gap
            if kern == 'rank' and not any(k['b']) and isinstance(e, ValueError):
                # empty neighbourhood: the wrapper's rank guard raises; the native model writes no cell (all unwritten)
                ok = set(drv.get('out', 'x').split(',')) <= {'u'}
                res.append(dict(findings=[] if ok else [dict(kind='model', key='kview:rank:guard-vs-model', detail=dict(drv=drv))], kernel=kern))
                continue
            res.append(dict(findings=[dict(kind='model', key=f'kview:{kern}:real-raised', detail=dict(err=repr(e)[:200]))], kernel=kern))
            continue
        if 'error' in drv:
            f.append(dict(kind='model', key=f'kview:{kern}:driver-error', detail=dict(drv=drv)))
        elif kern == 'mean':
            sums, ns = drv['sum'].split(','), drv['n'].split(',')
            for i, (sm, n, rv) in enumerate(zip(sums, ns, real['mean'])):
                if sm == 'u':
                    f.append(dict(kind='model', key='kview:mean:unwritten-cell', detail=dict(i=i)))
                    break
                mv = float(int(sm)) / int(n) if int(n) else float('nan')
                if not (mv == rv or (mv != mv and rv != rv)):
                    f.append(dict(kind='model', key='kview:mean:model-vs-compiled', detail=dict(i=i, model=mv, real=rv)))
                    break
        elif kern == 'com':
            num, tot = core.ints(drv['num']), int(drv['tot'])
            mv = [float(x) / tot if tot else float('nan') for x in num]
            if not all(a == b or (a != a and b != b) for a, b in zip(mv, real['com'])) or len(mv) != len(real['com']):
                f.append(dict(kind='model', key='kview:com:model-vs-compiled', detail=dict(model=mv, real=real['com'])))
        else:
            if real.get('skip'):
                pass
            else:
                mo = drv['out'].split(',') if drv['out'] not in ('', '-') else []
                if 'u' in mo and kern != 'rank':
                    f.append(dict(kind='model', key=f'kview:{kern}:unwritten-cell', detail=dict(model=drv['out'])))
                elif len(mo) != len(real['out']) or any(a != 'u' and int(a) != b for a, b in zip(mo, real['out'])):
                    f.append(dict(kind='model', key=f'kview:{kern}:model-vs-compiled',
                                  detail=dict(model=drv['out'], real=real['out'], setup={x: k[x] for x in ('bshape', 'b', 'mode', 'blayout', 'rank')})))
                if kern == 'cwatershed' and 'lines' in drv and core.ints(drv['lines']) != real['lines']:
                    f.append(dict(kind='model', key='kview:cwatershed:lines-model-vs-compiled', detail=dict(model=drv['lines'], real=real['lines'])))
        res.append(dict(findings=f, kernel=kern, fast=_kview_fast(c, k)))
    return res


# ------------------------------------------------------------------------------------------------------------------
# round 4: in-place wavelet kernels on injective strided 2-D views (`kind=kviewB`, Model/C08ViewsB.lean): the compiled
# `haar/ihaar/daubechies/idaubechies(view, inline=True)` against the driver, the WHOLE root buffer compared (elements of the
# view = the C17 transform of the logical content; everything else untouched)

WAVELETS = ['haar', 'ihaar', 'daubechies', 'idaubechies']


def _rand_wview(rng):
    """an injective 2-D view: permuted / sign-flipped / gapped dense layout (what slicing, transposition, [::-1] produce)"""
    shape = [rng.choice([1, 2, 3, 4, 4, 5, 6, 7, 8]) for _ in range(2)]
    order = [0, 1]
    rng.shuffle(order)
    strides, acc = [0, 0], 1
    for ax in order:
        gap = rng.choice([1, 1, 2, 3])
        strides[ax] = acc * gap * rng.choice([1, 1, -1])
        acc *= shape[ax] * gap
    lo = sum(min(0, s * (d - 1)) for s, d in zip(strides, shape))
    hi = sum(max(0, s * (d - 1)) for s, d in zip(strides, shape))
    base = -lo + rng.choice([0, 0, 1, 3])
    return dict(stream='kviewB', shape=shape, strides=strides, base=base, buf=base + hi + 1 + rng.choice([0, 2]),
                kernel=rng.choice(WAVELETS), code=rng.randrange(10), seed=rng.randrange(1 << 30))


def _eval_kviewB(cases):
    import mahotas
    lines, bufs = [], []
    for c in cases:
        r = np.random.RandomState(c['seed'])
        buf = r.randint(-8, 9, size=c['buf']).astype(np.float64)      # small integers: haar/ihaar are exact in binary64
        if c['kernel'] == 'ihaar':
            buf *= 4.0
        bufs.append(buf)
        lines.append(f"c08 kind=kviewB kernel={c['kernel']} code={c['code']} mem={core.fmt_floats(buf)} base={c['base']} "
                     f"shape={gen.enc_shape(c['shape'])} strides={gen.enc_arr(list(c['strides']))}")
    drvs = core.drive(lines)
    res = []
    for c, buf0, drv in zip(cases, bufs, drvs):
        f = []
        kern = c['kernel']
        buf = buf0.copy()
        v = np.lib.stride_tricks.as_strided(buf[c['base']:], shape=tuple(c['shape']), strides=tuple(8 * s for s in c['strides']),
                                            writeable=True)
        try:
            if kern in ('haar', 'ihaar'):
                ret = getattr(mahotas, kern)(v, preserve_energy=False, inline=True)
            else:
                ret = getattr(mahotas, kern)(v, 'D%d' % (2 * c['code'] + 2), inline=True)
        except Exception as e:
            res.append(dict(findings=[dict(kind='model', key=f'kviewB:{kern}:real-raised', detail=dict(err=repr(e)[:200]))], kernel=kern))
            continue
        if 'error' in drv or 'mem' not in drv:
            f.append(dict(kind='model', key=f'kviewB:{kern}:driver-error', detail=dict(drv=drv)))
        else:
            model = core.floats(drv['mem'])
            inview = np.zeros(buf.size, bool)
            iv = np.lib.stride_tricks.as_strided(inview[c['base']:], shape=tuple(c['shape']), strides=tuple(s for s in c['strides']),
                                                 writeable=True)
            iv[...] = True
            if not np.array_equal(buf[~inview], buf0[~inview]):
                # the property itself: an in-place call may change the array it was given, nothing else
                f.append(dict(kind='property', key=f'{kern}_inline:padding-modified', detail=dict(case=c)))
            tol = 0.0 if kern in ('haar', 'ihaar') else 1e-9 * max(1.0, float(np.abs(buf0).max()))
            if model.shape != buf.shape or not np.all(np.abs(model - buf) <= tol):
                bad = int(np.argmax(np.abs(model - buf) > tol)) if model.shape == buf.shape else -1
                f.append(dict(kind='model', key=f'kviewB:{kern}:model-vs-compiled',
                              detail=dict(at=bad, model=float(model[bad]) if bad >= 0 else None, real=float(buf[bad]) if bad >= 0 else None)))
            if ret is not v and not np.shares_memory(ret, buf):
                f.append(dict(kind='model', key=f'kviewB:{kern}:inline-returned-copy', detail={}))
        res.append(dict(findings=f, kernel=kern, nontrivial=True, sig=json.dumps(c, sort_keys=True),
                        tags=dict(stream='kviewB', kernel=kern, fn=kern, contiguous=bool(v.flags.c_contiguous))))
    return res


NORMS = {'ascontiguousarray': lambda a: np.ascontiguousarray(a), 'require:CAW': lambda a: np.require(a, requirements='CAW'),
         'require:CW': lambda a: np.require(a, requirements='CW'), 'array:C': lambda a: np.array(a, order='C'),
         'array:K': lambda a: np.array(a), 'asanyarray': lambda a: np.asanyarray(a)}


def _f_order(a):
    st = [abs(s) for s, d in zip(a.strides, a.shape) if d > 1]
    return any(x < y for x, y in zip(st, st[1:]))


def _eval_norm(cases):
    """the Lean model of the numpy normalisers (flags in -> flags out -> ISCARRAY?) against numpy itself"""
    lines, arrs = [], []
    for c in cases:
        g = G(c['seed'], 5)
        a = g.img(g.shape(c['nd'], 2), np.int32)
        if c['layout'] == 'unaligned':
            raw = np.zeros(a.size * 4 + 1, np.uint8)
            v = raw[1:].view(np.int32).reshape(a.shape)
            v[...] = a
        else:
            v = gen.relayout(a, c['layout'])
        arrs.append(v)
        fl = v.flags
        lines.append(f"c08 kind=norm norm={c['norm']} c={int(fl.c_contiguous)} al={int(fl.aligned)} w={int(fl.writeable)} fo={int(_f_order(v))}")
    drvs = core.drive(lines)
    out = []
    for c, v, drv, line in zip(cases, arrs, drvs, lines):
        r = NORMS[c['norm']](v)
        real = dict(c=int(r.flags.c_contiguous), al=int(r.flags.aligned), w=int(r.flags.writeable),
                    accepts=int(r.flags.c_contiguous and r.flags.aligned and r.flags.writeable))
        model = {k: int(drv[k]) for k in real}
        f = []
        if model != real:
            f.append(dict(kind='model', key=f"norm:{c['norm']}", detail=dict(model=model, numpy=real, layout=c['layout'], shape=list(v.shape))))
        if not np.array_equal(r, v):
            f.append(dict(kind='model', key='norm:content-changed', detail=dict(case=c)))
        out.append(dict(findings=f, nontrivial=c['layout'] != 'C', sig=line + str(c['nd']),
                        tags=dict(stream='norm', norm=c['norm'], layout=c['layout'], accepts=real['accepts'])))
    return out


def _public_api():
    found = {}
    for m in PUBLIC_MODULES:
        try:
            M = importlib.import_module(m)
        except Exception:
            continue
        names = getattr(M, '__all__', None) or [n for n in dir(M) if not n.startswith('_')]
        for n in names:
            o = getattr(M, n, None)
            if isinstance(o, types.FunctionType) and (o.__module__ or '').startswith('mahotas'):
                found[o.__module__ + '.' + o.__name__] = m + '.' + n
    return found


def _eval_cover(case):
    reg_ = _registry()
    covered = set()
    for e in reg_.values():
        o = _resolve(e['path'])
        covered.add(o.__module__ + '.' + o.__name__)
    api = _public_api()
    missing = sorted(k for k in api if k not in covered and k not in NOT_ARRAY_TAKING)
    findings = []
    if missing:
        findings.append(dict(kind='model', key='registry:unregistered-public-function', detail=dict(missing=missing)))
    # round 4: the call-sequence (history) stream and the catalogue of the degenerate/ASan sweeps (harness/catalog.py):
    # every public function the sweeps know must be the `then` of some history pair in THIS run's plan, and must have a
    # registry entry (the plan is computed by `_history_plan`, the same function `cases` uses)
    paths = sorted({e['path'] for e in reg_.values()})
    planned = set(case.get('history_paths') or [])
    if case.get('history_paths') is not None:
        for pth in paths:
            if pth not in planned:
                findings.append(dict(kind='model', key=f'coverage:{pth}:not-in-history-stream', detail={}))
    ncat = 0
    try:
        from harness import catalog
        from harness.props.c12 import _resolve_public
        regcodes = {getattr(_resolve(e['path']), '__code__', None) for e in reg_.values()}
        for n in sorted(catalog.ENTRIES):
            o = _resolve_public(n)
            ncat += 1
            if o is None or (o.__code__ not in regcodes and n not in CATALOGUE_NO_ARRAY):
                findings.append(dict(kind='model', key=f'coverage:{n}:catalogue-function-not-in-registry', detail={}))
    except ImportError:
        pass
    return dict(findings=findings, nontrivial=True, sig='cover', n=len(api), nontrivial_n=0,
                tags=dict(stream='cover', public=len(api), registered=len(covered), catalogue=ncat,
                          history_functions=len(planned)))


def _fresh_run(cases, pattern=0x33):
    src = _SRC
    if src is None:
        import mahotas
        src = str(__import__('pathlib').Path(mahotas.__file__).resolve().parent.parent)
    env = dict(os.environ)
    env['PYTHONPATH'] = str(core.VERIF)
    env['PYTHONHASHSEED'] = '0'
    r = subprocess.run([core.PY, '-m', 'harness.props.c08', '--worker'], input=pickle.dumps(dict(src=src, pattern=pattern, cases=cases)),
                       stdout=subprocess.PIPE, stderr=subprocess.PIPE, env=env, cwd=str(core.VERIF))
    if r.returncode != 0:
        return [('crash', str(r.returncode), r.stderr.decode(errors='replace')[-300:])] * len(cases)
    return pickle.loads(r.stdout)


def _eval_history(case):
    """repeatable whatever happened before: the call `then` must return the same value in a fresh interpreter and in an
    interpreter that has just executed the call `first` (another call of the same public function with other parameters
    or inputs) - hidden module-level state (caches, scratch buffers, lazily built tables) shows as a difference"""
    a = _fresh_run([case['first'], case['then']])
    b = _fresh_run([case['then']])
    fn = case['then']['fn']
    f = []
    ra, rb = a[1], b[0]
    if ra[0] == 'crash' or rb[0] == 'crash':
        f.append(dict(kind='property', key=_key(fn, 'crash'), detail=dict(after_first=ra[:2], alone=rb[:2])))
    elif ra[0] == 'ok' and rb[0] == 'ok':
        why = same(rb[1], ra[1])
        if why:
            f.append(dict(kind='property', key=f'{fn}:history-dependent', detail=dict(first=case['first']['fn'], then=fn, why=why)))
    elif ra[0] != rb[0]:
        f.append(dict(kind='property', key=f'{fn}:history-dependent', detail=dict(first=case['first']['fn'], then=fn,
                                                                                   after_first=ra[:3], alone=rb[:3])))
    return dict(findings=f, nontrivial=True, sig=json.dumps(case, sort_keys=True),
                tags={'stream': 'history', 'fn': fn, 'first': case['first']['fn'],
                      'history:' + _registry()[fn]['path']: 'same-fn' if _registry()[case['first']['fn']]['path'] == _registry()[fn]['path'] else 'other-fn'})


def evaluate(cases):
    out = [None] * len(cases)
    sweep = [(i, c) for i, c in enumerate(cases) if c.get('stream', 'sweep') == 'sweep']
    views = [(i, c) for i, c in enumerate(cases) if c.get('stream') == 'view']
    for (i, _), r in zip(sweep, _eval_sweep([c for _, c in sweep]) if sweep else []):
        out[i] = r
    for (i, _), r in zip(views, _eval_view([c for _, c in views]) if views else []):
        out[i] = r
    norms = [(i, c) for i, c in enumerate(cases) if c.get('stream') == 'norm']
    for (i, _), r in zip(norms, _eval_norm([c for _, c in norms]) if norms else []):
        out[i] = r
    kvb = [(i, c) for i, c in enumerate(cases) if c.get('stream') == 'kviewB']
    for (i, _), r in zip(kvb, _eval_kviewB([c for _, c in kvb]) if kvb else []):
        out[i] = r
    for i, c in enumerate(cases):
        if c.get('stream') == 'cover':
            out[i] = _eval_cover(c)
        elif c.get('stream') == 'history':
            out[i] = _eval_history(c)
    return out


# ------------------------------------------------------------------------------------------------------------------
# case generation

def _corpus():
    d = core.VERIF / 'corpus' / ID
    return [json.loads(p.read_text())['case'] for p in sorted(d.glob('*.json'))] if d.exists() else []


def _rand_view(rng):
    nd = rng.choice([1, 2, 2, 3, 3, 4])
    shape = [rng.choice([1, 2, 2, 3, 3, 4, 5]) for _ in range(nd)]
    style = rng.random()
    if style < 0.3:      # permuted, sign-flipped, gapped dense layout (what slicing/transposition produce)
        order = list(range(nd))
        rng.shuffle(order)
        strides = [0] * nd
        acc = 1
        for ax in order:
            gap = rng.choice([1, 1, 2, 3])
            strides[ax] = acc * gap * rng.choice([1, 1, -1])
            acc *= shape[ax] * gap
    elif style < 0.4:    # C contiguous
        strides, acc = [0] * nd, 1
        for ax in reversed(range(nd)):
            strides[ax] = acc
            acc *= shape[ax]
    else:                # anything (overlapping, zero strides included)
        strides = [rng.randint(-7, 7) for _ in range(nd)]
    lo = sum(min(0, s * (d - 1)) for s, d in zip(strides, shape))
    hi = sum(max(0, s * (d - 1)) for s, d in zip(strides, shape))
    base = -lo + rng.choice([0, 0, 1, 3])
    return dict(stream='view', shape=shape, strides=strides, base=base, buf=base + hi + 1 + rng.choice([0, 2]))


def _history_plan(rng, tier, reg_):
    """(first, then) pairs of registry entries. Round 3: every ordered pair of entries that share a public function.
    Round 4: EVERY public function is the `then` of a pair after the same function on other inputs and (quick tier: every second
    function, rotating with the seed; thorough: all, four times) of a pair after a function of another family (memoised structuring elements, lazily built
    tables, scratch buffers and caches keyed on shapes are shared across functions of a module)"""
    by_path = {}
    for name in sorted(reg_):
        by_path.setdefault(reg_[name]['path'], []).append(name)
    paths = sorted(by_path)
    plan = []
    for path, names in sorted(by_path.items()):
        if len(names) >= 2:
            for a in names:
                for b in names:
                    if a != b:
                        plan += [(a, b)] * dict(quick=1, thorough=4, search=1)[tier]
    half = rng.randrange(2)        # quick tier: the other-family predecessor for every second function (rotating with the seed)
    for pi, path in enumerate(paths):
        names = by_path[path]
        for k in range(dict(quick=1, thorough=4, search=1)[tier]):
            b = names[k % len(names)]
            plan.append((b, b))
            other = paths[(pi + 1 + rng.randrange(len(paths) - 1)) % len(paths)]
            g = rng.choice(by_path[other])
            if tier != 'quick' or pi % 2 == half:
                plan.append((g, b))
    return plan


def cases(rng, tier):
    reg_ = _registry()
    out = list(_corpus()) if tier != 'search' else []
    cover_case = dict(stream='cover')
    out.append(cover_case)
    nview = dict(quick=600, thorough=20000, search=3000)[tier]
    for _ in range(nview):
        out.append(_rand_view(rng))
    for _ in range(dict(quick=240, thorough=6000, search=1200)[tier]):
        out.append(_rand_wview(rng))
    for norm in sorted(NORMS):
        for layout in gen.LAYOUTS + ['unaligned']:
            for nd in (1, 2, 3):
                for _ in range(dict(quick=1, thorough=5, search=2)[tier]):
                    out.append(dict(stream='norm', norm=norm, layout=layout, nd=nd, seed=rng.randrange(1 << 30)))
    # call sequences (history): see `_history_plan`
    plan = _history_plan(rng, tier, reg_)
    cover_case['history_paths'] = sorted({reg_[b]['path'] for _, b in plan})
    for a, b in plan:
        out.append(dict(stream='history',
                        first=dict(stream='sweep', fn=a, seed=rng.randrange(1 << 30), size=5, pos=None, layout='C'),
                        then=dict(stream='sweep', fn=b, seed=rng.randrange(1 << 30), size=5, pos=None, layout='C')))
    ninputs = dict(quick=3, thorough=40, search=6)[tier]
    for name in sorted(reg_):
        e = reg_[name]
        for _ in range(ninputs):
            seed = rng.randrange(1 << 30)
            size = rng.choice([4, 5, 6, 7])
            args = e['gen'](G(seed, size))
            positions = [k for k, v in args.items() if isinstance(v, np.ndarray)]
            out.append(dict(stream='sweep', fn=name, seed=seed, size=size, pos=None, layout='C'))
            for pos in positions:
                for layout in gen.LAYOUTS[1:]:
                    if layout == 'readonly' and pos in e['no_readonly']:
                        continue
                    if args[pos].ndim < 2 and layout in ('F', 'transposed'):
                        continue      # identical to C for rank < 2
                    out.append(dict(stream='sweep', fn=name, seed=seed, size=size, pos=pos, layout=layout))
    return out


def shrink(case):
    if case.get('stream') == 'sweep':
        for size in range(3, case.get('size', 6)):
            yield dict(case, size=size)
        for seed in (0, 1, 2, 3):
            if seed < case['seed']:       # strictly decreasing: the greedy loop must terminate
                yield dict(case, seed=seed, size=min(case.get('size', 6), 4))
    elif case.get('stream') == 'view':
        shape, strides = case['shape'], case['strides']
        for ax in range(len(shape)):
            if len(shape) > 1:
                c = dict(case, shape=shape[:ax] + shape[ax + 1:], strides=strides[:ax] + strides[ax + 1:])
                yield c
            if shape[ax] > 1:
                yield dict(case, shape=shape[:ax] + [shape[ax] - 1] + shape[ax + 1:])


if __name__ == '__main__':
    if '--worker' in sys.argv:
        _worker_main()
