"""C09 — the out= convention: the result lands in the supplied buffer or the call is rejected.

Streams:
  getout   the Lean decision function `getOutput` against the real `internal._get_output` on descriptor combinations;
  out      every (public function, out/output parameter) pair found by introspection x buffer variants x 1-3 D inputs:
           identity of the returned object, equality with the no-out call, exception class, buffer untouched on
           rejection; the Lean buffer-flow program of the function predicts the outcome (returned buffer / raise);
  cover    the registry is compared with the (function, parameter) pairs found by introspection.
"""
from __future__ import annotations
import importlib, inspect, json, types, warnings
import numpy as np
from .. import core, gen
from . import c08

ID = 'C09'
LEVEL = 'proof'
RULE = ('corpus; _get_output decision: random (array, out, dtype) descriptor triples incl. every reject reason; '
        'out-sweep: every (function, out|output) pair of the public API (by introspection) x {valid, deprecated alias, '
        'wrong dtype, wrong shape, strided, negative stride, Fortran, read-only, documented aliasing, out = each array argument itself, '
        'out overlapping the image, other byte order, zero-size input with matching out, zero-size out, 0-d out, zero-stride broadcast view} x inputs of the '
        'ranks the function supports (1-3 D), modes / structuring elements / axes (also negative) / orders varied. Non-trivial = the variant is not the plain valid buffer or the result '
        'differs from the sentinel fill; distinct = distinct (function, parameter, variant, rank, seed).')
ASSUMPTIONS = ['the documented dtype/shape of `out` is the dtype/shape of the result of the same call without out '
               '(zoom: any dtype/shape, by its docstring; remove_bordering: nothing documented beyond the in-place use)',
               'a non-contiguous buffer whose shape makes it C-contiguous anyway (length-1 axes, rank 1 Fortran) counts as valid',
               'a view of `out` with the same memory, shape and strides counts as "that same array" (hitmiss returns the uint8 view of a bool buffer)',
               'out aliasing the IMAGE argument (the array itself, or a partially overlapping view) is judged for every function: the '
               'result must be the result of the call without out (every wrapper copies the image when np.may_share_memory says so, '
               'or works in place by construction); out aliasing a second operand is judged where the wrapper guards it (subm b, '
               'cerode g) and only recorded for structuring elements / weights / templates',
               'an out of the documented dtype in the other byte order may be rejected (cleanly) or accepted (then the VALUES read '
               'through the buffer must be the result); zero-size and 0-d inputs that the function refuses cleanly are skipped',
               'read-only buffers are exercised and their fate recorded (tags) but not judged: the statement is silent about them',
               'float results with and without out are compared with relative tolerance 1e-12']
TRUSTED = ['numpy (buffer construction, flags, shares_memory)']
EXPLANATION = ('getOutput decision and the buffer-flow programs are proved in Lean; the translator re-extracts every '
               '_get_output call site (function, dtype argument) and the order of its tests from the current source.')
LEAN_TARGETS = None

MODULES = ['mahotas', 'mahotas.morph', 'mahotas.convolve', 'mahotas.labeled', 'mahotas.interpolate', 'mahotas.features',
           'mahotas.features.texture', 'mahotas.segmentation', 'mahotas.polygon', 'mahotas.thresholding', 'mahotas.colors',
           'mahotas.features.surf', 'mahotas.features.lbp', 'mahotas.stretch', 'mahotas.distance', 'mahotas.resize',
           'mahotas.edge', 'mahotas.thin', 'mahotas.euler', 'mahotas.bbox', 'mahotas.center_of_mass', 'mahotas.histogram']

VARIANTS = ['valid', 'wrong_dtype', 'wrong_shape', 'wrong_shape_t', 'strided', 'negstride', 'fortran', 'readonly', 'alias', 'alias_strided',
            # round 4: out aliases array argument k (k = 0, 1, 2: the image AND every other array operand - structuring element,
            # weights, template, cerode's g, subm's b), in three forms: `in` the very object, `view` another view object over
            # exactly the same memory (`a[:]`, `a.reshape(a.shape)`), `shift` a C-contiguous view of one larger 1-D buffer
            # that overlaps the argument by a shift of +-1 ... +-row elements (the argument is then a view of that buffer too);
            # then: documented dtype in the other byte order, zero-size input with matching out, zero-size out, 0-d out, a
            # zero-stride (broadcast) view
            'alias_in0', 'alias_in1', 'alias_in2', 'alias_view0', 'alias_view1', 'alias_view2',
            'alias_shift0', 'alias_shift1', 'alias_shift2',
            'byteswapped', 'zerosize', 'zerosize_out', 'zerod', 'broadcast',
            # a 64-bit integer image and an out of the EQUAL dtype with the other C type number ('l' vs 'q', 'L' vs 'Q':
            # `np.dtype('l') == np.dtype('q')`, so `_get_output` accepts it; the native re-check must use an equivalence test)
            'equivtype']
EQUIV = {'l': 'q', 'q': 'l', 'L': 'Q', 'Q': 'L'}


def _alias_form(variant):
    """'alias_view1' -> ('view', 1); None for the other variants"""
    for form in ('in', 'view', 'shift'):
        if variant.startswith('alias_' + form) and variant[len('alias_' + form):].isdigit():
            return form, int(variant[len('alias_' + form):])
    return None


def dtcode(dt):
    dt = np.dtype(dt)
    # numpy's dtype comparison (what `_get_output` uses) distinguishes byte orders: part of the canonical code
    return ord(dt.kind) * 1000 + dt.itemsize + (0 if dt.isnative else 500)


REG = {}


def reg(path, genf, dims=(1, 2, 3), flow='kernel', res='same', req=('dtype', 'shape', 'contig'), alias=False, inp=0, aflow=None):
    REG[path] = dict(path=path, gen=genf, dims=dims, flow=flow, res=res, req=set(req), alias=alias, inp=inp,
                     aflow=aflow or {'label': 'inplace', 'convolve1d': 'kernel', 'gaussian1d': 'kernel', 'zoom': 'kernel', 'hitmiss': 'hitmiss'}.get(flow, flow))


def _registry():
    if REG:
        return REG
    M, C, L, I = 'mahotas.morph.', 'mahotas.convolve.', 'mahotas.labeled.', 'mahotas.interpolate.'

    def img(g, nd, dts=(bool, np.uint8, np.int16, np.int32, np.int64, np.uint64)):
        dt = g.r.choice(dts)
        shp = g.shape(nd, 2)
        return g.b(shp) if dt is bool else g.img(shp, dt)

    def morph(g, nd):
        A = img(g, nd)
        return [A, g.bc(nd).astype(A.dtype)], {}
    reg(M + 'dilate', morph)
    reg(M + 'erode', morph)
    reg(M + 'open', morph, flow='open')
    reg(M + 'close', morph, flow='close')
    reg(M + 'tophat_open', morph, flow='tophat_open')
    reg(M + 'tophat_close', morph, flow='tophat_close')

    def cer(g, nd):
        A = img(g, nd, (np.uint8, np.int16, np.int32, np.int64, np.uint64))
        return [A, g.img(A.shape, A.dtype), g.bc(nd).astype(A.dtype)], {}
    reg(M + 'cerode', cer, flow='cerode')

    def subm(g, nd):
        dt = g.idt()
        s = g.shape(nd, 2)
        return [g.img(s, dt), g.img(s, dt)], {}
    reg(M + 'subm', subm, flow='subm', alias=True)
    reg(M + 'hitmiss', lambda g, nd: ([g.u8(g.shape(2, 3), 1) if g.r.random() < 0.6 else g.b(g.shape(2, 3)), g.ints((3, 3), 0, 2, np.uint8)], {}),
        dims=(2,), flow='hitmiss', res=None)
    # also images with an axis shorter than the window (the kernel returns early: the buffer must still hold the result)
    reg(M + 'majority_filter', lambda g, nd: ([g.b(g.shape(2, 3)) if g.r.random() < 0.6 else g.b((g.r.randint(1, 2), g.r.randint(1, 7))[::g.r.choice([1, -1])])],
                                             {'N': g.r.choice([3, 3, 5, 7])}), dims=(2,), res='bool')

    _mode = lambda g: ({'mode': g.r.choice(['nearest', 'wrap', 'reflect', 'mirror', 'constant', 'ignore', 'ignore'])}
                       if g.r.random() < 0.5 else {})

    def ext(g, nd):
        f = g.fl(g.shape(nd, 2), 0, 3) if g.r.random() < 0.3 else g.img(g.shape(nd, 2))
        return [f, g.bc(nd)], {}
    for fn in ('locmax', 'locmin', 'regmax', 'regmin'):
        reg(M + fn, ext, res='bool')

    reg(C + 'convolve', lambda g, nd: ([g.fl(g.shape(nd, 2)), g.fl(tuple(g.r.randint(1, 3) for _ in range(nd)), 0, 3)], _mode(g)))
    reg(C + 'convolve1d', lambda g, nd: ([g.fl(g.shape(nd, 4)), g.fl((g.r.choice([2, 3, 3, 5, 7]),), 0, 3), g.r.randrange(-nd, nd)], _mode(g)), flow='convolve1d')

    MODES = ['nearest', 'wrap', 'reflect', 'mirror', 'constant', 'ignore']

    def mode(g, p=0.6):
        # every border mode, 'ignore' most often: there a pixel may have NO sample at all (a neighbourhood without its
        # centre at the image edge) and the kernel must still write that pixel of the caller's buffer
        return {'mode': g.r.choice(MODES + ['ignore', 'ignore', 'constant'])} if g.r.random() < p else {}

    def offbc(g, nd):
        # a neighbourhood that does not contain its centre (one or two off-centre entries)
        B = np.zeros((3,) * nd, bool)
        for _ in range(g.r.choice([1, 1, 2])):
            while True:
                pos = tuple(g.r.randrange(3) for _ in range(nd))
                if pos != (1,) * nd:
                    break
            B[pos] = True
        return B

    def filt(g, nd):
        bc = offbc(g, nd) if g.r.random() < 0.35 else g.bc(nd)
        return [g.img(g.shape(nd, 2), g.r.choice([np.uint8, np.int32, np.float64, np.int64, np.uint64])), bc], mode(g)
    reg(C + 'median_filter', filt)
    reg(C + 'mean_filter', filt, res='float64')
    reg(C + 'rank_filter', lambda g, nd: (lambda a, kw: (a + [0], kw))(*filt(g, nd)))
    reg(C + 'template_match', lambda g, nd: ([g.fl(g.shape(nd, 3)), g.fl((2,) * nd, 0, 3)], mode(g)))
    _gorder = lambda g: ({'order': g.r.choice([0, 1, 2, 3])} if g.r.random() < 0.4 else {})
    reg(C + 'gaussian_filter', lambda g, nd: ([g.fl(g.shape(nd, 3)), g.r.choice([0.75, 0.75, 0.5, 1.25])], dict(mode(g, 0.4), **_gorder(g))), flow='gaussian')
    reg(C + 'gaussian_filter1d', lambda g, nd: ([g.fl(g.shape(nd, 3)), g.r.choice([0.75, 0.5, 1.25]), g.r.randrange(-nd, nd)], dict(mode(g, 0.4), **_gorder(g))), flow='gaussian1d')

    reg(L + 'label', lambda g, nd: ([g.b(g.shape(nd, 2)), g.bc(nd)], {}), res='int32', flow='label')
    reg(L + 'remove_bordering', lambda g, nd: ([g.lab(g.shape(nd, 3), 3, np.int32)], {}), flow=None, req=(), alias=True, dims=(2, 3))
    _lbc = lambda g, nd: ({'Bc': g.bc(nd)} if g.r.random() < 0.5 else {})
    reg(L + 'border', lambda g, nd: ([g.lab(g.shape(nd, 3), 3, np.int32), g.r.choice([0, 1, 1]), g.r.choice([2, 2, 3])],
                                     _lbc(g, nd)), res='bool', dims=(2, 3))
    reg(L + 'borders', lambda g, nd: ([g.lab(g.shape(nd, 3), 3, np.int32)],
                                      dict(_lbc(g, nd), **({'mode': g.r.choice(['constant', 'nearest', 'wrap', 'reflect', 'mirror', 'ignore'])} if g.r.random() < 0.5 else {}))),
        res='bool', dims=(2, 3))

    reg(I + 'spline_filter1d', lambda g, nd: ([g.fl(g.shape(nd, 4)), g.r.choice([2, 3, 3, 4]), g.r.randrange(-nd, nd)], {}), res='float64', aflow='inplace')
    reg(I + 'spline_filter', lambda g, nd: ([g.fl(g.shape(nd, 4))], ({'order': g.r.choice([2, 3, 4])} if g.r.random() < 0.5 else {})), res='float64', aflow='inplace')
    _imode = lambda g: ({'mode': g.r.choice(['nearest', 'wrap', 'reflect', 'mirror', 'constant'])} if g.r.random() < 0.5 else {})
    _iord = lambda g: ({'order': g.r.choice([1, 2, 3, 4])} if g.r.random() < 0.5 else ({'prefilter': False} if g.r.random() < 0.3 else {}))
    reg(I + 'shift', lambda g, nd: ([g.fl(g.shape(nd, 4)), [g.r.choice([0.5, -1.25, 2.0, 7.5])] * nd], dict(_imode(g), **_iord(g))), res='float64')
    reg(I + 'zoom', lambda g, nd: ([g.fl(g.shape(nd, 4)), g.r.choice([1.5, 1.5, 0.75, 2.0])], dict(_imode(g), **_iord(g))), flow='zoom', req=('contig',), res=None)
    reg('mahotas.features.texture.cooccurence', lambda g, nd: ([g.u8(g.shape(2, 3), 4), 0], {}), dims=(2,), flow=None,
        req=('dtype',), res=None)
    return REG


def _resolve(path):
    mod, name = path.rsplit('.', 1)
    return getattr(importlib.import_module(mod), name)


def _pairs():
    """(qualified function name, parameter) for every public function with an out/output parameter"""
    found = {}
    for m in MODULES:
        try:
            Mod = importlib.import_module(m)
        except Exception:
            continue
        names = getattr(Mod, '__all__', None) or [n for n in dir(Mod) if not n.startswith('_')]
        for n in names:
            o = getattr(Mod, n, None)
            if isinstance(o, types.FunctionType) and (o.__module__ or '').startswith('mahotas'):
                try:
                    ps = inspect.signature(o).parameters
                except (TypeError, ValueError):
                    continue
                for p in ('out', 'output'):
                    if p in ps:
                        found[(o.__module__ + '.' + o.__name__, p)] = True
    return sorted(found)


# ------------------------------------------------------------------------------------------------------------------

SENT = 0x5B


def _sent(dtype):
    dtype = np.dtype(dtype)
    return np.frombuffer(bytes([SENT]) * dtype.itemsize, dtype=dtype)[0] if dtype != np.bool_ else True


def _carve(shape, dtype, order='C', slack=0):
    """a buffer of `shape` carved out of a larger sentinel-filled root, with room behind it: if a weakened guard
    lets a kernel write a whole result through a wrong-shaped / wrong-typed / reversed buffer, the writes stay
    inside the root (and show up as a touched buffer) instead of corrupting the heap of the checking process"""
    dtype = np.dtype(dtype)
    n = int(np.prod(shape))
    pad = (64 * max(n, slack) + 1024) // dtype.itemsize + 8
    root = np.empty(n + pad, dtype)
    root[...] = _sent(dtype)
    return root[:n].reshape(shape, order=order)


def _mk_out(variant, shape, dtype, g, args, e):
    """-> (buffer, valid?) or None when the variant does not apply"""
    shape = tuple(shape)
    dtype = np.dtype(dtype)
    n0 = int(np.prod(shape))
    loose = 'contig' not in e['req']
    if variant == 'valid':
        return _carve(shape, dtype), True
    if variant == 'wrong_dtype':
        if 'dtype' not in e['req']:
            return None
        cands = [d for d in (np.uint8, np.int32, np.float64, np.bool_, np.uint16, np.float32) if np.dtype(d) != dtype]
        if e['path'].endswith('hitmiss'):
            cands = [d for d in cands if np.dtype(d) not in (np.dtype(bool), np.dtype(np.uint8))] + [np.int8]
        return _carve(shape, g.r.choice(cands), slack=n0), False
    if variant in ('wrong_shape', 'wrong_shape_t'):
        if 'shape' not in e['req']:
            return None
        if variant == 'wrong_shape':
            ax = g.r.randrange(len(shape))
            s2 = tuple(s + (g.r.choice([1, -1]) if s > 1 else 1) if i == ax else s for i, s in enumerate(shape))
            if g.r.random() < 0.2:
                s2 = shape + (1,)
        else:
            s2 = shape[::-1]
            if s2 == shape:
                return None
        return _carve(s2, dtype, slack=n0), False
    if 'contig' in e['req'] and 'dtype' not in e['req'] and variant in ('strided', 'negstride', 'fortran') and g.r.random() < 0.6:
        # the function lets `out` choose the dtype (zoom): a non-contiguous buffer of ANOTHER dtype is just as invalid
        dtype = np.dtype(g.r.choice([np.float32, np.int32, np.uint8, np.int16]))
    if variant == 'strided':
        big = _carve(tuple(2 * s for s in shape), dtype)
        v = big[tuple(slice(None, None, 2) for _ in shape)]
        return v, bool(v.flags.c_contiguous) or loose
    if variant == 'negstride':
        # the view's data pointer is the LAST element of its block: keep a full block of slack behind it
        big = _carve((2,) + shape, dtype)
        v = big[0][tuple(slice(None, None, -1) for _ in shape)]
        return v, bool(v.flags.c_contiguous) or loose
    if variant == 'fortran':
        v = _carve(shape, dtype, order='F')
        return v, bool(v.flags.c_contiguous) or loose
    if variant == 'readonly':
        v = _carve(shape, dtype)
        v.setflags(write=False)
        return v, None
    if variant == 'alias_strided':
        # documented in-place use (out is the input itself) with an input that is NOT C-contiguous: the buffer is as
        # invalid as any other non-contiguous out - rejected, and the input left untouched
        if not e['alias'] or 'contig' not in e['req']:
            return None      # (remove_bordering documents in-place use without any contiguity requirement)
        a = args[e['inp']]
        if a.shape != shape or a.dtype != dtype or a.ndim == 0:
            return None
        big = _carve(tuple(2 * s for s in a.shape), a.dtype)
        v = big[tuple(slice(None, None, 2) for _ in a.shape)]
        if v.flags.c_contiguous:
            return None
        v[...] = a
        args[e['inp']] = v
        return v, False
    af = _alias_form(variant)
    if af is not None:
        form, k = af
        if k >= len(args) or not isinstance(args[k], np.ndarray):
            return None
        a = args[k]
        if a.shape != shape or a.dtype != dtype or not a.flags.c_contiguous or a.ndim == 0 or a.size == 0:
            return None
        if form == 'in':
            return a, True
        if form == 'view':
            v = a[...] if g.r.random() < 0.5 else a.reshape(a.shape)
            return (v, True) if v is not a else None
        # shift: argument and out are both C-contiguous views of ONE 1-D root, `d` elements apart (0 < |d| <= one row)
        if n0 < 2:
            return None
        row = int(np.prod(shape[1:])) if len(shape) > 1 else 1
        d = g.r.choice([1, -1, row, -row, g.r.randint(1, max(1, row)), -g.r.randint(1, max(1, row))])
        if abs(d) >= n0:
            d = 1 if d > 0 else -1
        root = _carve((n0 + abs(d),), dtype, slack=n0)
        lo_a, lo_o = (0, d) if d > 0 else (-d, 0)
        img = root[lo_a:lo_a + n0].reshape(shape)
        img[...] = a
        args[k] = img
        return root[lo_o:lo_o + n0].reshape(shape), True
    if variant == 'equivtype':
        ch = args[e['inp']].dtype.char if isinstance(args[e['inp']], np.ndarray) else ''
        if ch not in EQUIV or dtype.char not in EQUIV or 'dtype' not in e['req'] and not e['path'].endswith('remove_bordering'):
            return None
        o = _carve(shape, np.dtype(EQUIV[dtype.char]))
        return (o, True) if o.dtype.char == EQUIV[dtype.char] else None
    if variant == 'byteswapped':
        if dtype.itemsize == 1 or 'dtype' not in e['req'] and not e['path'].endswith('.zoom'):
            return None
        return _carve(shape, dtype.newbyteorder(), slack=n0), 'either'
    if variant == 'zerosize':
        # zero-size INPUT (made by `_pre`) with the matching zero-size out: a valid buffer
        if not (n0 == 0 and len(shape) > 0):
            return None
        return _carve(shape, dtype), True
    if variant in ('zerod', 'zerosize_out'):
        # a 0-d / zero-size out of the right dtype for an ordinary input: wrong shape, to be rejected and left alone
        if n0 == 0 or len(shape) == 0 or ('shape' not in e['req'] and not (variant == 'zerod' and e['path'].endswith('.zoom'))):
            return None
        s2 = () if variant == 'zerod' else ((0,) + shape[1:] if g.r.random() < 0.5 or len(shape) == 1 else shape[:-1] + (0,))
        return _carve(s2, dtype, slack=n0), False
    if variant == 'broadcast':
        if loose or len(shape) < 2 or shape[0] < 2 or n0 == 0:
            return None
        row = _carve(shape[1:], dtype, slack=n0)
        v = np.lib.stride_tricks.as_strided(row, shape=shape, strides=(0,) + row.strides)
        return v, False
    if variant == 'alias':
        if not e['alias']:
            return None
        a = args[e['inp']]
        if a.shape != shape or a.dtype != dtype:
            return None
        return a, True
    raise ValueError(variant)


def _pre(case, e, g, args):
    """round 4: variants that change the *inputs* (before the reference call without out is made)"""
    v = case['variant']
    k = e['inp']
    af = _alias_form(v)
    if af is not None:
        form, j = af
        if j >= len(args) or not isinstance(args[j], np.ndarray):
            return
        want = None if e['res'] in (None, 'same') else np.dtype(e['res'])
        if e['path'].endswith('.zoom'):
            args[1] = 1.0          # out fixes the shape: an argument can only be the out when the shape is kept
        if j != k and isinstance(args[k], np.ndarray):
            # a second operand can only be the out when the image has ITS shape: shrink / tile the image
            if args[j].ndim != args[k].ndim or args[j].size == 0:
                return
            shp0 = args[k].shape
            for i, x in enumerate(args):      # the image and its same-shaped companions (cerode's g, subm's b)
                if i != j and isinstance(x, np.ndarray) and x.shape == shp0:
                    args[i] = np.resize(x, args[j].shape)
            if want is None and e['res'] == 'same':
                want = args[k].dtype
        if want is not None and args[j].dtype != want:
            # give the argument the documented result dtype where that is a fixed one, so that it CAN serve as the out
            args[j] = (args[j] != 0) if want == np.bool_ else args[j].astype(want)
        args[j] = np.ascontiguousarray(args[j])
    elif v == 'equivtype':
        # the image (and every array operand of its dtype) becomes a 64-bit integer array created with one of the four type
        # characters; `_mk_out` then builds the out with the twin character
        a = args[k]
        if not isinstance(a, np.ndarray) or e['res'] != 'same' and e['res'] is not None or a.dtype.kind == 'f' and e['path'].split('.')[-1] in (
                'gaussian_filter', 'gaussian_filter1d', 'spline_filter', 'spline_filter1d', 'shift', 'zoom'):
            return
        ch = g.r.choice('lqLQ')
        dt0 = a.dtype
        for i, x in enumerate(args):
            if isinstance(x, np.ndarray) and (x.dtype == dt0 or i == k):
                args[i] = np.abs(x).astype(np.dtype(ch)) if x.dtype.kind in 'iuf' else x.astype(np.dtype(ch))
    elif v == 'zerosize':
        a = args[k]
        if not isinstance(a, np.ndarray) or a.ndim == 0:
            return
        shp = (0,) + a.shape[1:] if g.r.random() < 0.6 or a.ndim == 1 else a.shape[:-1] + (0,)
        for i, x in enumerate(args):
            if isinstance(x, np.ndarray) and x.shape == a.shape:
                args[i] = np.empty(shp, x.dtype)


def _desc(prefix, a):
    return f"{prefix}dt={dtcode(a.dtype)} {prefix}shape={gen.enc_shape(a.shape)} {prefix}contig={1 if a.flags.c_contiguous else 0}"


KNOWN_KEYS = {}


def _key(e, param, variant, what):
    name = e['path'].rsplit('.', 1)[1]
    if name == 'gaussian_filter' and what in ('not-returned', 'differs'):
        return 'gaussian_filter:out-ignored'
    if name == 'gaussian_filter1d' and what in ('not-returned', 'differs', 'invalid-accepted'):
        return 'gaussian_filter1d:out-ignored'
    if name == 'zoom' and what.startswith('wrong-exception'):
        return 'zoom:out-noncontiguous-RuntimeError'
    if name == 'convolve1d' and what == 'valid-rejected' and variant == 'valid':
        return 'convolve1d:axis0-valid-out-rejected'
    if name == 'convolve1d' and variant == 'wrong_shape_t' and what == 'invalid-accepted':
        return 'convolve1d:axis0-transposed-shape-out-accepted'
    if name == 'convolve1d' and what in ('differs', 'not-returned'):
        return 'convolve1d:axis0-out-written-transposed'
    if name in ('open', 'close') and param == 'output':
        return f'{name}:output-ignored'
    if name == 'cooccurence' and what.startswith('wrong-exception'):
        return 'cooccurence:output-' + what
    return f'{name}:{param}:{variant}:{what}'


def _call(f, args, kwargs, param, out):
    with warnings.catch_warnings():
        warnings.simplefilter('ignore')
        with np.errstate(all='ignore'):
            kw = dict(kwargs)
            if param is not None:
                kw[param] = out
            return f(*args, **kw)


def _same_array(r, out):
    if r is out:
        return True
    return (isinstance(r, np.ndarray) and r.shape == out.shape and r.strides == out.strides and r.itemsize == out.itemsize
            and r.__array_interface__['data'][0] == out.__array_interface__['data'][0])


def _eval_out(cases):
    reg_ = _registry()
    prepared, lines = [], []
    for case in cases:
        e = reg_[case['fn']]
        g = c08.G(case['seed'], case.get('size', 5))
        args, kwargs = e['gen'](g, case['nd'])
        _pre(case, e, g, args)
        f = _resolve(e['path'])
        inp = args[e['inp']]
        base_args = [a.copy() if isinstance(a, np.ndarray) else a for a in args]
        try:
            base = _call(f, base_args, kwargs, None, None)
        except Exception as ex:  # noqa
            if case['variant'] == 'zerosize' and isinstance(ex, (ValueError, TypeError)):
                # the function refuses empty / 0-d input altogether (cleanly): nothing to say about out
                prepared.append((case, e, None, ('n/a-input-refused',), None, None, None))
            else:
                prepared.append((case, e, None, ('base-exc', type(ex).__name__, str(ex)[:200]), None, None, None))
            lines.append('ping')
            continue
        b0 = base[0] if isinstance(base, tuple) else base       # label returns (labeled, n)
        if not isinstance(b0, np.ndarray):
            prepared.append((case, e, None, ('n/a',), None, None, None))
            lines.append('ping')
            continue
        mk = _mk_out(case['variant'], b0.shape, b0.dtype, g, args, e)
        if mk is None:
            prepared.append((case, e, None, ('n/a',), None, None, None))
            lines.append('ping')
            continue
        out, valid = mk
        # the descriptor `_get_output` sees as `array` (the wrapper may have converted the input first)
        arr_desc = np.empty(b0.shape, inp.dtype if e['res'] == 'same' else b0.dtype)
        flow = e['flow']
        line = 'ping'
        if _alias_form(case['variant']) is not None:
            flow = None
            if e['aflow'] is not None and out.ndim > 0:
                line = (f"c09 kind=alias fn={e['aflow']} i={_alias_form(case['variant'])[1]} guard=1 {_desc('a', out)} dt={dtcode(b0.dtype)}")
        if flow in ('kernel', 'label', 'open', 'close', 'cerode', 'subm', 'tophat_open', 'tophat_close', 'gaussian', 'gaussian1d'):
            fl = {'label': 'kernel'}.get(flow, flow)
            if flow in ('open', 'close') and case['param'] == 'output':
                fl = flow + '_alias'        # the deprecated alias, forwarded since 399d97f
            a_for = np.empty(inp.shape, b0.dtype)
            line = f"c09 kind=flow fn={fl} {_desc('a', a_for)} {_desc('o', out)} dt={dtcode(b0.dtype)}"
        elif flow == 'convolve1d':
            w, axis = np.atleast_1d(np.asanyarray(args[1]).squeeze()), args[2] % inp.ndim
            fast = bool(inp.flags.contiguous and len(w) < inp.shape[axis])
            a_for = np.empty(inp.shape, b0.dtype)
            line = (f"c09 kind=flow fn=convolve1d fast={int(fast)} last={int(axis == inp.ndim - 1)} {_desc('a', a_for)} "
                    f"{_desc('o', out)} dt={dtcode(b0.dtype)}")
        elif flow == 'zoom':
            a_for = np.empty(inp.shape, np.float64)
            line = (f"c09 kind=flow fn=zoom {_desc('a', a_for)} {_desc('o', out)} owrite={int(out.flags.writeable)} "
                    f"zshape={gen.enc_shape(b0.shape)}")
        elif flow == 'hitmiss':
            a_for = np.empty(inp.shape, np.uint8 if inp.dtype == bool else inp.dtype)
            line = f"c09 kind=hitmiss {_desc('a', a_for)} {_desc('o', out)}"
        lines.append(line)
        prepared.append((case, e, f, None, (args, kwargs, base, b0), (out, valid), arr_desc))
    drvs = core.drive(lines)
    # Round 2: gaussian_filter is repaired (bc1f729) — only the conforming ping-pong `gaussRepairedP` is accepted; the
    # pinned flow (`gaussian_pinned`) is kept in Lean as history and no longer excuses a disagreement
    pinned = [None] * len(lines)
    res = []
    for (case, e, f, skip, call, ob, arr_desc), drv, pin in zip(prepared, drvs, pinned):
        param, variant = case['param'], case['variant']
        tags = dict(stream='out', fn=e['path'].rsplit('.', 1)[1], param=param, variant=variant, nd=case['nd'])
        if skip is not None:
            fnd = []
            if skip[0] == 'base-exc':
                fnd.append(dict(kind='model', key=f"{tags['fn']}:generator-out-of-domain", detail=dict(exc=skip[1], msg=skip[2])))
            res.append(dict(findings=fnd, nontrivial=False, sig=None, tags=dict(tags, outcome=skip[0])))
            continue
        args, kwargs, base, b0 = call
        out, valid = ob
        findings = []
        root = c08._root(out)
        aliasing = variant == 'alias' or _alias_form(variant) is not None
        before_root = root.tobytes() if not aliasing else None
        ins_before = [c08._digest(a) for a in args if isinstance(a, np.ndarray)]
        try:
            r = _call(f, args, kwargs, param, out)
            outcome = ('ok', r)
        except Exception as ex:  # noqa
            outcome = ('exc', type(ex).__name__, str(ex)[:200])
        touched = (before_root is not None and root.tobytes() != before_root)
        det = dict(fn=e['path'], param=param, variant=variant, nd=case['nd'], out_shape=list(out.shape), out_dtype=str(out.dtype),
                   expect_shape=list(b0.shape), expect_dtype=str(b0.dtype), outcome=outcome[0] if outcome[0] == 'ok' else outcome[1:])
        if variant != 'alias':
            for a, d0 in zip([a for a in args if isinstance(a, np.ndarray)], ins_before):
                if aliasing and np.may_share_memory(a, out):
                    continue        # the caller asked for this array to be overwritten
                if c08._digest(a) != d0:
                    findings.append(dict(kind='property', key=_key(e, param, variant, 'input-modified'), detail=det))
        if valid == 'observe':
            # out is a second operand (structuring element, weights, template) nobody documents as a possible out: recorded only
            r0 = outcome[1][0] if outcome[0] == 'ok' and isinstance(outcome[1], tuple) else outcome[1] if outcome[0] == 'ok' else None
            tags['alias_other'] = ('raised' if outcome[0] == 'exc' else
                                   'equal' if c08.same(c08.canon(np.array(r0)), c08.canon(b0)) is None else 'differs')
            valid = None
        elif valid == 'either':
            # documented dtype, other byte order: rejected (cleanly) or accepted with the right VALUES in the caller's buffer
            if outcome[0] == 'ok':
                r0 = r[0] if isinstance(r, tuple) else r
                if not _same_array(r0, out):
                    findings.append(dict(kind='property', key=_key(e, param, variant, 'not-returned'), detail=det))
                got = np.array(out).astype(out.dtype.newbyteorder('='))
                why = c08.same(c08.canon(got), c08.canon(b0)) if got.dtype == b0.dtype else None
                if why:
                    findings.append(dict(kind='property', key=_key(e, param, variant, 'differs'), detail=dict(det, why=why)))
                tags['byteswapped'] = 'accepted'
            else:
                if outcome[1] not in ('ValueError', 'TypeError'):
                    findings.append(dict(kind='property', key=_key(e, param, variant, 'wrong-exception-' + outcome[1]), detail=det))
                if touched:
                    findings.append(dict(kind='property', key=_key(e, param, variant, 'touched-on-rejection'), detail=det))
                tags['byteswapped'] = 'rejected'
            # a rejection is also what the Lean decision function predicts (the dtype codes differ): compared below
            valid = None if outcome[0] == 'ok' else False
        if valid is True:
            if outcome[0] == 'exc':
                findings.append(dict(kind='property', key=_key(e, param, variant, 'valid-rejected'), detail=det))
            else:
                r0 = r[0] if isinstance(r, tuple) else r
                if not _same_array(r0, out):
                    findings.append(dict(kind='property', key=_key(e, param, variant, 'not-returned'), detail=det))
                why = c08.same(c08.canon(np.array(out)), c08.canon(b0)) if e['path'] != 'mahotas.interpolate.zoom' or variant == 'valid' or aliasing else None
                if why and e['path'].endswith('cooccurence'):
                    why = None if np.array_equal(np.array(out)[:b0.shape[0], :b0.shape[1]], b0) else why
                if why:
                    findings.append(dict(kind='property', key=_key(e, param, variant, 'differs'), detail=dict(det, why=why)))
                if isinstance(r, tuple) and isinstance(base, tuple) and r[1:] != base[1:]:
                    findings.append(dict(kind='property', key=_key(e, param, variant, 'differs'), detail=dict(det, why='second result differs')))
        elif valid is False:
            if outcome[0] == 'ok':
                findings.append(dict(kind='property', key=_key(e, param, variant, 'invalid-accepted'), detail=dict(det, touched=touched)))
            else:
                if outcome[1] not in ('ValueError', 'TypeError'):
                    findings.append(dict(kind='property', key=_key(e, param, variant, 'wrong-exception-' + outcome[1]), detail=det))
                if touched:
                    findings.append(dict(kind='property', key=_key(e, param, variant, 'touched-on-rejection'), detail=det))
        elif variant == 'readonly':   # read-only: the statement does not speak about it; recorded in the distribution only
            tags['readonly'] = 'written' if touched else ('rejected' if outcome[0] == 'exc' else 'unwritten')
        # the Lean model's prediction for this wrapper
        if _alias_form(variant) is not None and 'same' in drv:
            # `out` is an input: the aliasing model says whether the call returns that buffer holding the result of the call without out
            real_same = (outcome[0] == 'ok' and _same_array(outcome[1][0] if isinstance(outcome[1], tuple) else outcome[1], out)
                         and c08.same(c08.canon(np.array(out)), c08.canon(b0)) is None)
            tags['model'] = 'alias-safe' if drv['same'] == '1' else 'alias-unspecified'
            if drv['same'] == '1' and drv.get('ret') == 'out' and not real_same and not findings:
                findings.append(dict(kind='model', key=f"{tags['fn']}:alias-model", detail=dict(det, model=drv)))
        elif _alias_form(variant) is not None:
            pass
        elif (valid is not None or e['flow'] == 'zoom') and 'res' in drv:
            pred_ok = drv['res'] == 'ok' and drv.get('ret') == 'out'
            alt_ok = pin is not None and pin.get('res') == 'ok' and pin.get('ret') == 'out'
            real_ok = outcome[0] == 'ok' and _same_array(outcome[1][0] if isinstance(outcome[1], tuple) else outcome[1], out)
            real_raise = outcome[0] == 'exc'
            pred_raise = drv['res'] == 'raise'
            agree = (pred_ok and real_ok) or (pred_raise and real_raise and outcome[1] == 'ValueError')
            agree_alt = pin is not None and ((alt_ok and real_ok) or (pin.get('res') == 'raise' and real_raise) or
                                             (pin.get('res') == 'ok' and pin.get('ret') == 'fresh' and outcome[0] == 'ok' and not real_ok))
            if not agree and not agree_alt and not findings:
                findings.append(dict(kind='model', key=f"{tags['fn']}:flow-model", detail=dict(det, model=drv)))
            tags['model'] = 'convention' if agree else ('pinned-gaussian' if agree_alt else 'differs')
        elif valid is not None and 'dec' in drv:      # hitmiss
            d = drv['dec']
            real = ('out' if outcome[0] == 'ok' and outcome[1] is out else 'view' if outcome[0] == 'ok' and _same_array(outcome[1], out)
                    else 'other' if outcome[0] == 'ok' else outcome[1])
            if d != real and not findings:
                findings.append(dict(kind='model', key='hitmiss:validation-model', detail=dict(det, model=d, real=real)))
        # T3: without out the result has the documented dtype and the input's shape
        inp = args[e['inp']]
        if e['res'] is not None:       # (round 4: on every call of the sweep, not only next to a valid buffer)
            want = inp.dtype if e['res'] == 'same' else np.dtype(e['res'])
            if b0.dtype != want or b0.shape != inp.shape:
                findings.append(dict(kind='property', key=_key(e, param, variant, 'default-dtype-shape'),
                                     detail=dict(det, got=[str(b0.dtype), list(b0.shape)], want=[str(want), list(inp.shape)])))
        seen, keep = set(), []
        for x in findings:
            if x['key'] not in seen:
                seen.add(x['key'])
                keep.append(x)
        res.append(dict(findings=keep, nontrivial=bool(variant != 'valid' or not np.all(np.array(out) == _sent(out.dtype))),
                        sig=json.dumps(case, sort_keys=True),
                        tags=dict(tags, outcome=outcome[0] if outcome[0] == 'ok' else 'exc:' + outcome[1],
                                  valid={True: 'valid', False: 'invalid', None: 'unjudged'}[valid])))
    return res


def _isolated(cases):
    """run `_eval_out` in a forked child: a weakened guard can let a native kernel write through a bad buffer and
    kill the process; the crash is then a finding for the offending case instead of the end of the check"""
    import os, pickle, signal, traceback
    if not cases:
        return []
    r, w = os.pipe()
    pid = os.fork()
    if pid == 0:
        code = 0
        try:
            os.close(r)
            signal.alarm(120 + len(cases))
            data = pickle.dumps(_eval_out(cases))
            with os.fdopen(w, 'wb') as fh:
                fh.write(data)
        except BaseException:  # noqa
            traceback.print_exc()
            code = 3
        finally:
            os._exit(code)
    os.close(w)
    with os.fdopen(r, 'rb') as fh:
        data = fh.read()
    _, status = os.waitpid(pid, 0)
    if os.WIFEXITED(status) and os.WEXITSTATUS(status) == 0:
        return pickle.loads(data)
    if os.WIFEXITED(status):
        raise core.Infra(f'C09 evaluation raised in the isolated child (exit {os.WEXITSTATUS(status)})')
    sig = os.WTERMSIG(status)
    if len(cases) == 1:
        c = cases[0]
        e = _registry()[c['fn']]
        what = 'hang' if sig == signal.SIGALRM else f'crash-signal-{sig}'
        return [dict(findings=[dict(kind='property', key=_key(e, c['param'], c['variant'], what),
                                    detail=dict(fn=e['path'], param=c['param'], variant=c['variant'], nd=c['nd'], signal=sig))],
                     nontrivial=True, sig=json.dumps(c, sort_keys=True),
                     tags=dict(stream='out', fn=e['path'].rsplit('.', 1)[1], param=c['param'], variant=c['variant'], nd=c['nd'],
                               outcome=what))]
    h = len(cases) // 2
    return _isolated(cases[:h]) + _isolated(cases[h:])


def _eval_getout(cases):
    from mahotas.internal import _get_output
    lines, objs = [], []
    for c in cases:
        arr = np.empty(c['ashape'], c['adt'])
        if c.get('out') is None:
            out = None
        else:
            o = c['out']
            big = np.empty(tuple(2 * s for s in o['shape']), o['dt']) if o['layout'] == 'strided' else None
            out = (np.empty(o['shape'], o['dt']) if o['layout'] == 'C' else np.empty(o['shape'], o['dt'], order='F') if o['layout'] == 'F'
                   else big[tuple(slice(None, None, 2) for _ in o['shape'])])
        dt = c.get('dt')
        line = f"c09 kind=getout {_desc('a', arr)}" + (f" {_desc('o', out)}" if out is not None else '') + (f" dt={dtcode(dt)}" if dt else '')
        lines.append(line)
        objs.append((arr, out, dt))
    drvs = core.drive(lines)
    res = []
    for c, (arr, out, dt), drv in zip(cases, objs, drvs):
        findings = []
        before = None if out is None else c08._root(out).tobytes()
        try:
            with warnings.catch_warnings():
                warnings.simplefilter('ignore')
                r = _get_output(arr, out, 'verif', dtype=dt)
            if out is not None and r is out:
                real = 'out'
            else:
                real = f'fresh:{dtcode(r.dtype)}:{gen.enc_shape(r.shape)}:{int(r.flags.c_contiguous)}'
        except ValueError:
            real = 'reject'
        except Exception as ex:  # noqa
            real = 'exc:' + type(ex).__name__
        model = {'out': 'out', 'reject': 'reject'}.get(drv['dec']) or f"fresh:{drv['dt']}:{drv['shape'] or '-'}:1"
        if model != real:
            findings.append(dict(kind='model', key='getOutput:decision', detail=dict(model=drv, real=real, case=c)))
        # the statement: accepted iff dtype, shape and C-contiguity are right; then `out` itself; else ValueError/TypeError, untouched
        if out is not None:
            want = (out.dtype == np.dtype(dt or arr.dtype)) and out.shape == arr.shape and out.flags.c_contiguous
            if want != (real == 'out') or (not want and real != 'reject'):
                findings.append(dict(kind='property', key='_get_output:acceptance', detail=dict(real=real, should_accept=bool(want), case=c)))
            if c08._root(out).tobytes() != before:
                findings.append(dict(kind='property', key='_get_output:buffer-touched', detail=dict(case=c)))
        res.append(dict(findings=findings, nontrivial=out is not None, sig=lines[len(res)],
                        tags=dict(stream='getout', dec=drv['dec'], why=drv.get('why', '-'))))
    return res


def _eval_cover(case):
    reg_ = _registry()
    pairs = _pairs()
    missing = sorted(f'{fn}:{p}' for fn, p in pairs if fn not in reg_)
    findings = []
    if missing:
        findings.append(dict(kind='model', key='registry:unregistered-out-parameter', detail=dict(missing=missing)))
    # round 4: the registry against what the translator reads in the CURRENT source (`Generated.outSites`): every site is
    # registered, and the documented result dtype the sweep asserts on every call (`res`) is the dtype argument of the
    # function's own `_get_output` call (None -> the input's dtype; `dtype` -> the keyword's default, float64)
    try:
        from translator import tables
        sites = tables.extract_out_sites(core.REPO)
    except Exception as ex:  # noqa
        sites = []
        findings.append(dict(kind='model', key='registry:out-sites-not-extracted', detail=dict(exc=repr(ex)[:200])))
    DT = {'None': 'same', 'np.bool_': 'bool', 'bool': 'bool', 'np.int32': 'int32', 'np.float64': 'float64', 'dtype': 'float64'}
    unreg, wrong, table = [], [], {}
    for name, _params, found, _hand in sites:
        path = 'mahotas.' + name
        if path not in reg_:
            unreg.append(path)
            continue
        for x in found:
            if x.startswith('get_output('):
                dt = x[len('get_output('):-1].split(',')[2]
                table[path] = DT.get(dt, dt)
                if reg_[path]['res'] is not None and DT.get(dt) != reg_[path]['res']:
                    wrong.append((path, dt, reg_[path]['res']))
    if unreg:
        findings.append(dict(kind='model', key='registry:out-site-not-registered', detail=dict(missing=unreg)))
    if wrong:
        findings.append(dict(kind='model', key='registry:documented-dtype-table', detail=dict(mismatch=wrong)))
    return dict(findings=findings, nontrivial=True, sig='cover',
                tags=dict(stream='cover', pairs=len(pairs), registered=len(reg_), sites=len(sites), dtype_table=len(table)))


def evaluate(cases):
    out = [None] * len(cases)
    for stream, fn in (('out', _isolated), ('getout', _eval_getout)):
        sel = [(i, c) for i, c in enumerate(cases) if c.get('stream') == stream]
        if sel:
            for (i, _), r in zip(sel, fn([c for _, c in sel])):
                out[i] = r
    for i, c in enumerate(cases):
        if c.get('stream') == 'cover':
            out[i] = _eval_cover(c)
    return out


def _corpus():
    d = core.VERIF / 'corpus' / ID
    return [json.loads(p.read_text())['case'] for p in sorted(d.glob('*.json'))] if d.exists() else []


def _rand_getout(rng):
    nd = rng.choice([1, 2, 2, 3])
    ashape = [rng.choice([1, 2, 3, 4]) for _ in range(nd)]
    dts = ['bool', 'uint8', 'int32', 'intc', 'int64', 'longlong', 'float32', 'float64']
    adt = rng.choice(dts)
    dt = rng.choice([None, None, 'bool', 'int32', 'float64'])
    if rng.random() < 0.1:
        return dict(stream='getout', ashape=ashape, adt=adt, dt=dt, out=None)
    want = dt or adt
    odt = want if rng.random() < 0.7 else rng.choice(dts)
    r = rng.random()
    oshape = list(ashape)
    if r < 0.25:
        ax = rng.randrange(nd)
        oshape[ax] += rng.choice([1, 2])
    elif r < 0.35:
        oshape = oshape[::-1]
    elif r < 0.4:
        oshape = oshape + [1]
    return dict(stream='getout', ashape=ashape, adt=adt, dt=dt, out=dict(shape=oshape, dt=odt, layout=rng.choice(['C', 'C', 'F', 'strided'])))


def cases(rng, tier):
    reg_ = _registry()
    out = list(_corpus()) if tier != 'search' else []
    out.append(dict(stream='cover'))
    for _ in range(dict(quick=800, thorough=20000, search=4000)[tier]):
        out.append(_rand_getout(rng))
    nin = dict(quick=1, thorough=40, search=3)[tier]
    import mahotas  # noqa
    pairs = [(fn, p) for fn, p in _pairs() if fn in reg_]
    for fn, param in pairs:
        e = reg_[fn]
        for nd in e['dims']:
            for _ in range(nin):
                seed = rng.randrange(1 << 30)
                for variant in VARIANTS:
                    if param == 'output' and variant not in ('valid', 'wrong_dtype', 'wrong_shape', 'strided') and 'out' in inspect.signature(_resolve(fn)).parameters:
                        continue     # deprecated alias: the decisive variants only
                    out.append(dict(stream='out', fn=fn, param=param, variant=variant, nd=nd, seed=seed, size=rng.choice([4, 5, 6])))
    return out


def shrink(case):
    if case.get('stream') == 'out':
        for size in range(3, case.get('size', 5)):
            yield dict(case, size=size)
        for seed in (0, 1, 2):
            if seed < case['seed']:
                yield dict(case, seed=seed)
    elif case.get('stream') == 'getout':
        if len(case['ashape']) > 1 and case.get('out') and len(case['out']['shape']) == len(case['ashape']):
            yield dict(case, ashape=case['ashape'][1:], out=dict(case['out'], shape=case['out']['shape'][1:]))
