"""C10 — native kernels are memory-safe on every input in the documented domain.

Level `other`: the LOGIC part (index arithmetic of the kernels) is modelled in Lean (Model/C10.lean) and its bounds
lemmas are proved (Properties/C10.lean); the RUNTIME part is validated here:
  * sweep   every native entry point reachable from the public API x random VALID inputs, executed under
            AddressSanitizer in isolated workers; each call is executed twice with the freed heap filled with 0x00 and
            then 0xFF, so a result formed from memory the kernel did not initialise shows as two different digests;
  * filter  the closed form of the filter iterator's neighbour addresses (the model the bounds theorem B1 is about) is
            compared with the addresses the real iterator reads, recovered by probing `mean_filter` with one-hot
            footprints on an arange image (1-3 D, six modes, filters smaller/equal/larger than the array);
  * model   the executable bounds checkers of the other index models are run on random parameters of the domain.
"""
from __future__ import annotations
import inspect, json
import numpy as np
from .. import core, iso, catalog, specs

ID = 'C10'
LEVEL = 'other'
RULE = ('corpus; sweep = every public function with native code behind it x valid calls from harness/catalog.py (1-4 D, 9 integer + 2 float '
        'dtypes, 7 layouts, axis lengths 1..40, structuring elements/kernels/templates smaller than, equal to and larger than the image), each '
        'under ASan and twice with differently filled freed heap; filter = one-hot probing of the filter iterator against the Lean closed form; '
        'model = executable bounds checkers on random parameters. Non-trivial = the call reached native code and returned a value; '
        'distinct = distinct (function, argument specs).')
ASSUMPTIONS = ['documented domain: at least one element per axis, supported dtypes (bool, 8 integer types, float32/64), neighbourhoods of the '
               'rank of the image, labels non-negative, scalar parameters in range, finite values',
               'AddressSanitizer sees heap/stack/global buffers of the instrumented extension modules; numpy and CPython are not instrumented',
               'uninitialised results are detected only when they differ between two heap fillings (0x00 / 0xFF) — evidence, not proof',
               'array sizes < 2^31']
TRUSTED = ['clang 14 AddressSanitizer runtime', 'numpy (array construction, layouts)', 'harness/iso.py worker isolation']
EXHAUSTIVE = {}
EXPLANATION = ('proved in Lean: bounds lemmas about the index-arithmetic models (Properties/C10.lean); validated only: that the compiled '
               'kernels perform exactly those accesses (ASan sweep + one-hot probing of the filter iterator)')

SRC = {}
NONC = ('F', 'negstride', 'transposed')
TIMEOUT = 60.0


def setup(src):
    SRC['plain'] = src
    SRC['asan'] = core.stage_build(asan=True)


def _short(fn):
    return fn.split('.')[-1]


def _arg0(spec):
    for a in spec.get('args', []):
        if 'a' in a:
            return a['a']
    return {}


def _elem_empty(spec):
    try:
        a = spec['args'][1]
        return 'a' in a and not specs.build(a).any()
    except Exception:
        return False


def classify(spec, out, uninit=False):
    """stable key naming call site + input class"""
    short = _short(spec['fn'])
    lay = _arg0(spec).get('layout') or 'C'
    if uninit:
        if short == 'cwatershed':
            return 'cwatershed:uninit-output'
        if short in ('locmax', 'locmin', 'regmax', 'regmin') and lay in NONC:
            return 'locminmax:layout'
        if _elem_empty(spec):
            # kernels that return early on an empty neighbourhood without writing their output (rank_filter, dilate)
            return 'empty-footprint:uninit-output'
        return f'{short}:uninit-result'
    if out['st'] == 'asan':
        frames = out.get('frames') or ['?']
        if any(f.startswith('locmin_max@') for f in frames) and lay in NONC:
            return 'locminmax:layout'
        return f"{short}:{out.get('kind')}:{frames[0].split('@')[0] if frames[0] != '?' else '?'}"
    if out['st'] == 'signal':
        return f"{short}:{out.get('signal')}"
    return f"{short}:{out['st']}"


def _run(spec):
    w = iso.get_worker(SRC['asan'], True)
    out = w.call(dict(spec, twice=True), TIMEOUT)
    if out['st'] == 'asan' and out.get('kind') in ('allocator', 'allocation-size-too-big', 'out-of-memory', 'calloc-overflow'):
        # ASan's allocator aborts where operator new would throw bad_alloc: decide on the plain build (address space capped)
        out2 = iso.get_worker(SRC['plain'], False).call(dict(spec, twice=True), TIMEOUT)
        out2['asan_allocator_report'] = True
        return out2
    return out


def _eval_sweep(case):
    spec = case['call']
    out = _run(spec)
    f = []
    st = out['st']
    if st in ('asan', 'signal', 'corrupt', 'garbled'):
        detail = {k: out.get(k) for k in ('st', 'kind', 'access', 'frames', 'signal', 'rc', 'why') if out.get(k) is not None}
        detail['report'] = (out.get('report') or out.get('stderr') or '')[:1200]
        f.append(dict(kind='property', key=classify(spec, out), detail=detail))
    elif st == 'timeout':
        f.append(dict(kind='model', key=f'timeout:{_short(spec["fn"])}', detail=dict(wall=out.get('wall'))))
    elif st == 'ok' and out.get('digest2') != out.get('digest'):
        f.append(dict(kind='property', key=classify(spec, out, uninit=True),
                      detail=dict(what='two executions of the same call on the same input returned different results after the freed heap was '
                                       'filled with 0x00 / 0xFF: the result is formed from memory the call did not initialise (or read out of bounds)',
                                  digest=out.get('digest'), digest2=out.get('digest2'), summary=out.get('summary'))))
    a0 = _arg0(spec)
    tags = dict(kind='sweep', fn=_short(spec['fn']), outcome=st if st != 'exc' else 'exc:' + out.get('type', '?'),
                ndim=len(a0.get('shape', [])), dtype=a0.get('dtype', '-'), layout=a0.get('layout') or 'C')
    return dict(findings=f, nontrivial=(st == 'ok'), sig=json.dumps(spec, sort_keys=True), tags=tags)


# ---- filter iterator: closed form (Lean) vs the real iterator, by one-hot probing ------------------------------

def _eval_filter(case):
    import mahotas as mh
    shape, fshape, mode = case['shape'], case['fshape'], case['mode']
    line = f"c10 kind=filter shape={','.join(map(str, shape))} fshape={','.join(map(str, fshape))} mode={catalog.MODES.index(mode)}"
    drv = core.drive([line])[0]
    if 'error' in drv or 'idx' not in drv:
        return dict(findings=[dict(kind='model', key='driver:filter', detail=dict(line=line, answer=drv))], nontrivial=False, sig=line,
                    tags=dict(kind='filter', outcome='driver-error'))
    model = core.ints(drv['idx'])
    N = int(np.prod(shape))
    F = int(np.prod(fshape))
    f = (np.arange(N, dtype=np.float64) + 1).reshape(shape)
    if case.get('layout', 'C') != 'C':
        f = specs.relayout(f, case['layout'])
    real = np.empty((N, F), np.int64)
    for j in range(F):
        Bc = np.zeros(F, bool)
        Bc[j] = True
        out = mh.mean_filter(f, Bc.reshape(fshape), mode=mode, cval=0.0)
        o = out.ravel()
        flag = np.isnan(o) | (o == 0.0)
        real[:, j] = np.where(flag, -1, np.nan_to_num(o) - 1).astype(np.int64)
    real = real.ravel().tolist()
    fnd = []
    if drv.get('ok') != '1':
        fnd.append(dict(kind='model', key='filter:model-out-of-range', detail=dict(line=line)))
    bad = [i for i, (a, b) in enumerate(zip(real, model)) if a != b]
    if len(model) != len(real) or bad:
        oob = [real[i] for i in bad if not (-1 <= real[i] < N)]
        fnd.append(dict(kind='property' if oob else 'model', key='filter-iterator:address' + (':out-of-range' if oob else ''),
                        detail=dict(line=line, first=[(i // F, i % F, real[i], model[i]) for i in bad[:6]], n=len(bad))))
    rel = 'larger' if any(b > s for b, s in zip(fshape, shape)) else 'equal' if list(fshape) == list(shape) else 'smaller'
    return dict(findings=fnd, nontrivial=True, sig=line + case.get('layout', 'C'), n=N * F,
                tags=dict(kind='filter', mode=mode, ndim=len(shape), filter=rel, layout=case.get('layout', 'C')))


def _eval_model(case):
    line = case['line']
    drv = core.drive([line])[0]
    fnd = []
    want = str(case.get('expect', 1))
    if 'error' in drv or drv.get('ok') != want:
        fnd.append(dict(kind='model', key='bounds-model:' + line.split()[1], detail=dict(line=line, answer=drv, expected_ok=want)))
    return dict(findings=fnd, nontrivial=True, sig=line, tags=dict(kind='model', which=line.split()[1].split('=')[1], expect=want))


def evaluate(cases):
    out = []
    for c in cases:
        k = c.get('kind', 'sweep')
        out.append(_eval_filter(c) if k == 'filter' else _eval_model(c) if k == 'model' else _eval_sweep(c))
    return out


# ---------------------------------------------------------------------------------------------------------------

def _corpus():
    d = core.VERIF / 'corpus' / ID
    return [json.loads(p.read_text())['case'] for p in sorted(d.glob('*.json'))] if d.exists() else []


def _filter_cases(rng, n):
    out = []
    for _ in range(n):
        nd = rng.choice([1, 1, 2, 2, 3])
        cap = {1: 12, 2: 6, 3: 4}[nd]
        shape = [rng.randint(1, cap) for _ in range(nd)]
        fshape = []
        for s in shape:
            u = rng.random()
            fshape.append(rng.choice([1, 2, 3]) if u < 0.4 else s if u < 0.55 else s + rng.choice([1, 2, 5]) if u < 0.75 else
                          rng.choice([4 * s, 4 * s + 1, 8 * s, 8 * s + 1]) if u < 0.85 and nd == 1 else rng.randint(1, cap + 2))
        while int(np.prod(fshape)) > 300:
            fshape[rng.randrange(nd)] = 1
        out.append(dict(kind='filter', shape=shape, fshape=fshape, mode=rng.choice(catalog.MODES),
                        layout=rng.choice(['C', 'C', 'F', 'strided', 'negstride', 'offset', 'transposed', 'readonly'])))
    return out


def _model_cases(rng, n):
    """random parameters of the documented domain for the executable bounds checkers of Model/C10.lean (expected ok=1),
    plus parameters outside it whose checker must answer ok=0 (non-vacuity)"""
    out = []
    R = rng.randint
    for _ in range(n):
        k = rng.choice(['fastbin', 'conv1d', 'find2d', 'majority', 'hitmiss', 'dt', 'bbox', 'foldl', 'com', 'cooc'])
        expect = 1
        if k == 'fastbin':
            line = f'c10 kind=fastbin ny={R(1, 9)} nx={R(1, 9)} dy={R(-12, 12)} dx={R(-12, 12)} erosion={R(0, 1)}'
        elif k == 'conv1d':
            n1 = R(2, 12)
            nf = R(1, n1 - 1)                 # the Python wrapper's guard: len(weights) < f.shape[axis]
            line = f'c10 kind=conv1d n1={n1} nf={nf} mode={R(0, 5)}'
        elif k == 'find2d':
            n0, n1 = R(1, 8), R(1, 8)
            line = f'c10 kind=find2d n0={n0} n1={n1} t0={R(1, n0)} t1={R(1, n1)}'
        elif k == 'majority':
            line = f'c10 kind=majority rows={R(1, 9)} cols={R(1, 9)} n={R(1, 7)}'
        elif k == 'hitmiss':
            nd = R(1, 3)
            line = f"c10 kind=hitmiss shape={','.join(str(R(1, 6)) for _ in range(nd))} bshape={','.join(str(R(1, 5)) for _ in range(nd))}"
        elif k == 'dt':
            nn = R(1, 12)
            pop = ','.join(str(R(0, 1)) for _ in range(R(0, 2 * nn)))
            adv = ','.join(str(R(0, 1)) for _ in range(R(0, 2 * nn)))
            line = f'c10 kind=dt n={nn} pop={pop or "-"} adv={adv or "-"}'
        elif k == 'bbox':
            mx = R(0, 6)
            if rng.random() < 0.25:           # outside the domain: negative label / label above the maximum must be flagged
                line = f'c10 kind=bbox ndim={R(1, 4)} maxlabel={mx} label={rng.choice([-1, -3, mx + 1])}'
                expect = 0
            else:
                line = f'c10 kind=bbox ndim={R(1, 4)} maxlabel={mx} label={R(0, mx)}'
        elif k == 'foldl':
            line = f'c10 kind=foldl maxi={R(1, 9)} label={R(-5, 15)}'
        elif k == 'com':
            mx, size = R(0, 5), R(1, 30)
            if rng.random() < 0.25:           # labels smaller than the image: the defect repaired by the shape guard
                line = f'c10 kind=com ndim={R(1, 3)} maxlabel={mx} label={R(0, mx)} size={size + R(1, 5)} lsize={size}'
                expect = 0
            else:
                line = f'c10 kind=com ndim={R(1, 3)} maxlabel={mx} label={R(0, mx)} size={size} lsize={size}'
        else:
            m = R(1, 8)
            v, v2 = R(0, m - 1), R(0, m - 1)
            line = f'c10 kind=cooc m0={m} m1={m} v={v} v2={v2}'
        out.append(dict(kind='model', line=line, expect=expect))
    return out


def cases(rng, tier):
    out = list(_corpus()) if tier != 'search' else []
    nsweep = dict(quick=5000, thorough=60000, search=8000)[tier]
    nfilter = dict(quick=250, thorough=4000, search=600)[tier]
    nmodel = dict(quick=400, thorough=4000, search=0)[tier]
    out += _filter_cases(rng, nfilter)
    if MODEL_KINDS_READY:
        out += _model_cases(rng, nmodel)
    # directed: the early exits of the binary fast path (C-contiguous 2-D bool image; empty / centre-only element) and
    # of the generic kernels (same elements, other dtypes): the output must be written before returning
    for fn in ('mahotas.erode', 'mahotas.dilate', 'mahotas.open', 'mahotas.close'):
        if fn not in catalog.ENTRIES:
            continue
        for fill in ('zeros', 'centre'):
            for dt, shape in (('bool', [rng.randint(2, 9), rng.randint(2, 9)]), (rng.choice(['uint8', 'int16', 'bool']), [rng.randint(1, 6) for _ in range(rng.choice([1, 2, 3]))])):
                bs = [rng.choice([1, 3, 3, 2]) for _ in shape]
                out.append(dict(kind='sweep', call=dict(fn=fn, kw={}, args=[
                    catalog.A(dtype=dt, shape=shape, fill='bool' if dt == 'bool' else 'rand', seed=rng.randrange(1 << 30), layout='C'),
                    catalog.A(dtype=dt, shape=bs, fill=fill, seed=0, layout='C')])))
    fns = sorted(f for f in catalog.ENTRIES if f not in catalog.PURE_PYTHON)
    for i in range(nsweep):
        fn = fns[i % len(fns)] if i < 4 * len(fns) else rng.choice(fns)      # every entry point at least four times
        out.append(dict(kind='sweep', call=catalog.valid_call(rng, fn)))
    return out


MODEL_KINDS_READY = True


def shrink(case):
    if case.get('kind', 'sweep') != 'sweep':
        if case.get('kind') == 'filter':
            for i, s in enumerate(case['shape']):
                if s > 1:
                    yield dict(case, shape=case['shape'][:i] + [s - 1] + case['shape'][i + 1:])
            for i, s in enumerate(case['fshape']):
                if s > 1:
                    yield dict(case, fshape=case['fshape'][:i] + [s - 1] + case['fshape'][i + 1:])
            if case.get('layout', 'C') != 'C':
                yield dict(case, layout='C')
        return
    spec = case['call']

    def with_arg(path, new):
        s = json.loads(json.dumps(spec))
        if path[0] == 'p':
            s['args'][path[1]] = new
        else:
            s['kw'][path[1]] = new
        return dict(case, call=s)

    slots = [(('p', i), a) for i, a in enumerate(spec['args'])] + [(('k', k), a) for k, a in spec['kw'].items()]
    shapes = [tuple(a['a']['shape']) for _, a in slots if 'a' in a]
    # shorten an axis jointly in all arrays that share the shape of the first array (paired arguments stay paired)
    if shapes:
        ref = shapes[0]
        for ax in range(len(ref)):
            for new in sorted({ref[ax] // 2, ref[ax] - 1}):
                if 1 <= new < ref[ax]:
                    s = json.loads(json.dumps(spec))
                    for a in list(s['args']) + list(s['kw'].values()):
                        if 'a' in a and tuple(a['a']['shape']) == ref:
                            a['a']['shape'][ax] = new
                    yield dict(case, call=s)
    for path, a in slots:
        if 'a' in a:
            d = a['a']
            if (d.get('layout') or 'C') != 'C':
                yield with_arg(path, {'a': dict(d, layout='C')})
            if tuple(d['shape']) != (shapes[0] if shapes else None):
                for ax, n in enumerate(d['shape']):
                    if n > 1:
                        yield with_arg(path, {'a': dict(d, shape=d['shape'][:ax] + [n - 1] + d['shape'][ax + 1:])})
            if d.get('fill') not in ('zeros', 'ones', 'bool'):
                yield with_arg(path, {'a': dict(d, fill='ones')})
    for k in list(spec['kw']):
        s = json.loads(json.dumps(spec))
        del s['kw'][k]
        yield dict(case, call=s)


def coverage_extra():
    return dict(entry_points_swept=len([f for f in catalog.ENTRIES if f not in catalog.PURE_PYTHON]),
                proved_vs_validated=EXPLANATION)
