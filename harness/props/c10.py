"""C10 — native kernels are memory-safe on every input in the documented domain.

Level `other`: the LOGIC part (index arithmetic of the kernels) is modelled in Lean (Model/C10.lean) and its bounds
lemmas are proved (Properties/C10.lean); the RUNTIME part is validated here:
  * sweep   every native entry point reachable from the public API x random VALID inputs, executed under
            AddressSanitizer in isolated workers; each call is executed twice with the freed heap filled with 0x00 and
            then 0xFF, so a result formed from memory the kernel did not initialise shows as two different digests;
  * filter  the closed form of the filter iterator's neighbour addresses (the model the bounds theorem B1 is about) is
            compared with the addresses the real iterator reads, recovered by probing `mean_filter` with one-hot
            footprints on an arange image (1-3 D, six modes, filters smaller/equal/larger than the array);
  * model   the executable bounds checkers of the other index models are run on random parameters of the domain.
  * model2  (round 2) the index models of zoom_shift, spline_filter1d, haar/wavelet/iwavelet/ihaar, integral, the Graham
            scan, thin and the cwatershed neighbour test are compared (verdict, number and sum of indices, termination)
            with a DIRECT Python evaluation of the same C++ index expressions on random parameters;
  * zoomshift  the elements the REAL zoom_shift reads at every output position (support of the outputs for one-hot
            inputs, prefilter off; orders 0 and 5 by a valid direct call of the entry point) against the model's index list.
  * round 3 (harness/props/c10_misc.py): histogram, lbp map, bbox, relabel / remove_regions, distance_multi — `model2` cases
            against a direct Python evaluation, `miscreal` cases against the results of the real binary.
"""
from __future__ import annotations
import inspect, json
import numpy as np
from .. import core, iso, catalog, specs
from . import c10_misc
from . import c10_surf
from . import c10_labeled, c10_flood, c10_feat, c10_conv, c10_alloc
ROUND4 = (c10_labeled, c10_flood, c10_feat, c10_conv, c10_alloc)       # round 4: one module per new model file

ID = 'C10'
FOUNDATIONS = ['harness.foundation.cscalar']   # ties of the C++ helper functions the model rests on (generated from their text)
LEVEL = 'other'
RULE = ('corpus; sweep = every public function with native code behind it x valid calls from harness/catalog.py (1-4 D, 9 integer + 2 float '
        'dtypes, 7 layouts, axis lengths 1..40, structuring elements/kernels/templates smaller than, equal to and larger than the image), each '
        'under ASan and twice with differently filled freed heap; filter = one-hot probing of the filter iterator against the Lean closed form; '
        'model = executable bounds checkers on random parameters; model2 = round-2 index models against a direct Python evaluation of the C++ index '
        'expressions; zoomshift = elements read by the real zoom_shift (one-hot probing) against the model; miscreal = results of the round-3 models against the real binary. Non-trivial = the call reached native code and returned a value; '
        'distinct = distinct (function, argument specs).')
ASSUMPTIONS = ['documented domain: at least one element per axis, supported dtypes (bool, 8 integer types, float32/64), neighbourhoods of the '
               'rank of the image, labels non-negative, scalar parameters in range, finite values',
               'AddressSanitizer sees heap/stack/global buffers of the instrumented extension modules; numpy and CPython are not instrumented',
               'uninitialised results are detected only when they differ between two heap fillings (0x00 / 0xFF) — evidence, not proof',
               'array sizes < 2^31']
TRUSTED = ['clang 14 AddressSanitizer runtime', 'numpy (array construction, layouts)', 'harness/iso.py worker isolation']
EXHAUSTIVE = {}
EXPLANATION = ('proved in Lean: bounds lemmas about the index-arithmetic models (Properties/C10.lean); validated only: that the compiled '
               'kernels perform exactly those accesses (ASan sweep + one-hot probing of the filter iterator and of zoom_shift)')

SRC = {}
NONC = ('F', 'negstride', 'transposed')
TIMEOUT = 60.0


def setup(src):
    SRC['plain'] = src
    SRC['asan'] = core.stage_build(asan=True)


def _short(fn):
    return fn.split('.')[-1]


def _arg0(spec):
    for a in spec.get('args', []):
        if 'a' in a:
            return a['a']
    return {}


def _elem_empty(spec):
    try:
        a = spec['args'][1]
        return 'a' in a and not specs.build(a).any()
    except Exception:
        return False


def classify(spec, out, uninit=False):
    """stable key naming call site + input class"""
    short = _short(spec['fn'])
    lay = _arg0(spec).get('layout') or 'C'
    if uninit:
        if short == 'cwatershed':
            return 'cwatershed:uninit-output'
        if short in ('locmax', 'locmin', 'regmax', 'regmin') and lay in NONC:
            return 'locminmax:layout'
        if _elem_empty(spec):
            # kernels that return early on an empty neighbourhood without writing their output (rank_filter, dilate)
            return 'empty-footprint:uninit-output'
        return f'{short}:uninit-result'
    if out['st'] == 'asan':
        frames = out.get('frames') or ['?']
        if any(f.startswith('locmin_max@') for f in frames) and lay in NONC:
            return 'locminmax:layout'
        return f"{short}:{out.get('kind')}:{frames[0].split('@')[0] if frames[0] != '?' else '?'}"
    if out['st'] == 'signal':
        return f"{short}:{out.get('signal')}"
    return f"{short}:{out['st']}"


def _run(spec):
    w = iso.get_worker(SRC['asan'], True)
    out = w.call(dict(spec, twice=True), TIMEOUT)
    if out['st'] == 'asan' and out.get('kind') in ('allocator', 'allocation-size-too-big', 'out-of-memory', 'calloc-overflow'):
        # ASan's allocator aborts where operator new would throw bad_alloc: decide on the plain build (address space capped)
        out2 = iso.get_worker(SRC['plain'], False).call(dict(spec, twice=True), TIMEOUT)
        out2['asan_allocator_report'] = True
        return out2
    if out['st'] == 'ok' and out.get('digest2') == out.get('digest'):
        # AddressSanitizer's allocator fills fresh blocks with a constant, so a C++ temporary that is read before it is
        # written gives the same answer twice there: repeat the pair of executions on the plain build, where glibc
        # fills every block handed out with a byte that differs between the two (M_PERTURB)
        out2 = iso.get_worker(SRC['plain'], False).call(dict(spec, twice=True), TIMEOUT)
        if out2['st'] == 'ok' and out2.get('digest2') != out2.get('digest'):
            out2['plain_build'] = True
            return out2
        if out2['st'] in ('signal', 'corrupt'):
            out2['plain_build'] = True
            return out2
    return out


def _eval_sweep(case):
    spec = case['call']
    out = _run(spec)
    f = []
    st = out['st']
    if st in ('asan', 'signal', 'corrupt', 'garbled'):
        detail = {k: out.get(k) for k in ('st', 'kind', 'access', 'frames', 'signal', 'rc', 'why') if out.get(k) is not None}
        detail['report'] = (out.get('report') or out.get('stderr') or '')[:1200]
        f.append(dict(kind='property', key=classify(spec, out), detail=detail))
    elif st == 'timeout':
        f.append(dict(kind='model', key=f'timeout:{_short(spec["fn"])}', detail=dict(wall=out.get('wall'))))
    elif st == 'ok' and out.get('digest2') != out.get('digest'):
        f.append(dict(kind='property', key=classify(spec, out, uninit=True),
                      detail=dict(what='two executions of the same call on the same input returned different results after the freed heap was '
                                       'filled with 0x00 / 0xFF: the result is formed from memory the call did not initialise (or read out of bounds)',
                                  digest=out.get('digest'), digest2=out.get('digest2'), summary=out.get('summary'))))
    a0 = _arg0(spec)
    tags = dict(kind='sweep', fn=_short(spec['fn']), outcome=st if st != 'exc' else 'exc:' + out.get('type', '?'),
                ndim=len(a0.get('shape', [])), dtype=a0.get('dtype', '-'), layout=a0.get('layout') or 'C')
    return dict(findings=f, nontrivial=(st == 'ok'), sig=json.dumps(spec, sort_keys=True), tags=tags)


# ---- filter iterator: closed form (Lean) vs the real iterator, by one-hot probing ------------------------------

def _eval_filter(case):
    import mahotas as mh
    shape, fshape, mode = case['shape'], case['fshape'], case['mode']
    line = f"c10 kind=filter shape={','.join(map(str, shape))} fshape={','.join(map(str, fshape))} mode={catalog.MODES.index(mode)}"
    drv = core.drive([line])[0]
    if 'error' in drv or 'idx' not in drv:
        return dict(findings=[dict(kind='model', key='driver:filter', detail=dict(line=line, answer=drv))], nontrivial=False, sig=line,
                    tags=dict(kind='filter', outcome='driver-error'))
    model = core.ints(drv['idx'])
    N = int(np.prod(shape))
    F = int(np.prod(fshape))
    f = (np.arange(N, dtype=np.float64) + 1).reshape(shape)
    if case.get('layout', 'C') != 'C':
        f = specs.relayout(f, case['layout'])
    real = np.empty((N, F), np.int64)
    for j in range(F):
        Bc = np.zeros(F, bool)
        Bc[j] = True
        out = mh.mean_filter(f, Bc.reshape(fshape), mode=mode, cval=0.0)
        o = out.ravel()
        flag = np.isnan(o) | (o == 0.0)
        real[:, j] = np.where(flag, -1, np.nan_to_num(o) - 1).astype(np.int64)
    real = real.ravel().tolist()
    fnd = []
    if drv.get('ok') != '1':
        fnd.append(dict(kind='model', key='filter:model-out-of-range', detail=dict(line=line)))
    bad = [i for i, (a, b) in enumerate(zip(real, model)) if a != b]
    if len(model) != len(real) or bad:
        oob = [real[i] for i in bad if not (-1 <= real[i] < N)]
        fnd.append(dict(kind='property' if oob else 'model', key='filter-iterator:address' + (':out-of-range' if oob else ''),
                        detail=dict(line=line, first=[(i // F, i % F, real[i], model[i]) for i in bad[:6]], n=len(bad))))
    rel = 'larger' if any(b > s for b, s in zip(fshape, shape)) else 'equal' if list(fshape) == list(shape) else 'smaller'
    return dict(findings=fnd, nontrivial=True, sig=line + case.get('layout', 'C'), n=N * F,
                tags=dict(kind='filter', mode=mode, ndim=len(shape), filter=rel, layout=case.get('layout', 'C')))


def _eval_model(case):
    line = case['line']
    drv = core.drive([line])[0]
    fnd = []
    want = str(case.get('expect', 1))
    if 'error' in drv or drv.get('ok') != want:
        fnd.append(dict(kind='model', key='bounds-model:' + line.split()[1], detail=dict(line=line, answer=drv, expected_ok=want)))
    return dict(findings=fnd, nontrivial=True, sig=line, tags=dict(kind='model', which=line.split()[1].split('=')[1], expect=want))



# ---- round 2: the index models of B8/B5/B4, evaluated DIRECTLY in Python from the C++ index expressions ---------
# Each function below re-evaluates the loops of the named kernel (same enumeration order as Model/C10.lean) and returns
# (list of (index, size), term). The driver's ok/n/sum/term must agree, and parameters of the domain must give ok=1.

def _iter_ne(x, stop, fuel):
    out = []
    while fuel > 0 and x != stop:
        out.append(x)
        x += 1
        fuel -= 1
    return out, x == stop


def _cdiv(a, b):
    """C integer division (towards zero)"""
    q = abs(a) // abs(b)
    return q if (a >= 0) == (b >= 0) else -q


def _py_fix_offset(mode, cc, ln):
    """port of fix_offset (_filters.h); mode by code 0 nearest 1 wrap 2 reflect 3 mirror 4 constant 5 ignore; None = flag"""
    if mode == 3:
        if cc < 0:
            if ln <= 1:
                return 0
            sz2 = 2 * ln - 2
            cc = sz2 * _cdiv(-cc, sz2) + cc
            return cc + sz2 if cc <= 1 - ln else -cc
        if cc >= ln:
            if ln <= 1:
                return 0
            sz2 = 2 * ln - 2
            cc -= sz2 * _cdiv(cc, sz2)
            if cc >= ln:
                cc = sz2 - cc
        return cc
    if mode == 2:
        if cc < 0:
            if ln <= 1:
                return 0
            sz2 = 2 * ln
            if cc < -sz2:
                cc = sz2 * _cdiv(-cc, sz2) + cc
            if cc == 0:
                return 0
            return cc + sz2 if cc < -ln else -cc - 1
        if cc >= ln:
            if ln <= 1:
                return 0
            sz2 = 2 * ln
            cc -= sz2 * _cdiv(cc, sz2)
            if cc >= ln:
                cc = sz2 - cc - 1
        return cc
    if mode == 1:
        if cc < 0:
            if ln <= 1:
                return 0
            cc += ln * _cdiv(-cc, ln)
            if cc < 0:
                cc += ln
        elif cc >= ln:
            if ln <= 1:
                return 0
            cc -= ln * _cdiv(cc, ln)
        return cc
    if mode == 0:
        return 0 if cc < 0 else ln - 1 if cc >= ln else cc
    return None if (cc < 0 or cc >= ln) else cc


def _py_zoomshift(shape, order, mode, coord):
    """zoom_shift at one output position of a C-contiguous array: (flagged, [idxs[fi]])"""
    rank = len(shape)
    strides = [int(np.prod(shape[r + 1:])) for r in range(rank)]
    offsets, edge = [], []
    for r in range(rank):
        ln, c = shape[r], coord[r]
        cc = _py_fix_offset(mode, c, ln) if (c < 0 or c > ln - 1) else c
        if cc is None:
            return True, []
        start = cc - order // 2
        offsets.append(strides[r] * start)
        if start < 0 or start + order >= ln:
            e = []
            for hh in range(order + 1):
                idx = start + hh
                if ln <= 1:
                    idx = 0
                else:
                    s2 = 2 * ln - 2
                    if idx < 0:
                        idx = s2 * _cdiv(-idx, s2) + idx
                        idx = idx + s2 if idx <= 1 - ln else -idx
                    elif idx >= ln:
                        idx -= s2 * _cdiv(idx, s2)
                        if idx >= ln:
                            idx = s2 - idx
                e.append(strides[r] * (idx - start))
            edge.append(e)
        else:
            edge.append([])
    fsize = (order + 1) ** rank
    ftmp, off, fco, foff = [0] * rank, 0, [], []
    for hh in range(fsize):
        fco.append(list(ftmp))
        foff.append(off)
        for r in range(rank - 1, -1, -1):
            if ftmp[r] < order:
                ftmp[r] += 1
                off += strides[r]
                break
            ftmp[r] = 0
            off -= strides[r] * order
    oo = sum(offsets)
    on_edge = any(edge)
    out = []
    for fi in range(fsize):
        if on_edge:
            idx = oo
            for r in range(rank):
                idx += edge[r][fco[fi][r]] if edge[r] else fco[fi][r] * strides[r]
        else:
            idx = oo + foff[fi]
        out.append(idx)
    return False, out


def _py_spline(ln, mxs):
    if ln <= 1:
        return [], True
    a = [ll for ll in range(ln)]
    for mx in mxs:
        if mx < ln:
            a += [0] + [ll for ll in range(1, mx)]
        else:
            a += [0, ln - 1] + [ll for ll in range(1, ln - 1)]
        a += [0]
        for ll in range(1, ln):
            a += [ll, ll - 1]
        a += [ln - 1, ln - 1, ln - 2]
        for ll in range(ln - 2, -1, -1):
            a += [ll, ll + 1, ll]
    return [(i, ln) for i in a], True


def _py_haar(n1):
    h = n1 // 2
    xs, d1 = _iter_ne(0, h, n1 + 1)
    a = []
    for x in xs:
        a += [(2 * x, n1), (2 * x + 1, n1), (x, n1), (h + x, n1)]
    xs, d2 = _iter_ne(0, n1, n1 + 1)
    for x in xs:
        a += [(x, n1), (x, n1)]
    return a, d1 and d2


def _py_wavelet(n1, nc):
    h = n1 // 2
    a = []
    cis, d1 = _iter_ne(0, nc, nc + 1)
    for x in range(h):
        for ci in cis:
            p = 2 * x + ci
            if 0 <= p < n1:
                a.append((p, n1))
            a += [(nc - ci - 1, nc), (ci, nc)]
        a += [(x, n1), (h + x, n1)]
    xs, d2 = _iter_ne(0, n1, n1 + 1)
    for x in xs:
        a += [(x, n1), (x, n1)]
    return a, d1 and d2


def _py_iwavelet(n1, nc, step):
    h = n1 // 2
    ext = (n1 - 1) * step + 1
    hi = _cdiv(step * n1, 2)
    a = []
    cis, d1 = _iter_ne(0, nc, nc + 1)
    for x in range(n1):
        for ci in cis:
            xmap2 = x + ci - nc + 2
            if xmap2 & 1:
                xmap = _cdiv(xmap2, 2)
                a += [(ci, nc), (nc - ci - 1, nc)]
                if 0 <= xmap < h:
                    a += [(xmap * step, ext), (hi + xmap * step, ext)]
        a.append((x, n1))
    xs, d2 = _iter_ne(0, n1, n1 + 1)
    for x in xs:
        a += [(step * x, ext), (x, n1)]
    return a, d1 and d2


def _py_ihaar(n1, step):
    h = n1 // 2
    ext = (n1 - 1) * step + 1
    hi = _cdiv(step * n1, 2)
    a = []
    xs, d1 = _iter_ne(0, h, n1 + 1)
    for x in xs:
        a += [(hi + x * step, ext), (x * step, ext), (2 * x, n1), (2 * x + 1, n1)]
    xs, d2 = _iter_ne(0, n1, n1 + 1)
    for x in xs:
        a += [(step * x, ext), (x, n1)]
    return a, d1 and d2


def _py_integral(n0, n1):
    if n0 == 0 or n1 == 0:
        return [], True
    a = []
    js, d1 = _iter_ne(1, n1, n1 + 1)
    for j in js:
        a += [(0, n0), (j, n1), (0, n0), (j - 1, n1)]
    is_, d0 = _iter_ne(1, n0, n0 + 1)
    for i in is_:
        a += [(i, n0), (0, n1), (i - 1, n0), (0, n1)]
        for j in js:
            a += [(i, n0), (j, n1), (i - 1, n0), (j, n1), (i, n0), (j - 1, n1), (i - 1, n0), (j - 1, n1)]
    return a, d1 and d0


def _py_graham(n, pop1, pop2):
    def oracle(pop):
        return (lambda i, h: pop[(i + h) % len(pop)] != 0) if pop else (lambda i, h: False)

    def scan(cmp, base, cnt):
        a = []
        h = 1
        for i in range(1, cnt):
            while h >= 2:
                a += [(base + h - 2, n), (base + h - 1, n), (base + i, n)]
                if not cmp(i, h):
                    break
                h -= 1
            a += [(base + h, n), (base + i, n)]
            h += 1
        return a, h

    if n <= 3:
        return [(i, n) for i in range(n)], True, n
    a, h = scan(oracle(pop1), 0, n)
    xs, done = _iter_ne(0, h - 1, n + 1)
    for i in xs:
        a += [(i, n), (i + 1, n)]
    a2, h2 = scan(oracle(pop2), h - 2, n - h + 2)
    res = h + h2 - 2
    return a + a2 + [(i, n) for i in range(res)], done, res


_THIN_TABLES = {}


class _Unrecognised(Exception):
    """a source construct this harness reads itself no longer has the expected form: a broken tie, not an infrastructure error"""


def _thin_tables():
    """the delta tables and fill_data calls of _thin.cpp, parsed from the staged source"""
    if not _THIN_TABLES:
        import re
        src = (core.REPO / 'mahotas' / '_thin.cpp').read_text()
        tabs = {m.group(1): [int(v) for v in m.group(2).replace('+', '').split(',')]
                for m in re.finditer(r'const npy_intp (\w+)\[\] = \{([^}]*)\};', src)}
        calls = re.findall(r'fill_data\(array, elems\[\d\],\s*(?:true|false), (\w+), (\w+)\);', src)
        if len(calls) != 8 or not all(a in tabs and b in tabs for a, b in calls):
            raise _Unrecognised('_thin.cpp: delta tables / fill_data calls not recognised')
        _THIN_TABLES['elems'] = [(tabs[a], tabs[b]) for a, b in calls]
    return _THIN_TABLES['elems']


def _py_thin(rows, cols, img):
    n = rows * cols
    offs = [d0 * cols + d1 for t0, t1 in _thin_tables() for d0, d1 in zip(t0, t1)]
    a = []
    for i, b in enumerate(img):
        a.append((i, n))
        if b:
            a += [(i + d, n) for d in offs]
    frame = all(not (b and (i // cols in (0, rows - 1) or i % cols in (0, cols - 1))) for i, b in enumerate(img))
    return a, True, frame


def _py_cwnb(shape, bshape):
    """every neighbour position inside the image, as flat index pos + pos_to_flat(offset)"""
    n = int(np.prod(shape))
    strides = [int(np.prod(shape[r + 1:])) for r in range(len(shape))]
    offs = [tuple(k - b // 2 for k, b in zip(kk, bshape)) for kk in np.ndindex(*bshape)]
    a = []
    for i in range(n):
        p = np.unravel_index(i, shape)
        for o in offs:
            if all(0 <= pi + oi < s for pi, oi, s in zip(p, o, shape)):
                a.append((i + sum(oi * st for oi, st in zip(o, strides)), n))
    return a, True


def _csv(v):
    return ','.join(str(int(x)) for x in v) or '-'


def _model2_line_and_direct(case):
    w, q = case['which'], case['p']
    if w == 'zoomshift':
        line = f"c10 kind=zoomshift shape={_csv(q['shape'])} order={q['order']} mode={q['mode']} coord={_csv(q['coord'])}"
        flag, idxs = _py_zoomshift(q['shape'], q['order'], q['mode'], q['coord'])
        n = int(np.prod(q['shape']))
        return line, [(i, n) for i in idxs], True, dict(flag=str(int(flag)), idx=_csv(idxs) if not flag else '-')
    if w == 'spline':
        return (f"c10 kind=spline len={q['len']} mxs={_csv(q['mxs'])}",) + _py_spline(q['len'], q['mxs']) + ({},)
    if w == 'haar':
        return (f"c10 kind=haar n1={q['n1']}",) + _py_haar(q['n1']) + ({},)
    if w == 'wavelet':
        return (f"c10 kind=wavelet n1={q['n1']} nc={q['nc']}",) + _py_wavelet(q['n1'], q['nc']) + ({},)
    if w == 'iwavelet':
        return (f"c10 kind=iwavelet n1={q['n1']} nc={q['nc']} step={q['step']}",) + _py_iwavelet(q['n1'], q['nc'], q['step']) + ({},)
    if w == 'ihaar':
        return (f"c10 kind=ihaar n1={q['n1']} step={q['step']}",) + _py_ihaar(q['n1'], q['step']) + ({},)
    if w == 'integral':
        return (f"c10 kind=integral n0={q['n0']} n1={q['n1']}",) + _py_integral(q['n0'], q['n1']) + ({},)
    if w == 'graham':
        a, done, res = _py_graham(q['n'], q['pop1'], q['pop2'])
        return f"c10 kind=graham n={q['n']} pop1={_csv(q['pop1'])} pop2={_csv(q['pop2'])}", a, done, dict(h=str(res))
    if w == 'thin':
        a, done, frame = _py_thin(q['rows'], q['cols'], q['img'])
        return f"c10 kind=thin rows={q['rows']} cols={q['cols']} img={_csv(q['img'])}", a, done, dict(frame=str(int(frame)))
    if w == 'cwnb':
        return (f"c10 kind=cwnb shape={_csv(q['shape'])} bshape={_csv(q['bshape'])}",) + _py_cwnb(q['shape'], q['bshape']) + ({},)
    if w in c10_misc.KINDS:        # round 3: histogram, lbp map, bbox, relabel / remove_regions, distance_multi
        return c10_misc.line_and_direct(w, q)
    if w in c10_surf.KINDS:          # round 3 (B9 SURF)
        return c10_surf.line_and_direct(w, q)
    for m4 in ROUND4:
        if w in m4.KINDS:
            return m4.line_and_direct(w, q)
    raise core.Infra(f'unknown model2 kind {w}')


def _eval_model2(case):
    try:
        line, acc, term, extra = _model2_line_and_direct(case)
    except _Unrecognised as e:
        return dict(findings=[dict(kind='model', key='bounds-model2:' + case['which'] + ':source-not-recognised', detail=dict(why=str(e)))],
                    nontrivial=False, sig=None, n=0, tags=dict(kind='model2', which=case['which'], ok='?', domain=case.get('domain', True)))
    drv = core.drive([line])[0]
    if acc is None:       # the direct evaluation returned the complete expected answer (accesses that are positions)
        want, acc = dict(extra), [None] * int(extra['n'])
        ok = want['ok'] == '1'
    else:
        ok = all(0 <= i < n for i, n in acc) and term
        want = dict(ok=str(int(ok)), n=str(len(acc)), term=str(int(term)), sum=str(sum(i for i, _ in acc)), **extra)
    fnd = []
    bad = {k: (drv.get(k), v) for k, v in want.items() if drv.get(k) != v}
    if 'error' in drv or bad:
        fnd.append(dict(kind='model', key='bounds-model2:' + case['which'],
                        detail=dict(line=line, answer={k: drv.get(k) for k in list(want) + ['error']}, direct=want, differ=bad)))
    elif case.get('domain', True) and not ok:
        # parameters of the documented domain for which the index expressions leave the buffer: the theorem's instance fails
        fnd.append(dict(kind='property', key='index-out-of-bounds:' + case['which'], detail=dict(line=line, direct=want)))
    return dict(findings=fnd, nontrivial=len(acc) > 0, sig=line, n=len(acc),
                tags=dict(kind='model2', which=case['which'], ok=want['ok'], domain=case.get('domain', True)))


def _std_like_round(v):
    import math
    return math.floor(v + 0.5) if v > 0.0 else math.ceil(v - 0.5)


def _eval_zoomshift_real(case):
    """the elements the REAL zoom_shift reads (support of the outputs for one-hot inputs, prefilter off) against the index
    list of the Lean model at every output position"""
    import math
    import mahotas.interpolate as mi
    shape, order, mode, shift = case['shape'], case['order'], case['mode'], case['shift']
    N = int(np.prod(shape))
    code = catalog.MODES.index(mode)
    neg = [-float(s) for s in shift]            # the wrapper passes shifts = -shift
    lines, exact = [], []
    for kk in np.ndindex(*shape):
        coord, inr = [], True
        for r, k in enumerate(kk):
            cc = float(k) + neg[r]
            if cc < 0 or cc > shape[r] - 1:
                coord.append(int(_std_like_round(cc)))
                inr = False
            else:
                coord.append(int(math.floor(cc if order & 1 else cc + 0.5)))
                inr = inr and (2 * cc) != math.floor(2 * cc)     # at k and k + 0.5 one spline weight is exactly 0
        lines.append(f"c10 kind=zoomshift shape={_csv(shape)} order={order} mode={code} coord={_csv(coord)}")
        exact.append(inr)
    drv = core.drive(lines)
    support = [set() for _ in range(N)]
    try:
        for k in range(N):
            a = np.zeros(N, np.float64)
            a[k] = 1.0
            if 0 < order < 5:
                out = mi.shift(a.reshape(shape), shift, order=order, mode=mode, cval=0.0, prefilter=False)
            else:
                # orders 0 and 5 exist in the kernel but not behind the wrapper: valid direct call of the entry point
                out = np.zeros(shape, np.float64)
                mi._interpolate.zoom_shift(a.reshape(shape), None, np.array(neg, np.float64), out, order, code, 0.0)
            for p in np.flatnonzero(out.ravel() != 0.0):
                support[int(p)].add(k)
    except (ValueError, NotImplementedError) as e:
        return dict(findings=[], nontrivial=False, sig=json.dumps(case, sort_keys=True), tags=dict(kind='zoomshift', outcome='exc:' + type(e).__name__))
    fnd = []
    bad = []
    for p, (d, ex) in enumerate(zip(drv, exact)):
        if 'error' in d or d.get('ok') != '1':
            fnd.append(dict(kind='model', key='zoomshift:model-out-of-range', detail=dict(line=lines[p], answer=d)))
            break
        model = set(core.ints(d['idx'])) if d.get('flag') == '0' and d.get('idx') not in (None, '-') else set()
        # every element the real kernel used must be one the model lists; where every coordinate is inside the array and
        # fractional all spline weights are non-zero, so the two sets must be equal
        if not support[p] <= model or (ex and support[p] != model):
            bad.append((p, sorted(support[p]), sorted(model), lines[p]))
    if bad:
        oob = any(not (0 <= k < N) for _, sup, _, _ in bad for k in sup)
        fnd.append(dict(kind='property' if oob else 'model', key='zoomshift:elements-read', detail=dict(case=case, first=bad[:4], n=len(bad))))
    return dict(findings=fnd, nontrivial=True, sig=json.dumps(case, sort_keys=True), n=N * (order + 1) ** len(shape),
                tags=dict(kind='zoomshift', mode=mode, order=order, ndim=len(shape)))


_R4 = {m4.REAL_KIND: m4 for m4 in ROUND4}


def _eval_round4(c):
    return _R4[c['kind']].eval_real(c, SRC)


def evaluate(cases):
    out = []
    for c in cases:
        k = c.get('kind', 'sweep')
        out.append(_eval_filter(c) if k == 'filter' else _eval_model(c) if k == 'model' else _eval_model2(c) if k == 'model2' else
                   _eval_zoomshift_real(c) if k == 'zoomshift' else c10_misc.eval_real(c, SRC) if k == 'miscreal' else
                   c10_surf.evaluate_real(c) if k == 'surfreal' else _eval_round4(c) if k in _R4 else _eval_sweep(c))
    return out


# ---------------------------------------------------------------------------------------------------------------

def _corpus():
    d = core.VERIF / 'corpus' / ID
    return [json.loads(p.read_text())['case'] for p in sorted(d.glob('*.json'))] if d.exists() else []


def _filter_cases(rng, n):
    out = []
    for _ in range(n):
        nd = rng.choice([1, 1, 2, 2, 3])
        cap = {1: 12, 2: 6, 3: 4}[nd]
        shape = [rng.randint(1, cap) for _ in range(nd)]
        fshape = []
        for s in shape:
            u = rng.random()
            fshape.append(rng.choice([1, 2, 3]) if u < 0.4 else s if u < 0.55 else s + rng.choice([1, 2, 5]) if u < 0.75 else
                          rng.choice([4 * s, 4 * s + 1, 8 * s, 8 * s + 1]) if u < 0.85 and nd == 1 else rng.randint(1, cap + 2))
        while int(np.prod(fshape)) > 300:
            fshape[rng.randrange(nd)] = 1
        out.append(dict(kind='filter', shape=shape, fshape=fshape, mode=rng.choice(catalog.MODES),
                        layout=rng.choice(['C', 'C', 'F', 'strided', 'negstride', 'offset', 'transposed', 'readonly'])))
    return out


def _model_cases(rng, n):
    """random parameters of the documented domain for the executable bounds checkers of Model/C10.lean (expected ok=1),
    plus parameters outside it whose checker must answer ok=0 (non-vacuity)"""
    out = []
    R = rng.randint
    for _ in range(n):
        k = rng.choice(['fastbin', 'conv1d', 'find2d', 'majority', 'hitmiss', 'dt', 'bbox', 'foldl', 'com', 'cooc'])
        expect = 1
        if k == 'fastbin':
            line = f'c10 kind=fastbin ny={R(1, 9)} nx={R(1, 9)} dy={R(-12, 12)} dx={R(-12, 12)} erosion={R(0, 1)}'
        elif k == 'conv1d':
            n1 = R(2, 12)
            nf = R(1, n1 - 1)                 # the Python wrapper's guard: len(weights) < f.shape[axis]
            line = f'c10 kind=conv1d n1={n1} nf={nf} mode={R(0, 5)}'
        elif k == 'find2d':
            n0, n1 = R(1, 8), R(1, 8)
            line = f'c10 kind=find2d n0={n0} n1={n1} t0={R(1, n0)} t1={R(1, n1)}'
        elif k == 'majority':
            line = f'c10 kind=majority rows={R(1, 9)} cols={R(1, 9)} n={R(1, 7)}'
        elif k == 'hitmiss':
            nd = R(1, 3)
            line = f"c10 kind=hitmiss shape={','.join(str(R(1, 6)) for _ in range(nd))} bshape={','.join(str(R(1, 5)) for _ in range(nd))}"
        elif k == 'dt':
            nn = R(1, 12)
            pop = ','.join(str(R(0, 1)) for _ in range(R(0, 2 * nn)))
            adv = ','.join(str(R(0, 1)) for _ in range(R(0, 2 * nn)))
            line = f'c10 kind=dt n={nn} pop={pop or "-"} adv={adv or "-"}'
        elif k == 'bbox':
            mx = R(0, 6)
            if rng.random() < 0.25:           # outside the domain: negative label / label above the maximum must be flagged
                line = f'c10 kind=bbox ndim={R(1, 4)} maxlabel={mx} label={rng.choice([-1, -3, mx + 1])}'
                expect = 0
            else:
                line = f'c10 kind=bbox ndim={R(1, 4)} maxlabel={mx} label={R(0, mx)}'
        elif k == 'foldl':
            line = f'c10 kind=foldl maxi={R(1, 9)} label={R(-5, 15)}'
        elif k == 'com':
            mx, size = R(0, 5), R(1, 30)
            if rng.random() < 0.25:           # labels smaller than the image: the defect repaired by the shape guard
                line = f'c10 kind=com ndim={R(1, 3)} maxlabel={mx} label={R(0, mx)} size={size + R(1, 5)} lsize={size}'
                expect = 0
            else:
                line = f'c10 kind=com ndim={R(1, 3)} maxlabel={mx} label={R(0, mx)} size={size} lsize={size}'
        else:
            m = R(1, 8)
            v, v2 = R(0, m - 1), R(0, m - 1)
            line = f'c10 kind=cooc m0={m} m1={m} v={v} v2={v2}'
        out.append(dict(kind='model', line=line, expect=expect))
    return out



def _model2_cases(rng, n):
    """random parameters for the round-2 index models (zoom_shift, spline_filter1d, haar/wavelets, integral, Graham scan,
    thin, cwatershed neighbours): the driver's verdict is compared with the direct Python evaluation; `domain=False`
    marks parameters outside the documented domain (only agreement is required there: non-vacuity of the checkers)."""
    out = []
    R = rng.randint
    kinds = ['zoomshift', 'zoomshift', 'spline', 'haar', 'wavelet', 'iwavelet', 'ihaar', 'integral', 'graham', 'thin', 'thin', 'cwnb']
    for _ in range(n):
        w = rng.choice(kinds)
        dom = True
        if w == 'zoomshift':
            nd = rng.choice([1, 1, 2, 2, 3])
            shape = [R(1, {1: 9, 2: 6, 3: 4}[nd]) for _ in range(nd)]
            # coordinates far outside, just outside, on the edges and inside
            coord = [rng.choice([R(-40, 40), R(-3, s + 2), 0, s - 1, R(0, s - 1)]) for s in shape]
            q = dict(shape=shape, order=R(0, 5) if nd < 3 else R(0, 3), mode=R(0, 5), coord=coord)
        elif w == 'spline':
            ln = R(0, 14)
            q = dict(len=ln, mxs=[rng.choice([R(-2, 3), R(1, ln + 2), 12, 27, 5]) for _ in range(R(1, 2))])
        elif w == 'haar':
            q = dict(n1=R(0, 17))
        elif w == 'wavelet':
            q = dict(n1=R(0, 15), nc=rng.choice([0, 2, 4, 6, 8, 20, R(1, 9)]))
        elif w == 'iwavelet':
            q = dict(n1=R(0, 13), nc=rng.choice([2, 4, 6, 8, 20, R(1, 9)]), step=R(1, 7))
        elif w == 'ihaar':
            q = dict(n1=R(0, 15), step=R(1, 9))
        elif w == 'integral':
            q = dict(n0=R(0, 7), n1=R(0, 7))
        elif w == 'graham':
            nn = R(0, 14)
            q = dict(n=nn, pop1=[R(0, 1) for _ in range(R(0, 7))], pop2=[R(0, 1) for _ in range(R(0, 7))])
            if rng.random() < 0.2:
                q['pop1'] = [1]          # always pop: h stays at 2
            if rng.random() < 0.2:
                q['pop2'] = [1]
        elif w == 'thin':
            rows, cols = R(1, 6), R(1, 6)
            img = np.zeros((rows, cols), int)
            if rows > 2 and cols > 2:
                img[1:-1, 1:-1] = [[R(0, 1) for _ in range(cols - 2)] for _ in range(rows - 2)]
            if rng.random() < 0.3:   # outside the domain: a set pixel on the frame (what thin.py's zero frame prevents)
                y, x = rng.choice([(0, R(0, cols - 1)), (rows - 1, R(0, cols - 1)), (R(0, rows - 1), 0), (R(0, rows - 1), cols - 1)])
                img[y, x] = 1
                dom = False
            q = dict(rows=rows, cols=cols, img=[int(v) for v in img.ravel()])
        else:
            nd = R(1, 3)
            q = dict(shape=[R(1, 5) for _ in range(nd)], bshape=[rng.choice([1, 2, 3, 3, 5]) for _ in range(nd)])
        out.append(dict(kind='model2', which=w, p=q, domain=dom))
    return out


def _zoomshift_cases(rng, n):
    out = []
    for _ in range(n):
        nd = rng.choice([1, 1, 2, 2, 3])
        shape = [rng.randint(1, {1: 10, 2: 5, 3: 3}[nd]) for _ in range(nd)]
        shift = [rng.choice([rng.uniform(-2.5, 2.5), rng.uniform(-12, 12), rng.randint(-3, 3) + 0.37, float(rng.randint(-2, 2)), 0.5])
                 for _ in range(nd)]
        out.append(dict(kind='zoomshift', shape=shape, order=rng.randint(0, 5) if nd < 3 else rng.randint(0, 3),
                        mode=rng.choice(catalog.MODES), shift=[round(x, 6) for x in shift]))
    return out


def cases(rng, tier):
    out = list(_corpus()) if tier != 'search' else []
    nsweep = dict(quick=5000, thorough=60000, search=8000)[tier]
    nfilter = dict(quick=250, thorough=4000, search=600)[tier]
    nmodel = dict(quick=400, thorough=4000, search=0)[tier]
    out += _filter_cases(rng, nfilter)
    if MODEL_KINDS_READY:
        out += _model_cases(rng, nmodel)
    # directed: the early exits of the binary fast path (C-contiguous 2-D bool image; empty / centre-only element) and
    # of the generic kernels (same elements, other dtypes): the output must be written before returning
    for fn in ('mahotas.erode', 'mahotas.dilate', 'mahotas.open', 'mahotas.close'):
        if fn not in catalog.ENTRIES:
            continue
        for fill in ('zeros', 'centre'):
            for dt, shape in (('bool', [rng.randint(2, 9), rng.randint(2, 9)]), (rng.choice(['uint8', 'int16', 'bool']), [rng.randint(1, 6) for _ in range(rng.choice([1, 2, 3]))])):
                bs = [rng.choice([1, 3, 3, 2]) for _ in shape]
                out.append(dict(kind='sweep', call=dict(fn=fn, kw={}, args=[
                    catalog.A(dtype=dt, shape=shape, fill='bool' if dt == 'bool' else 'rand', seed=rng.randrange(1 << 30), layout='C'),
                    catalog.A(dtype=dt, shape=bs, fill=fill, seed=0, layout='C')])))
    for call in catalog.directed_extreme_calls(rng):
        out.append(dict(kind='sweep', call=call))
    fns = sorted(f for f in catalog.ENTRIES if f not in catalog.PURE_PYTHON)
    for i in range(nsweep):
        fn = fns[i % len(fns)] if i < 4 * len(fns) else rng.choice(fns)      # every entry point at least four times
        out.append(dict(kind='sweep', call=catalog.valid_call(rng, fn)))
    if MODEL_KINDS_READY:
        # round 2 (appended last so that the random stream of the cases above is unchanged)
        out += _model2_cases(rng, dict(quick=600, thorough=6000, search=0)[tier])
        out += _zoomshift_cases(rng, dict(quick=120, thorough=1500, search=0)[tier])
        # round 3 (appended last again)
        out += c10_misc.model_cases(rng, dict(quick=300, thorough=3000, search=0)[tier])
        out += c10_misc.real_cases(rng, dict(quick=150, thorough=1500, search=0)[tier])
        out += c10_surf.cases(rng, tier)       # round 3 (B9 SURF), appended last: the stream above is unchanged
        for m4 in ROUND4:                      # round 4, appended last
            out += m4.model_cases(rng, dict(quick=150, thorough=1500, search=0)[tier])
            out += m4.real_cases(rng, dict(quick=60, thorough=600, search=0)[tier])
        # round 4: directed valid calls at the corners the new index models point at (appended last)
        from .. import directed4
        for call in directed4.valid_calls(rng):
            out.append(dict(kind='sweep', call=call))
    return out


MODEL_KINDS_READY = True


def shrink(case):
    if case.get('kind', 'sweep') != 'sweep':
        if case.get('kind') == 'filter':
            for i, s in enumerate(case['shape']):
                if s > 1:
                    yield dict(case, shape=case['shape'][:i] + [s - 1] + case['shape'][i + 1:])
            for i, s in enumerate(case['fshape']):
                if s > 1:
                    yield dict(case, fshape=case['fshape'][:i] + [s - 1] + case['fshape'][i + 1:])
            if case.get('layout', 'C') != 'C':
                yield dict(case, layout='C')
        return
    spec = case['call']

    def with_arg(path, new):
        s = json.loads(json.dumps(spec))
        if path[0] == 'p':
            s['args'][path[1]] = new
        else:
            s['kw'][path[1]] = new
        return dict(case, call=s)

    slots = [(('p', i), a) for i, a in enumerate(spec['args'])] + [(('k', k), a) for k, a in spec['kw'].items()]
    shapes = [tuple(a['a']['shape']) for _, a in slots if 'a' in a]
    # shorten an axis jointly in all arrays that share the shape of the first array (paired arguments stay paired)
    if shapes:
        ref = shapes[0]
        for ax in range(len(ref)):
            for new in sorted({ref[ax] // 2, ref[ax] - 1}):
                if 1 <= new < ref[ax]:
                    s = json.loads(json.dumps(spec))
                    for a in list(s['args']) + list(s['kw'].values()):
                        if 'a' in a and tuple(a['a']['shape']) == ref:
                            a['a']['shape'][ax] = new
                    yield dict(case, call=s)
    for path, a in slots:
        if 'a' in a:
            d = a['a']
            if (d.get('layout') or 'C') != 'C':
                yield with_arg(path, {'a': dict(d, layout='C')})
            if tuple(d['shape']) != (shapes[0] if shapes else None):
                for ax, n in enumerate(d['shape']):
                    if n > 1:
                        yield with_arg(path, {'a': dict(d, shape=d['shape'][:ax] + [n - 1] + d['shape'][ax + 1:])})
            if d.get('fill') not in ('zeros', 'ones', 'bool'):
                yield with_arg(path, {'a': dict(d, fill='ones')})
    for k in list(spec['kw']):
        s = json.loads(json.dumps(spec))
        del s['kw'][k]
        yield dict(case, call=s)


def coverage_extra():
    return dict(entry_points_swept=len([f for f in catalog.ENTRIES if f not in catalog.PURE_PYTHON]),
                proved_vs_validated=EXPLANATION)
