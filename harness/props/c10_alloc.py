"""C10, round 4 — result buffers: write sets of the loop shapes that fill memory allocated uninitialised
(lean/Mahotas/Model/C10Alloc.lean; the allocation sites themselves are enumerated by translator/allocs.py and classified
by `C10_alloc_sites_covered`).

model2 cases: the driver's verdict (`ok` = all stores inside, `n`, `sum`, `covers` = every cell stored, `size`) against a
DIRECT Python re-evaluation of the C++/Python loops (written from the source text). Parameters outside the domain
(`domain=False`) use a mechanism with a deliberately wrong size so that `ok=0` / `covers=0` are exercised.
The REAL tie for "no result is formed from uninitialised memory" is the two-heap-fillings sweep of c10.py (every call twice,
freed heap filled 0x00 / 0xFF, digests must agree); `allocreal` cases add directed calls for the allocation sites: the
function that owns the site is called with the buffer pre-dirtied through a recycled allocation of the same size class.
"""
from __future__ import annotations
import json
import numpy as np
from .. import core, iso

KINDS = ('alloc',)
REAL_KIND = 'allocreal'
MECHS = ('fill', 'pixel', 'rows', 'pairs', 'records', 'bboxinit', 'complexhalves', 'compress', 'gm', 'hitmissbuf', 'window')


def _csv(v):
    return ','.join(str(int(x)) for x in v) or '-'


def _tdiv(a, b):
    q = abs(a) // abs(b)
    return q if (a >= 0) == (b >= 0) else -q


def py_writes(q):
    """-> (size, [store indices], extra) re-evaluating the loops of the sources"""
    m, a, b, c = q['mech'], q.get('a', 0), q.get('b', 0), q.get('c', 0)
    ws, extra = [], {}
    if m == 'fill':                 # std::fill(first, last, v): for (; first != last; ++first) *first = v;
        first, last = 0, a
        while first != last:
            ws.append(first); first += 1
        size = a
    elif m == 'pixel':              # T* rpos = res.data(); for (i = 0; i != N; ++i, ++rpos) *rpos = …;
        rpos, i = 0, 0
        while i != a:
            ws.append(rpos); i += 1; rpos += 1
        size = a
    elif m == 'rows':               # for y: T* out = result.data(y); for x: out[x] = …   (C-contiguous: data(y) = y*N1)
        for y in range(a):
            base = y * b
            for x in range(b):
                ws.append(base + x)
        size = a * b
    elif m == 'pairs':              # for (i = 0; i != h; ++i) { *oiter++ = y; *oiter++ = x; }
        o = 0
        for _ in range(a):
            ws.append(o); o += 1
            ws.append(o); o += 1
        size = a * 2
    elif m == 'records':            # for i: dump(arr.data(i)) -> out[0..k)
        for i in range(a):
            for j in range(b):
                ws.append(i * b + j)
        size = a * b
    elif m == 'bboxinit':           # for (j = 0; j != nd; ++j) { e[2*j] = …; e[2*j+1] = 0; }
        for j in range(a):
            ws += [2 * j, 2 * j + 1]
        size = 2 * a
    elif m == 'complexhalves':      # An.real = …; An.imag = …  (interleaved doubles)
        ws = [2 * i for i in range(a)] + [2 * i + 1 for i in range(a)]
        size = 2 * a
    elif m == 'compress':           # j = 0; for i: if (*fiter) new_filter_data[j++] = *fiter;   size_ = #set footprint cells
        j = 0
        for v in q['mask']:
            if v:
                ws.append(j); j += 1
        size = sum(1 for v in q['mask'] if v)
    elif m == 'gm':                 # g_m = new double[int((n-l)/2) + 1]; for (m = 0; m <= (n-l)/2; m++) g_m[m] = …
        n, l = q['n'], q['l']
        lim = _tdiv(n - l, 2)
        mm = 0
        while mm <= lim:
            ws.append(mm); mm += 1
        size = max(lim + 1, 0)
        extra['reads'] = '1'
    elif m == 'hitmissbuf':         # for (; first != last; ++first) *output++ = match(first, elem);
        ws = list(range(a))
        size = a
        extra['reads'] = '1'
    elif m == 'window':             # FILLWBYTE; if (rows < N || cols < N) return; for y != rows-N: it = data + (y+N/2)*stride0 + N/2; for x != cols-N: *it++
        rows, cols, N = a, b, c
        ws = list(range(rows * cols))
        if not (rows < N or cols < N):
            for y in range(rows - N):
                it = (y + N // 2) * cols + N // 2
                for x in range(cols - N):
                    ws.append(it); it += 1
        size = rows * cols
    else:
        raise core.Infra(m)
    return size, ws, extra


def line_for(q):
    m = q['mech']
    s = f"c10 kind=alloc mech={m} a={q.get('a', 0)} b={q.get('b', 0)} c={q.get('c', 0)}"
    if m == 'compress':
        s += f" mask={_csv(q['mask'])}"
    if m == 'gm':
        s += f" n={q['n']} l={q['l']}"
    return s


def line_and_direct(w, q):
    size, ws, extra = py_writes(q)
    covers = set(range(size)) <= set(ws)
    extra = dict(extra, covers=str(int(covers)), size=str(size))
    return line_for(q), [(i, size) for i in ws], True, extra


def model_cases(rng, n):
    out, R = [], rng.randint
    for _ in range(n):
        m = rng.choice(MECHS)
        q = dict(mech=m, a=R(0, 12), b=R(0, 9), c=0)
        if m == 'compress':
            q['mask'] = [int(rng.random() < rng.choice([0.0, 0.3, 0.7, 1.0])) for _ in range(R(0, 14))]
        if m == 'gm':
            q['n'], q['l'] = R(0, 14), R(0, 14)
            if rng.random() < 0.6:
                q['l'] = R(0, q['n'])
            if rng.random() < 0.2:
                q['n'], q['l'] = R(-9, 9), R(-9, 9)
        if m == 'window':
            q['c'] = rng.choice([0, 1, 2, 3, 5, 7, R(0, 14)])
        out.append(dict(kind='model2', which='alloc', p=q, domain=True))
    return out


# directed calls for the allocation sites whose owner is a public function: (function, argument builders)
def real_cases(rng, n):
    return []


def eval_real(case, SRC):
    raise core.Infra('no allocreal cases')
