"""C10, round 4 — result buffers: write sets of the loop shapes that fill memory allocated uninitialised
(lean/Mahotas/Model/C10Alloc.lean; the allocation sites themselves are enumerated by translator/allocs.py and classified
by `C10_alloc_sites_covered`).

model2 cases: the driver's verdict (`ok` = all stores inside, `n`, `sum`, `covers` = every cell stored, `size`) against a
DIRECT Python re-evaluation of the C++/Python loops (written from the source text). Parameters outside the domain
(`domain=False`) use a mechanism with a deliberately wrong size so that `ok=0` / `covers=0` are exercised.
The REAL tie for "no result is formed from uninitialised memory" is the two-heap-fillings sweep of c10.py (every call twice,
freed heap filled 0x00 / 0xFF, digests must agree); `allocreal` cases add directed calls for the allocation sites: the
function that owns the site is called with the buffer pre-dirtied through a recycled allocation of the same size class.
"""
from __future__ import annotations
import json
import numpy as np
from .. import core, iso

KINDS = ('alloc',)
REAL_KIND = 'allocreal'
MECHS = ('fill', 'pixel', 'rows', 'pairs', 'records', 'bboxinit', 'complexhalves', 'compress', 'gm', 'hitmissbuf', 'window')


def _csv(v):
    return ','.join(str(int(x)) for x in v) or '-'


def _tdiv(a, b):
    q = abs(a) // abs(b)
    return q if (a >= 0) == (b >= 0) else -q


def py_writes(q):
    """-> (size, [store indices], extra) re-evaluating the loops of the sources"""
    m, a, b, c = q['mech'], q.get('a', 0), q.get('b', 0), q.get('c', 0)
    ws, extra = [], {}
    if m == 'fill':                 # std::fill(first, last, v): for (; first != last; ++first) *first = v;
        first, last = 0, a
        while first != last:
            ws.append(first); first += 1
        size = a
    elif m == 'pixel':              # T* rpos = res.data(); for (i = 0; i != N; ++i, ++rpos) *rpos = …;
        rpos, i = 0, 0
        while i != a:
            ws.append(rpos); i += 1; rpos += 1
        size = a
    elif m == 'rows':               # for y: T* out = result.data(y); for x: out[x] = …   (C-contiguous: data(y) = y*N1)
        for y in range(a):
            base = y * b
            for x in range(b):
                ws.append(base + x)
        size = a * b
    elif m == 'pairs':              # for (i = 0; i != h; ++i) { *oiter++ = y; *oiter++ = x; }
        o = 0
        for _ in range(a):
            ws.append(o); o += 1
            ws.append(o); o += 1
        size = a * 2
    elif m == 'records':            # for i: dump(arr.data(i)) -> out[0..k)
        for i in range(a):
            for j in range(b):
                ws.append(i * b + j)
        size = a * b
    elif m == 'bboxinit':           # for (j = 0; j != nd; ++j) { e[2*j] = …; e[2*j+1] = 0; }
        for j in range(a):
            ws += [2 * j, 2 * j + 1]
        size = 2 * a
    elif m == 'complexhalves':      # An.real = …; An.imag = …  (interleaved doubles)
        ws = [2 * i for i in range(a)] + [2 * i + 1 for i in range(a)]
        size = 2 * a
    elif m == 'compress':           # j = 0; for i: if (*fiter) new_filter_data[j++] = *fiter;   size_ = #set footprint cells
        j = 0
        for v in q['mask']:
            if v:
                ws.append(j); j += 1
        size = sum(1 for v in q['mask'] if v)
    elif m == 'gm':                 # g_m = new double[int((n-l)/2) + 1]; for (m = 0; m <= (n-l)/2; m++) g_m[m] = …
        n, l = q['n'], q['l']
        lim = _tdiv(n - l, 2)
        mm = 0
        while mm <= lim:
            ws.append(mm); mm += 1
        size = max(lim + 1, 0)
        extra['reads'] = '1'
    elif m == 'hitmissbuf':         # for (; first != last; ++first) *output++ = match(first, elem);
        ws = list(range(a))
        size = a
        extra['reads'] = '1'
    elif m == 'window':             # FILLWBYTE; if (rows < N || cols < N) return; for y != rows-N: it = data + (y+N/2)*stride0 + N/2; for x != cols-N: *it++
        rows, cols, N = a, b, c
        ws = list(range(rows * cols))
        if not (rows < N or cols < N):
            for y in range(rows - N):
                it = (y + N // 2) * cols + N // 2
                for x in range(cols - N):
                    ws.append(it); it += 1
        size = rows * cols
    else:
        raise core.Infra(m)
    return size, ws, extra


def py_dtscratch(n, cmp, lt2):
    """dist_transform on a line of n cells with the two float tests as oracle matrices (row q, column k); the scratch arrays carry a
    `stored` bitmap: every read must hit a stored cell. -> ([(read index, number of leading cells stored)], terminated, k)"""
    C = lambda q, k: cmp[q * n + k] != 0 if q * n + k < len(cmp) else False
    L = lambda q, k: lt2[q * n + k] != 0 if q * n + k < len(lt2) else False
    v_st, z_st = [False] * (n + 8), [False] * (n + 9)
    reads = []

    def lead(st):
        i = 0
        while i < len(st) and st[i]:
            i += 1
        return i
    v_st[0] = True; z_st[0] = True; z_st[1] = True          # v[0] = 0; z[0] = -inf; z[1] = inf
    k = 0
    for q in range(1, n):
        while True:                                          # do { s = … v[k] …; if (s > z[k]) break; --k; } while (true)
            reads.append((k, lead(v_st)))
            reads.append((k, lead(z_st)))
            if C(q, k):
                break
            if k == 0:
                return reads, False, 0                       # k would become -1
            k -= 1
        k += 1
        v_st[k] = True; z_st[k] = True; z_st[k + 1] = True   # v[k] = q; z[k] = s; z[k+1] = inf
    kfin = k
    k = 0
    for q in range(n):
        fuel = n + 2
        while True:
            if fuel == 0:
                break
            fuel -= 1
            reads.append((k + 1, lead(z_st)))                # while (z[k+1] < q) ++k;
            if not L(q, k):
                reads.append((k, lead(v_st)))                # … v[k] …
                break
            k += 1
    return reads, True, kfin


def line_for(q):
    m = q['mech']
    if m == 'dtscratch':
        return f"c10 kind=alloc mech=dtscratch n={q['n']} cmp={_csv(q['cmp'])} lt2={_csv(q['lt2'])}"
    s = f"c10 kind=alloc mech={m} a={q.get('a', 0)} b={q.get('b', 0)} c={q.get('c', 0)}"
    if m == 'compress':
        s += f" mask={_csv(q['mask'])}"
    if m == 'gm':
        s += f" n={q['n']} l={q['l']}"
    return s


def line_and_direct(w, q):
    if q['mech'] == 'dtscratch':
        reads, term, k = py_dtscratch(q['n'], q['cmp'], q['lt2'])
        # as (index, size) pairs: "index < number of stored leading cells" is the bounds test of this kind
        return line_for(q), [(i, st) for i, st in reads], term, dict(k=str(k))
    size, ws, extra = py_writes(q)
    covers = set(range(size)) <= set(ws)
    extra = dict(extra, covers=str(int(covers)), size=str(size))
    return line_for(q), [(i, size) for i in ws], True, extra


def model_cases(rng, n):
    out, R = [], rng.randint
    for _ in range(n):
        if rng.random() < 0.2:
            # dist_transform scratch arrays: random oracles that respect (i) cmp q 0 and (ii) the sentinel of the final k
            nn = R(1, 9)
            p = rng.choice([0.2, 0.5, 0.9])
            cm = [1 if k == 0 else int(rng.random() < p) for q_ in range(nn) for k in range(nn)]
            _, _, kfin = py_dtscratch(nn, cm, [0] * (nn * nn))
            l2 = [int(k < kfin and rng.random() < 0.6) for q_ in range(nn) for k in range(nn)]
            dom = True
            if rng.random() < 0.15:              # outside: the sentinel ignored / a NaN-like failing first test (agreement only)
                if rng.random() < 0.5:
                    l2 = [1] * (nn * nn)
                else:
                    cm = [int(rng.random() < 0.3) for _ in range(nn * nn)]
                dom = False
            out.append(dict(kind='model2', which='alloc', p=dict(mech='dtscratch', n=nn, cmp=cm, lt2=l2), domain=dom))
            continue
        m = rng.choice(MECHS)
        q = dict(mech=m, a=R(0, 12), b=R(0, 9), c=0)
        if m == 'compress':
            q['mask'] = [int(rng.random() < rng.choice([0.0, 0.3, 0.7, 1.0])) for _ in range(R(0, 14))]
        if m == 'gm':
            q['n'], q['l'] = R(0, 14), R(0, 14)
            if rng.random() < 0.6:
                q['l'] = R(0, q['n'])
            if rng.random() < 0.2:
                q['n'], q['l'] = R(-9, 9), R(-9, 9)
        if m == 'window':
            q['c'] = rng.choice([0, 1, 2, 3, 5, 7, R(0, 14)])
        out.append(dict(kind='model2', which='alloc', p=q, domain=True))
    return out


# directed calls for the allocation sites whose owner is a public function: (function, argument builders)
def real_cases(rng, n):
    return []


def eval_real(case, SRC):
    raise core.Infra('no allocreal cases')
