"""C10, round 4 — result buffers: write sets of the kernels whose result is allocated uninitialised.

Same interface as c10_misc.py: `KINDS` (the model2 kinds answered by lean/Mahotas/Model/C10Alloc.lean),
`line_and_direct(w, q)` -> (line, [(index, size)], term, extra) with a DIRECT Python re-evaluation of the C++ index
expressions, `model_cases(rng, n)`; `REAL_KIND` cases compare what the model computes with the real binary.
"""
from __future__ import annotations
import json
import numpy as np
from .. import core, iso

KINDS = ()
REAL_KIND = 'allocreal'


def line_and_direct(w, q):
    raise core.Infra(f'unknown alloc kind {w}')


def model_cases(rng, n):
    return []


def real_cases(rng, n):
    return []


def eval_real(case, SRC):
    raise core.Infra('no allocreal cases yet')
