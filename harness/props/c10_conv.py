"""C10, round 4 — `_convolve.cpp: rank_filter`: the scratch vector `n_data` (lean/Mahotas/Model/C10Conv.lean).

model2 cases: the stores `neighbours[n++]`, the `nth_element` range and the read `neighbours[currank]` of one pixel, for
arbitrary `retrieve` outcomes, against a direct Python re-evaluation of the C++ (with the C++ `double` arithmetic for `currank`);
out-of-range ranks (the kernel returns at once) included.
convreal cases: the RESULT of the real `mahotas.rank_filter` in `ignore` mode on images with distinct values: at every pixel the
value returned must be the `currank`-th smallest of the `n` neighbours inside the image with `n`, `currank` as the model computes
them (this observes `n`, the store order-independent selection and `currank` through the binary).
"""
from __future__ import annotations
import itertools, json, re
import numpy as np
from .. import core, iso

KINDS = ('rankpixel', 'daubcode', 'find2dsrc')
REAL_KIND = 'convreal'


def _csv(v):
    return ','.join(str(int(x)) for x in v) or '-'


def py_rankpixel(n2, rank, const, retr):
    """rank_filter, one pixel (C++ lines: the rank test, the j loop, currank, the final read)"""
    if rank < 0 or rank >= n2:
        return [], True, dict(cnt='0', currank='0', nthok='1', fresh='0')
    acc, n = [], 0
    for j in range(n2):
        if retr[j]:
            acc.append((n, n2)); n += 1
        elif const:
            acc.append((n, n2)); n += 1
    currank = rank
    if n != n2:
        currank = int(n * rank / float(n2))
    acc.append((currank, n2))
    return acc, True, dict(cnt=str(n), currank=str(currank), nthok=str(int(0 <= currank <= n)), fresh=str(int(currank < n)))


DAUB_LEN = None


def _daub_lengths():
    """the lengths of D2 … D20 as written in the CURRENT _convolve.cpp (read from the source text, not from the Lean table)"""
    global DAUB_LEN
    if DAUB_LEN is None:
        import re
        src = (core.REPO / 'mahotas' / '_convolve.cpp').read_text()
        DAUB_LEN = []
        for k in range(2, 21, 2):
            m = re.search(r'const float D%d\[\] = \{(.*?)\};' % k, src, re.S)
            if not m:
                raise core.Infra(f'D{k} not found in _convolve.cpp')
            DAUB_LEN.append(len([x for x in m.group(1).split(',') if x.strip()]))
    return DAUB_LEN


def py_daubcode(code):
    """dcoeffs(code): switch 0..9 -> D2..D20, else NULL; ncoeffs = 2*(code+1); reads coeffs[j], j < ncoeffs"""
    L = _daub_lengths()
    if not (0 <= code <= 9):
        return [], True, dict(null='1')
    return [(j, L[code]) for j in range(2 * (code + 1))], True, dict(null='0')



# ---- find2d: the loop bounds are taken from the CURRENT source text (after the seeded change C10-r4m1) ---------------------------------

class Verbatim(dict):
    """direct evaluation that already is the complete expected answer"""


class _Unrecognised(Exception):
    pass


_FIND2D = None


def _c2py(e):
    e = e.replace('&&', ' and ').replace('||', ' or ')
    e = re.sub(r'!(?!=)', ' not ', e)
    if not re.fullmatch(r'[\w\s\+\-\*/<>=!\(\)]+', e):
        raise _Unrecognised(f'expression {e!r}')
    return e


def _find2d_source():
    """(prologue integer declarations [(name, expr)], early returns [cond], loops [(var, init, cond)]) of `find2d` in _convolve.cpp as it is
    now. The kernel must still be: an optional prologue of `const npy_intp X = <int expr>;` / `if (<cond>) return;` lines, then four
    nested `for (npy_intp v = <init>; <cond>; ++v)` loops over y, x, sy, sx whose body compares `array.at(y + sy, x + sx)` with
    `target.at(sy, sx)` and stores `out.at(y, x)`; anything else is reported as not recognised (a broken tie)."""
    global _FIND2D
    if _FIND2D is None:
        src = (core.REPO / 'mahotas' / '_convolve.cpp').read_text()
        src = re.sub(r'//[^\n]*', '', re.sub(r'/\*.*?\*/', '', src, flags=re.S))
        m = re.search(r'void\s+find2d\s*\(', src)
        if not m:
            raise _Unrecognised('find2d not found')
        body = src[m.end():]
        body = body[body.index('{'):]
        d = 0
        for k, c in enumerate(body):
            d += c == '{'
            d -= c == '}'
            if d == 0:
                body = body[:k]
                break
        if 'std::fill' not in body:
            raise _Unrecognised('the initial std::fill of the output is gone')
        tail = body[body.index('std::fill'):]
        tail = tail[tail.index(';') + 1:]
        first_for = tail.find('for')
        if first_for < 0:
            raise _Unrecognised('no loop')
        decls, rets = [], []
        for stmt in tail[:first_for].split(';'):
            st = stmt.strip()
            if not st:
                continue
            dm = re.fullmatch(r'const\s+npy_intp\s+(\w+)\s*=\s*(.+)', st, re.S)
            rm = re.fullmatch(r'if\s*\((.+)\)\s*return', st, re.S)
            if dm:
                decls.append((dm.group(1), _c2py(dm.group(2))))
            elif rm:
                rets.append(_c2py(rm.group(1)))
            elif re.fullmatch(r'const\s+T\s+\w+\s*=\s*target\.at\(\s*0\s*,\s*0\s*\)', st):
                pass                      # a read of target(0,0): inside a template with one element per axis
            else:
                raise _Unrecognised(f'prologue statement {st!r}')
        loops = re.findall(r'for\s*\(\s*npy_intp\s+(\w+)\s*=\s*([^;]+);([^;]+);\s*\+\+\s*\w+\s*\)', tail)
        if [v for v, _, _ in loops] != ['y', 'x', 'sy', 'sx']:
            raise _Unrecognised(f'loops over {[v for v, _, _ in loops]}')
        if not re.search(r'array\.at\(\s*y\s*\+\s*sy\s*,\s*x\s*\+\s*sx\s*\)\s*!=\s*target\.at\(\s*sy\s*,\s*sx\s*\)', tail) or \
                not re.search(r'out\.at\(\s*y\s*,\s*x\s*\)\s*=\s*true', tail):
            raise _Unrecognised('loop body')
        _FIND2D = (decls, rets, [(v, _c2py(i), _c2py(c)) for v, i, c in loops])
    return _FIND2D


def py_find2dsrc(n0, n1, t0, t1):
    """execute the loop HEADERS of the current find2d (bodies: all four index pairs, no data-dependent exit — the superset the Lean model
    lists) -> dict(ok, n, term)"""
    decls, rets, loops = _find2d_source()
    env = dict(N0=n0, N1=n1, Nt0=t0, Nt1=t1)
    for name, e in decls:
        env[name] = eval(e, {}, env)
    for c in rets:
        if eval(c, {}, env):
            return dict(ok='1', n='0', term='1')
    (vy, iy, cy), (vx, ix, cx), (vsy, isy, csy), (vsx, isx, csx) = loops
    n, ok, term = 0, True, True
    cap = 4 * (n0 + n1 + t0 + t1 + 8)

    def rng_(var, init, cond, env):
        env = dict(env)
        env[var] = eval(init, {}, env)
        k = 0
        while eval(cond, {}, env):
            k += 1
            if k > cap:
                yield None
                return
            yield env[var]
            env[var] += 1
    for y in rng_(vy, iy, cy, env):
        if y is None:
            term = False
            break
        e1 = dict(env, y=y)
        for x in rng_(vx, ix, cx, e1):
            if x is None:
                term = False
                break
            e2 = dict(e1, x=x)
            for sy in rng_(vsy, isy, csy, e2):
                e3 = dict(e2, sy=sy)
                for sx in rng_(vsx, isx, csx, e3):
                    n += 4
                    ok &= 0 <= y + sy < n0 and 0 <= x + sx < n1 and 0 <= sy < t0 and 0 <= sx < t1
            n += 2
            ok &= 0 <= y < n0 and 0 <= x < n1
        if not term:
            break
    return dict(ok=str(int(ok and term)), n=str(n), term=str(int(term)))


def line_for(q):
    if 'n0' in q:
        return f"c10 kind=find2d n0={q['n0']} n1={q['n1']} t0={q['t0']} t1={q['t1']} incl=1"
    if 'code' in q:
        return f"c10 kind=daubcode code={q['code']}"
    return f"c10 kind=rankpixel n2={q['n2']} rank={q['rank']} const={q['const']} retr={_csv(q['retr'])}"


def line_and_direct(w, q):
    if w == 'find2dsrc':
        try:
            want = py_find2dsrc(q['n0'], q['n1'], q['t0'], q['t1'])
        except _Unrecognised as e:
            # the kernel no longer has the shape the Lean model transliterates: report the broken tie on every such case
            return line_for(q), None, True, Verbatim(ok='source-not-recognised: ' + str(e)[:80], n='0', term='1')
        if want['term'] == '0':
            want = dict(want, n=want['n'])
        return line_for(q), None, True, Verbatim(want)
    if w == 'daubcode':
        return (line_for(q),) + py_daubcode(q['code'])
    return (line_for(q),) + py_rankpixel(q['n2'], q['rank'], q['const'], q['retr'])


def model_cases(rng, n):
    out, R = [], rng.randint
    for _ in range(n):
        if rng.random() < 0.12:
            out.append(dict(kind='model2', which='daubcode', p=dict(code=rng.choice([R(0, 9), R(-3, 13)])), domain=True))
            continue
        if rng.random() < 0.2:
            # find2d with the loop headers of the current source; templates smaller than, equal to and LARGER than the image, on one
            # axis only or on both (all inside the documented domain)
            n0, n1 = R(1, 9), R(1, 9)
            t0 = rng.choice([R(1, n0), n0, n0 + 1, n0 + R(2, 4)])
            t1 = rng.choice([R(1, n1), n1, n1 + 1, n1 + R(2, 4)])
            out.append(dict(kind='model2', which='find2dsrc', p=dict(n0=n0, n1=n1, t0=t0, t1=t1), domain=True))
            continue
        n2 = R(1, 27)
        p = rng.choice([0.0, 0.3, 0.8, 1.0])
        q = dict(n2=n2, rank=R(0, n2 - 1), const=rng.choice([0, 0, 1]), retr=[int(rng.random() < p) for _ in range(n2)])
        u = rng.random()
        if u < 0.15:
            q['rank'] = rng.choice([-1, n2, n2 + 3, -5])       # rejected by the kernel's own test: no access
        out.append(dict(kind='model2', which='rankpixel', p=q, domain=True))
    return out


def real_cases(rng, n):
    out, R = [], rng.randint
    for _ in range(n):
        nd = rng.choice([1, 2, 2, 3])
        shape = [R(1, {1: 9, 2: 6, 3: 4}[nd]) for _ in range(nd)]
        bshape = [rng.choice([1, 2, 3, 3, 5]) for _ in range(nd)]
        bimg = [int(rng.random() < 0.7) for _ in range(int(np.prod(bshape)))]
        if not any(bimg):
            bimg[rng.randrange(len(bimg))] = 1
        n2 = sum(bimg)
        out.append(dict(kind=REAL_KIND, which='rankfilter', p=dict(shape=shape, bshape=bshape, bimg=bimg, rank=R(0, n2 - 1),
                                                                 seed=rng.randrange(1 << 30), dtype=rng.choice(['int32', 'uint8', 'float64']))))
    return out


def eval_real(case, SRC):
    import mahotas as mh
    q = case['p']
    shape, bshape = q['shape'], q['bshape']
    N = int(np.prod(shape))
    r = np.random.RandomState(q['seed'])
    img = (r.permutation(N) + 1).reshape(shape).astype(q['dtype'])          # distinct values
    Bc = np.array(q['bimg'], dtype=q['dtype']).reshape(bshape)
    res = mh.rank_filter(img, Bc, q['rank'], mode='ignore')
    n2 = int(sum(q['bimg']))
    offs = [tuple(k[d] - bshape[d] // 2 for d in range(len(shape))) for k in itertools.product(*[range(s) for s in bshape])]
    lines, wants = [], []
    for pos in itertools.product(*[range(s) for s in shape]):
        retr, vals = [], []
        for k, o in zip(q['bimg'], offs):
            if not k:
                continue
            p2 = tuple(pos[d] + o[d] for d in range(len(shape)))
            inside = all(0 <= p2[d] < shape[d] for d in range(len(shape)))
            retr.append(int(inside))
            if inside:
                vals.append(img[p2])
        lines.append(f"c10 kind=rankpixel n2={n2} rank={q['rank']} const=0 retr={_csv(retr)}")
        wants.append((pos, sorted(vals)))
    fnd = []
    tags = dict(kind=REAL_KIND, which='rankfilter', ndim=len(shape))
    nstale = 0
    for d, (pos, vals), line in zip(core.drive(lines), wants, lines):
        if d.get('ok') != '1' or int(d['cnt']) != len(vals):
            fnd.append(dict(kind='model', key='conv-real:rankfilter:count', detail=dict(line=line, answer=d, n=len(vals))))
            break
        if d['fresh'] != '1':
            nstale += 1          # n = 0: the value is a stale cell of the scratch vector (defined, not fixed by the statement)
            continue
        if res[pos] != vals[int(d['currank'])]:
            fnd.append(dict(kind='model', key='conv-real:rankfilter:value',
                            detail=dict(case=q, pos=pos, real=float(res[pos]), model=float(vals[int(d['currank'])]), answer=d)))
            break
    return dict(findings=fnd, nontrivial=True, sig=json.dumps(q, sort_keys=True), n=N, tags=dict(tags, outcome='agree' if not fnd else 'differ', stale=nstale > 0))
