"""C10, round 4 — `_convolve.cpp: rank_filter`: the scratch vector `n_data` (lean/Mahotas/Model/C10Conv.lean).

model2 cases: the stores `neighbours[n++]`, the `nth_element` range and the read `neighbours[currank]` of one pixel, for
arbitrary `retrieve` outcomes, against a direct Python re-evaluation of the C++ (with the C++ `double` arithmetic for `currank`);
out-of-range ranks (the kernel returns at once) included.
convreal cases: the RESULT of the real `mahotas.rank_filter` in `ignore` mode on images with distinct values: at every pixel the
value returned must be the `currank`-th smallest of the `n` neighbours inside the image with `n`, `currank` as the model computes
them (this observes `n`, the store order-independent selection and `currank` through the binary).
"""
from __future__ import annotations
import itertools, json
import numpy as np
from .. import core, iso

KINDS = ('rankpixel', 'daubcode')
REAL_KIND = 'convreal'


def _csv(v):
    return ','.join(str(int(x)) for x in v) or '-'


def py_rankpixel(n2, rank, const, retr):
    """rank_filter, one pixel (C++ lines: the rank test, the j loop, currank, the final read)"""
    if rank < 0 or rank >= n2:
        return [], True, dict(cnt='0', currank='0', nthok='1', fresh='0')
    acc, n = [], 0
    for j in range(n2):
        if retr[j]:
            acc.append((n, n2)); n += 1
        elif const:
            acc.append((n, n2)); n += 1
    currank = rank
    if n != n2:
        currank = int(n * rank / float(n2))
    acc.append((currank, n2))
    return acc, True, dict(cnt=str(n), currank=str(currank), nthok=str(int(0 <= currank <= n)), fresh=str(int(currank < n)))


DAUB_LEN = None


def _daub_lengths():
    """the lengths of D2 … D20 as written in the CURRENT _convolve.cpp (read from the source text, not from the Lean table)"""
    global DAUB_LEN
    if DAUB_LEN is None:
        import re
        src = (core.REPO / 'mahotas' / '_convolve.cpp').read_text()
        DAUB_LEN = []
        for k in range(2, 21, 2):
            m = re.search(r'const float D%d\[\] = \{(.*?)\};' % k, src, re.S)
            if not m:
                raise core.Infra(f'D{k} not found in _convolve.cpp')
            DAUB_LEN.append(len([x for x in m.group(1).split(',') if x.strip()]))
    return DAUB_LEN


def py_daubcode(code):
    """dcoeffs(code): switch 0..9 -> D2..D20, else NULL; ncoeffs = 2*(code+1); reads coeffs[j], j < ncoeffs"""
    L = _daub_lengths()
    if not (0 <= code <= 9):
        return [], True, dict(null='1')
    return [(j, L[code]) for j in range(2 * (code + 1))], True, dict(null='0')


def line_for(q):
    if 'code' in q:
        return f"c10 kind=daubcode code={q['code']}"
    return f"c10 kind=rankpixel n2={q['n2']} rank={q['rank']} const={q['const']} retr={_csv(q['retr'])}"


def line_and_direct(w, q):
    if w == 'daubcode':
        return (line_for(q),) + py_daubcode(q['code'])
    return (line_for(q),) + py_rankpixel(q['n2'], q['rank'], q['const'], q['retr'])


def model_cases(rng, n):
    out, R = [], rng.randint
    for _ in range(n):
        if rng.random() < 0.12:
            out.append(dict(kind='model2', which='daubcode', p=dict(code=rng.choice([R(0, 9), R(-3, 13)])), domain=True))
            continue
        n2 = R(1, 27)
        p = rng.choice([0.0, 0.3, 0.8, 1.0])
        q = dict(n2=n2, rank=R(0, n2 - 1), const=rng.choice([0, 0, 1]), retr=[int(rng.random() < p) for _ in range(n2)])
        u = rng.random()
        if u < 0.15:
            q['rank'] = rng.choice([-1, n2, n2 + 3, -5])       # rejected by the kernel's own test: no access
        out.append(dict(kind='model2', which='rankpixel', p=q, domain=True))
    return out


def real_cases(rng, n):
    out, R = [], rng.randint
    for _ in range(n):
        nd = rng.choice([1, 2, 2, 3])
        shape = [R(1, {1: 9, 2: 6, 3: 4}[nd]) for _ in range(nd)]
        bshape = [rng.choice([1, 2, 3, 3, 5]) for _ in range(nd)]
        bimg = [int(rng.random() < 0.7) for _ in range(int(np.prod(bshape)))]
        if not any(bimg):
            bimg[rng.randrange(len(bimg))] = 1
        n2 = sum(bimg)
        out.append(dict(kind=REAL_KIND, which='rankfilter', p=dict(shape=shape, bshape=bshape, bimg=bimg, rank=R(0, n2 - 1),
                                                                 seed=rng.randrange(1 << 30), dtype=rng.choice(['int32', 'uint8', 'float64']))))
    return out


def eval_real(case, SRC):
    import mahotas as mh
    q = case['p']
    shape, bshape = q['shape'], q['bshape']
    N = int(np.prod(shape))
    r = np.random.RandomState(q['seed'])
    img = (r.permutation(N) + 1).reshape(shape).astype(q['dtype'])          # distinct values
    Bc = np.array(q['bimg'], dtype=q['dtype']).reshape(bshape)
    res = mh.rank_filter(img, Bc, q['rank'], mode='ignore')
    n2 = int(sum(q['bimg']))
    offs = [tuple(k[d] - bshape[d] // 2 for d in range(len(shape))) for k in itertools.product(*[range(s) for s in bshape])]
    lines, wants = [], []
    for pos in itertools.product(*[range(s) for s in shape]):
        retr, vals = [], []
        for k, o in zip(q['bimg'], offs):
            if not k:
                continue
            p2 = tuple(pos[d] + o[d] for d in range(len(shape)))
            inside = all(0 <= p2[d] < shape[d] for d in range(len(shape)))
            retr.append(int(inside))
            if inside:
                vals.append(img[p2])
        lines.append(f"c10 kind=rankpixel n2={n2} rank={q['rank']} const=0 retr={_csv(retr)}")
        wants.append((pos, sorted(vals)))
    fnd = []
    tags = dict(kind=REAL_KIND, which='rankfilter', ndim=len(shape))
    nstale = 0
    for d, (pos, vals), line in zip(core.drive(lines), wants, lines):
        if d.get('ok') != '1' or int(d['cnt']) != len(vals):
            fnd.append(dict(kind='model', key='conv-real:rankfilter:count', detail=dict(line=line, answer=d, n=len(vals))))
            break
        if d['fresh'] != '1':
            nstale += 1          # n = 0: the value is a stale cell of the scratch vector (defined, not fixed by the statement)
            continue
        if res[pos] != vals[int(d['currank'])]:
            fnd.append(dict(kind='model', key='conv-real:rankfilter:value',
                            detail=dict(case=q, pos=pos, real=float(res[pos]), model=float(vals[int(d['currank'])]), answer=d)))
            break
    return dict(findings=fnd, nontrivial=True, sig=json.dumps(q, sort_keys=True), n=N, tags=dict(tags, outcome='agree' if not fnd else 'differ', stale=nstale > 0))
