"""C10, round 4 — feature kernels (`_zernike` znl, SURF `compute_dominant_angle`, `_texture`, `_convex` entry point, `_histogram` otsu, `_interpolate` remaining pieces).

Same interface as c10_misc.py: `KINDS` (the model2 kinds answered by lean/Mahotas/Model/C10Feat.lean),
`line_and_direct(w, q)` -> (line, [(index, size)], term, extra) with a DIRECT Python re-evaluation of the C++ index
expressions, `model_cases(rng, n)`; `REAL_KIND` cases compare what the model computes with the real binary.
"""
from __future__ import annotations
import json
import numpy as np
from .. import core, iso

KINDS = ()
REAL_KIND = 'featreal'


def line_and_direct(w, q):
    raise core.Infra(f'unknown feat kind {w}')


def model_cases(rng, n):
    return []


def real_cases(rng, n):
    return []


def eval_real(case, SRC):
    raise core.Infra('no featreal cases yet')
