"""C10, round 4 — `_histogram.otsu`, `_zernike.znl` (`fact`, its table, the element arrays), the paired scans of
`is_same_labeling` / `subm`, `_morph.disk_2d`, SURF `compute_dominant_angle` (lean/Mahotas/Model/C10Feat.lean).

model2: the driver's verdict / number / sum of indices / termination (+ the results it computes: `best`, `depth`, `cells`,
`early`, `jend`) against the functions `py_*` below, which re-evaluate the C++ loops directly.
featreal: results against the REAL binary — `_histogram.otsu` (the floating-point decisions are re-computed in Python doubles in the
C++ order and handed to the model as oracles; the threshold the model returns must be the one the binary returns),
`_morph.disk_2d` (the set of cells stored), `labeled.is_same_labeling` on arrays of different sizes (must not crash: ASan worker).
"""
from __future__ import annotations
import json
import numpy as np
from .. import core, iso

KINDS = ('otsu', 'fact', 'znl', 'pairscan', 'disk2d', 'domangle', 'poles', 'splcoef')
REAL_KIND = 'featreal'
FACT_LEN = 13


def _csv(v):
    return ','.join(str(int(x)) for x in v) or '-'


def _tdiv(a, b):
    q = abs(a) // abs(b)
    return q if (a >= 0) == (b >= 0) else -q


def py_otsu(n, hz, nbz, noz, better):
    """otsu(hist, n) with the floating-point tests as oracles"""
    acc = []
    if n <= 1:
        return acc, True, dict(best='0')
    for i in range(1, n):                 # std::accumulate(hist + 1, hist + n)
        acc.append((i, n))
    if hz:
        return acc, True, dict(best='0')
    acc += [(0, n), (0, n)]               # nB[0] = hist[0]
    for i in range(1, n):                 # nB[i] = hist[i] + nB[i-1]
        acc += [(i, n), (i, n), (i - 1, n)]
    for i in range(n):                    # nO[i] = nB[n-1] - nB[i]
        acc += [(i, n), (n - 1, n), (i, n)]
    for i in range(1, n):                 # mu_O += i*hist[i]
        acc.append((i, n))
    acc += [(0, n), (0, n)]               # best = nB[0]*nO[0]*...
    best = 0
    T = 1
    while T != n:
        acc.append((T, n))                # nB[T] == 0
        if nbz[T]:
            T += 1
            continue
        acc.append((T, n))                # nO[T] == 0
        if noz[T]:
            break
        acc += [(T - 1, n), (T, n), (T, n), (T - 1, n), (T, n), (T, n), (T, n), (T, n)]
        if better[T]:
            best = T
        T += 1
    return acc, True, dict(best=str(best))


def py_fact(k, fuel):
    depth = 0
    while True:
        if fuel == 0:
            return None
        fuel -= 1
        if 0 <= k < FACT_LEN:             # unsigned(k) < 13
            return (k, FACT_LEN), depth
        k -= 1
        depth += 1


def py_znl(n, l, nd, na, np_):
    acc, term = [], True
    lim = _tdiv(n - l, 2)
    m = 0
    while m <= lim:
        for k in (n - m, m, _tdiv(n - 2 * m + l, 2), _tdiv(n - 2 * m - l, 2)):
            r = py_fact(k, 100000)
            if r is None:
                term = False
            else:
                acc.append(r[0])
        m += 1
    for m in range(0, max(lim + 1, 0)):
        acc.append((m, lim + 1))
    for i in range(nd):
        acc += [(i, nd), (i, na), (i, np_)]
        for m in range(0, max(lim + 1, 0)):
            acc.append((m, lim + 1))
    return acc, term, {}


def py_pairscan(na, nb, stop):
    acc = []
    for p in range(na):
        acc += [(p, na), (p, nb)]
        if stop is not None and p == stop:
            break
    return acc, True, {}


def py_disk2d(n0, n1, radius):
    acc = []
    c0, c1 = n0 // 2, n1 // 2
    it = 0
    for x0 in range(n0):
        for x1 in range(n1):
            if (x0 - c0) * (x0 - c0) + (x1 - c1) * (x1 - c1) < radius * radius:
                acc.append((it, n0 * n1))
            it += 1
    return acc, True, dict(cells=str(len(acc)))


def py_domangle(ns, btw):
    B = lambda i, j: btw[i * ns + j] != 0
    acc = [(0, ns)]
    j = 1
    while j != ns:
        acc += [(0, ns), (j, ns)]
        if not B(0, j):
            break
        acc.append((j, ns))
        j += 1
    if j == ns:
        return acc, True, dict(early='1', jend=str(j))
    for i in range(1, ns):
        acc.append((i, ns))
        steps = 0
        while j != i:
            acc += [(i, ns), (j, ns)]
            if not B(i, j):
                break
            acc.append((j, ns))
            j += 1
            if j == ns:
                j = 0
            steps += 1
            if steps > ns + 2:
                return acc, False, dict(early='0', jend=str(j))
    return acc, True, dict(early='0', jend=str(j))


def py_poles(order):
    """init_poles: switch (order) { case 2/3: npoles = 1; pole[0] = …; case 4/5: npoles = 2; pole[0] = …; pole[1] = …; default: throw }
    then for (pi = 0; pi < npoles; ++pi) … pole[pi] …"""
    if order in (2, 3):
        npoles = 1
    elif order in (4, 5):
        npoles = 2
    else:
        return [], True, dict(thrown='1')
    acc = [(i, 2) for i in range(npoles)] + [(pi, 2) for pi in range(npoles)]
    return acc, True, dict(thrown='0')


def py_splcoef(order):
    acc = []
    hh = 0
    while hh <= order:
        acc.append((hh, order + 1))
        hh += 1
    return acc, True, {}


def line_for(w, q):
    if w == 'poles':
        return f"c10 kind=poles order={q['order']}"
    if w == 'splcoef':
        return f"c10 kind=splcoef order={q['order']}"
    if w == 'otsu':
        return f"c10 kind=otsu n={q['n']} hz={q['hz']} nbz={_csv(q['nbz'])} noz={_csv(q['noz'])} better={_csv(q['better'])}"
    if w == 'fact':
        return f"c10 kind=fact k={q['k']} fuel={q.get('fuel', 100000)}"
    if w == 'znl':
        return f"c10 kind=znl n={q['n']} l={q['l']} nd={q['nd']} na={q['na']} np={q['np']}"
    if w == 'pairscan':
        return f"c10 kind=pairscan na={q['na']} nb={q['nb']}" + (f" stop={q['stop']}" if q.get('stop') is not None else '')
    if w == 'disk2d':
        return f"c10 kind=disk2d n0={q['n0']} n1={q['n1']} radius={q['radius']}"
    if w == 'domangle':
        return f"c10 kind=domangle ns={q['ns']} btw={_csv(q['btw'])}"
    raise core.Infra(w)


def line_and_direct(w, q):
    line = line_for(w, q)
    if w == 'poles':
        return (line,) + py_poles(q['order'])
    if w == 'splcoef':
        return (line,) + py_splcoef(q['order'])
    if w == 'otsu':
        return (line,) + py_otsu(q['n'], q['hz'], q['nbz'], q['noz'], q['better'])
    if w == 'fact':
        r = py_fact(q['k'], q.get('fuel', 100000))
        if r is None:
            return line, [], False, dict(depth='-')
        return line, [r[0]], True, dict(depth=str(r[1]))
    if w == 'znl':
        return (line,) + py_znl(q['n'], q['l'], q['nd'], q['na'], q['np'])
    if w == 'pairscan':
        return (line,) + py_pairscan(q['na'], q['nb'], q.get('stop'))
    if w == 'disk2d':
        return (line,) + py_disk2d(q['n0'], q['n1'], q['radius'])
    if w == 'domangle':
        return (line,) + py_domangle(q['ns'], q['btw'])
    raise core.Infra(w)


def model_cases(rng, n):
    out, R = [], rng.randint
    for _ in range(n):
        w = rng.choice(KINDS)
        dom = True
        if w == 'otsu':
            nn = rng.choice([0, 1, 2, 3, R(2, 20), R(-3, 1)])
            m = max(nn, 0) + 1
            bits = lambda p: [int(rng.random() < p) for _ in range(m)]
            q = dict(n=nn, hz=int(rng.random() < 0.1), nbz=bits(rng.choice([0, 0.3])), noz=bits(rng.choice([0, 0.1])), better=bits(0.4))
        elif w == 'fact':
            q = dict(k=rng.choice([R(0, 12), R(13, 40), R(0, 200)]))
            if rng.random() < 0.15:
                q = dict(k=R(-5, -1), fuel=R(1, 300))       # never reaches the table: model and direct evaluation agree on term=0
                dom = False
        elif w == 'znl':
            nn = R(0, 20)
            l = R(0, nn)
            nd = R(0, 6)
            q = dict(n=nn, l=l, nd=nd, na=nd, np=nd)
            u = rng.random()
            if u < 0.1:
                q.update(na=max(nd - 1, 0)); dom = q['na'] >= nd
            elif u < 0.2:
                q.update(n=R(-4, 6), l=R(-3, 9)); dom = 0 <= q['l'] <= q['n']
        elif w == 'pairscan':
            na = R(0, 20)
            q = dict(na=na, nb=na, stop=rng.choice([None, None, R(0, 25)]))
            if rng.random() < 0.2:
                q['nb'] = R(0, 25); dom = q['nb'] >= na
        elif w in ('poles', 'splcoef'):
            q = dict(order=rng.choice([0, 1, 2, 3, 4, 5, 6, -1, R(-3, 9)]))
        elif w == 'disk2d':
            q = dict(n0=R(0, 9), n1=R(0, 9), radius=rng.choice([0, 1, 2, 3, 5, 46341, 65536, R(0, 12)]))
        else:
            ns = R(1, 9)
            p = rng.choice([0.0, 0.2, 0.5, 0.9, 1.0])
            q = dict(ns=ns, btw=[int(rng.random() < p) for _ in range(ns * ns)])
        out.append(dict(kind='model2', which=w, p=q, domain=dom))
    return out


def real_cases(rng, n):
    out, R = [], rng.randint
    for _ in range(n):
        w = rng.choice(['otsu', 'otsu', 'disk2d', 'samelabel'])
        if w == 'otsu':
            nn = rng.choice([1, 2, 3, R(2, 40), R(2, 300)])
            z = rng.choice([0.0, 0.3, 0.8])
            hist = [0 if rng.random() < z else R(0, 50) for _ in range(nn)]
            q = dict(hist=hist)
        elif w == 'disk2d':
            q = dict(n0=R(1, 12), n1=R(1, 12), radius=R(0, 9))
        else:
            q = dict(na=R(1, 40), nb=R(1, 40), seed=rng.randrange(1 << 30))
        out.append(dict(kind=REAL_KIND, which=w, p=q))
    return out


def _otsu_oracles(hist):
    """the floating-point decisions of otsu() re-computed in doubles, in the C++ order"""
    n = len(hist)
    h = [float(x) for x in hist]
    nbz, noz, better = [0] * (n + 1), [0] * (n + 1), [0] * (n + 1)
    if n <= 1:
        return 0, nbz, noz, better
    Hsum = 0.0
    for i in range(1, n):
        Hsum += h[i]
    if Hsum == 0:
        return 1, nbz, noz, better
    nB = [0.0] * n
    nB[0] = h[0]
    for i in range(1, n):
        nB[i] = h[i] + nB[i - 1]
    nO = [nB[n - 1] - nB[i] for i in range(n)]
    mu_B, mu_O = 0.0, 0.0
    for i in range(1, n):
        mu_O += i * h[i]
    mu_O /= Hsum
    best = nB[0] * nO[0] * (mu_B - mu_O) * (mu_B - mu_O)
    for T in range(1, n):
        if nB[T] == 0:
            nbz[T] = 1
            continue
        if nO[T] == 0:
            noz[T] = 1
            break
        mu_B = (mu_B * nB[T - 1] + T * h[T]) / nB[T]
        mu_O = (mu_O * nO[T - 1] - T * h[T]) / nO[T]
        sb = nB[T] * nO[T] * (mu_B - mu_O) * (mu_B - mu_O)
        if sb > best:
            best = sb
            better[T] = 1
    return 0, nbz, noz, better


def eval_real(case, SRC):
    w, q = case['which'], case['p']
    tags = dict(kind=REAL_KIND, which=w)
    fnd = []
    if w == 'otsu':
        from mahotas import _histogram
        hz, nbz, noz, better = _otsu_oracles(q['hist'])
        line = line_for('otsu', dict(n=len(q['hist']), hz=hz, nbz=nbz, noz=noz, better=better))
        d = core.drive([line])[0]
        real = int(_histogram.otsu(np.array(q['hist'], np.double)))
        if d.get('ok') != '1' or d.get('best') != str(real):
            fnd.append(dict(kind='model', key='feat-real:otsu', detail=dict(line=line, answer=d, real=real)))
        return dict(findings=fnd, nontrivial=True, sig=line, tags=tags)
    if w == 'disk2d':
        from mahotas import _morph
        a = np.zeros((q['n0'], q['n1']), bool)
        _morph.disk_2d(a, q['radius'])
        line = line_for('disk2d', q)
        d = core.drive([line])[0]
        acc, _, _ = py_disk2d(q['n0'], q['n1'], q['radius'])
        cells = sorted(i for i, _ in acc)
        real = [int(i) for i in np.flatnonzero(a.ravel())]
        if d.get('ok') != '1' or d.get('cells') != str(len(real)) or cells != real or d.get('sum') != str(sum(real)):
            fnd.append(dict(kind='model', key='feat-real:disk2d', detail=dict(line=line, answer=d, real=real)))
        return dict(findings=fnd, nontrivial=True, sig=line, tags=tags)
    # is_same_labeling on arrays of different sizes through the public wrapper: the model says the native scan would leave the
    # second buffer iff nb < na; the wrapper must return False without reaching it (run under ASan: no crash, result False)
    na, nb = q['na'], q['nb']
    line = line_for('pairscan', dict(na=na, nb=nb))
    d = core.drive([line])[0]
    if (d.get('ok') == '1') != (na <= nb):
        fnd.append(dict(kind='model', key='feat-real:pairscan', detail=dict(line=line, answer=d)))
    spec = dict(fn='mahotas.labeled.is_same_labeling', kw={}, args=[
        {'e': f"(np.arange({na}) % 3).astype(np.intc)"}, {'e': f"(np.arange({nb}) % 3).astype(np.intc)"}])
    out = iso.get_worker(SRC['asan'], True).call(spec, 60.0)
    tags['outcome'] = out['st']
    if out['st'] in ('asan', 'signal', 'timeout'):
        fnd.append(dict(kind='property', key='is_same_labeling:size-mismatch:' + out['st'], detail=dict(case=q, outcome=out)))
    return dict(findings=fnd, nontrivial=True, sig=line, tags=tags)
