"""C10, round 4 — `position_stack` / `position_queue`, the seeding loops of `close_holes`, the stack flood of `close_holes` and
`remove_fake_regmin_max` (lean/Mahotas/Model/C10Flood.lean).

model2: driver against a direct Python re-evaluation of the C++ (`numpypp/array.hpp` containers with a real Python list as
`store_`, the seeding odometer, the flood with an explicit LIFO); out-of-domain parameters: rank-3 shapes for the seeding (the
odometer leaves the array: both must say ok=0), too little fuel for the flood (term=0).
floodreal: the REAL `mahotas.close_holes` (2-D, cross / box / random neighbourhoods, C and non-C layouts) against the model's
flood started from the seeds the C++ seeding takes: the number of pixels left available must be the number of hole pixels the
binary fills; `mahotas.regmax/regmin` results are compared through C14's own ties (not repeated here).
"""
from __future__ import annotations
import itertools, json
import numpy as np
from .. import core, iso

KINDS = ('pqueue', 'pstack', 'chseed', 'flood', 'regscan')
REAL_KIND = 'floodreal'


def _csv(v):
    return ','.join(str(int(x)) for x in v) or '-'


def py_pqueue(sz, ops, limit):
    store, nxt, acc, pops = [], 0, [], 0
    for o in ops:
        if o:
            store += [0] * sz                              # push_back of size_ coordinates
        else:
            size = (len(store) // sz - nxt) % (1 << 32)    # unsigned
            if size == 0:
                continue
            for d in range(sz):                            # top(): &store_[next_*size_], size_
                acc.append((nxt * sz + d, len(store)))
            nxt += 1                                       # pop()
            if nxt == limit:
                if nxt * sz:
                    acc.append((nxt * sz - 1, len(store)))  # erase(begin, begin + next_*size_): last erased element
                del store[:nxt * sz]
                nxt = 0
            pops += 1
    return acc, True, dict(len=str(len(store)), next=str(nxt), pops=str(pops))


def py_pstack(sz, ops):
    store, acc, pops = [], [], 0
    for o in ops:
        if o:
            store += [0] * sz
        elif store:
            for d in range(sz):
                acc.append((len(store) - sz + d, len(store)))
            del store[len(store) - sz:]
            pops += 1
    return acc, True, dict(len=str(len(store)), pops=str(pops))


def _ravelz(shape, p):
    r = 0
    for d, x in zip(shape, p):
        r = r * d + x
    return r


def py_chseed(shape):
    """close_holes seeding; -> ([(pos)], ok). Beyond the rank `pos[j]`/`dim(j)` are modelled as 0 < 0 (as the Lean text says)."""
    nd = len(shape)
    N = int(np.prod(shape)) if shape else 1
    out = []
    for d in range(nd):
        if shape[d] == 0:
            continue
        pos = [0] * nd
        for _ in range(N // shape[d]):
            pos[d] = 0
            out.append(list(pos))
            pos[d] = shape[d] - 1
            out.append(list(pos))
            j = 0
            guard = 0
            while j != nd - 1 and guard <= nd:
                guard += 1
                if j == d:
                    j += 1
                pj = pos[j] if j < nd else 0
                dj = shape[j] if j < nd else 0
                if pj < dj:
                    pos[j] += 1
                    break
                if j < nd:
                    pos[j] = 0
                j += 1
    ok = all(all(0 <= x < s for x, s in zip(p, shape)) for p in out)
    return out, ok


def _neigh(bshape, bimg):
    centre = [s // 2 for s in bshape]
    nb = []
    for k, b in zip(itertools.product(*[range(s) for s in bshape]), bimg):
        if b and list(k) != centre:
            nb.append([a - c for a, c in zip(k, centre)])
    return nb


def py_flood(shape, avail, stack, nb, fuel):
    """stack: list of positions, LAST = top. -> dict"""
    av = list(avail)
    st = [list(p) for p in stack]
    n = s = pops = 0
    maxstack = len(st)
    ok = True
    while st:
        if fuel == 0:
            return dict(ok='0', n=str(n), term='0', sum=str(s), pops=str(pops), maxstack=None, left=None)
        fuel -= 1
        maxstack = max(maxstack, len(st))
        p = st.pop()
        pops += 1
        for k in nb:
            q = [a + b for a, b in zip(p, k)]
            if all(0 <= x < d for x, d in zip(q, shape)):            # validposition
                n += 1
                s += _ravelz(shape, q)
                i = _ravelz(shape, q)
                if av[i]:
                    av[i] = 0
                    st.append(q)
    return dict(ok='1', n=str(n), term='1', sum=str(s), pops=str(pops), maxstack=str(maxstack), left=str(sum(av)))


def py_regscan(shape, marks, wit, nb):
    """remove_fake_regmin_max: the outer scan over all positions (C order) with a flood per marked pixel that has a witness"""
    av = list(marks)
    n = s = 0
    N = len(av)
    for i, p in enumerate(itertools.product(*[range(d) for d in shape])):
        if not av[i]:
            continue
        n += 1; s += i                                    # f.at(pos)
        for k in nb:                                      # the neighbour probes behind validposition
            q = [a + b for a, b in zip(p, k)]
            if all(0 <= x < d for x, d in zip(q, shape)):
                n += 1; s += _ravelz(shape, q)
        if wit[i]:
            av[i] = 0
            r = py_flood(shape, av, [list(p)], nb, 1 + sum(av))
            assert r['term'] == '1'
            n += int(r['n']); s += int(r['sum'])
            # py_flood works on a copy: redo the clearing on our flags
            st = [list(p)]
            while st:
                c = st.pop()
                for k in nb:
                    q = [a + b for a, b in zip(c, k)]
                    if all(0 <= x < d for x, d in zip(q, shape)):
                        j = _ravelz(shape, q)
                        if av[j]:
                            av[j] = 0
                            st.append(q)
    return dict(ok='1', n=str(n), term='1', sum=str(s), left=str(sum(av)))


def line_for(w, q):
    if w == 'regscan':
        return (f"c10 kind=regscan shape={_csv(q['shape'])} marks={_csv(q['marks'])} wit={_csv(q['wit'])} "
                f"bshape={_csv(q['bshape'])} bimg={_csv(q['bimg'])}")
    if w == 'pqueue':
        return f"c10 kind=pqueue size={q['size']} limit={q['limit']} ops={_csv(q['ops'])}"
    if w == 'pstack':
        return f"c10 kind=pstack size={q['size']} ops={_csv(q['ops'])}"
    if w == 'chseed':
        return f"c10 kind=chseed shape={_csv(q['shape'])}"
    if w == 'flood':
        flat = [x for p in reversed(q['stack']) for x in p]          # the driver's list starts with the top of the stack
        return (f"c10 kind=flood shape={_csv(q['shape'])} avail={_csv(q['avail'])} stack={_csv(flat)} bshape={_csv(q['bshape'])} "
                f"bimg={_csv(q['bimg'])}" + (f" fuel={q['fuel']}" if q.get('fuel') is not None else ''))
    raise core.Infra(w)


class Verbatim(dict):
    pass


def line_and_direct(w, q):
    line = line_for(w, q)
    if w == 'pqueue':
        return (line,) + py_pqueue(q['size'], q['ops'], q['limit'])
    if w == 'pstack':
        return (line,) + py_pstack(q['size'], q['ops'])
    if w == 'chseed':
        pos, ok = py_chseed(q['shape'])
        return line, None, True, Verbatim(ok=str(int(ok)), n=str(len(pos)), term='1', sum=str(sum(_ravelz(q['shape'], p) for p in pos)))
    if w == 'regscan':
        return line, None, True, Verbatim(py_regscan(q['shape'], q['marks'], q['wit'], _neigh(q['bshape'], q['bimg'])))
    if w == 'flood':
        fuel = q['fuel'] if q.get('fuel') is not None else len(q['stack']) + sum(q['avail']) + 1
        want = py_flood(q['shape'], q['avail'], q['stack'], _neigh(q['bshape'], q['bimg']), fuel)
        want = {k: v for k, v in want.items() if v is not None}
        return line, None, True, Verbatim(want)
    raise core.Infra(w)


def _flood_case(rng, small=True):
    R = rng.randint
    nd = rng.choice([1, 2, 2, 3])
    shape = [R(1, {1: 12, 2: 6, 3: 4}[nd]) for _ in range(nd)]
    N = int(np.prod(shape))
    avail = [int(rng.random() < rng.choice([0.3, 0.7, 1.0])) for _ in range(N)]
    bshape = [rng.choice([1, 3, 3, 2, 5]) for _ in range(nd)]
    bimg = [int(rng.random() < 0.6) for _ in range(int(np.prod(bshape)))]
    stack = []
    for _ in range(R(0, 4)):
        p = [R(0, s - 1) for s in shape]
        i = _ravelz(shape, p)
        avail[i] = 0
        stack.append(p)
    return dict(shape=shape, avail=avail, stack=stack, bshape=bshape, bimg=bimg, fuel=None)


def model_cases(rng, n):
    out, R = [], rng.randint
    for _ in range(n):
        w = rng.choice(KINDS)
        dom = True
        if w in ('pqueue', 'pstack'):
            p = rng.choice([0.3, 0.5, 0.7])
            q = dict(size=R(1, 4), limit=rng.choice([512, 2, 3, 5, 1]), ops=[int(rng.random() < p) for _ in range(R(0, 60))])
        elif w == 'regscan':
            f = _flood_case(rng)
            N = len(f['avail'])
            q = dict(shape=f['shape'], marks=[int(rng.random() < 0.6) for _ in range(N)], wit=[int(rng.random() < 0.3) for _ in range(N)],
                     bshape=f['bshape'], bimg=f['bimg'])
        elif w == 'chseed':
            nd = rng.choice([1, 2, 2, 2, 3])
            q = dict(shape=[R(0, 6) for _ in range(nd)])
            dom = nd <= 2
        else:
            q = _flood_case(rng)
            if rng.random() < 0.15:
                q['fuel'] = R(0, 3)
                dom = False
        out.append(dict(kind='model2', which=w, p=q, domain=dom))
    return out


def _regmax_case(rng):
    R = rng.randint
    nd = rng.choice([1, 2, 2, 3])
    shape = [R(1, {1: 12, 2: 6, 3: 4}[nd]) for _ in range(nd)]
    vals = [R(0, rng.choice([1, 2, 4])) for _ in range(int(np.prod(shape)))]       # few levels: plateaus
    return dict(shape=shape, vals=vals, is_min=rng.choice([0, 1]), bimg=rng.choice(['cross', 'box']))


def real_cases(rng, n):
    out, R = [], rng.randint
    for _ in range(n):
        if rng.random() < 0.35:
            out.append(dict(kind=REAL_KIND, which='regminmax', p=_regmax_case(rng)))
            continue
        shape = [R(1, 9), R(1, 9)]
        p = rng.choice([0.2, 0.5, 0.8])
        img = [int(rng.random() < p) for _ in range(shape[0] * shape[1])]
        bimg = rng.choice([[0, 1, 0, 1, 1, 1, 0, 1, 0], [1] * 9, [int(rng.random() < 0.5) for _ in range(9)]])
        out.append(dict(kind=REAL_KIND, which='closeholes', p=dict(shape=shape, img=img, bimg=bimg, layout=rng.choice(['C', 'C', 'F', 'neg']))))
    return out


def _eval_real_reg(q):
    """mahotas.regmax / regmin against the model's scan: marks = locmax/locmin of the real binary, witnesses computed here from the
    C++ test (an unmarked neighbour inside the image whose value is <= / >= the pixel's)"""
    import mahotas as mh
    shape = q['shape']
    nd = len(shape)
    f = np.array(q['vals'], np.int32).reshape(shape)
    if q['bimg'] == 'cross':
        Bc = np.zeros([3] * nd, bool)
        for d in range(nd):
            idx = [1] * nd
            for v in (0, 2):
                idx[d] = v
                Bc[tuple(idx)] = True
        Bc[tuple([1] * nd)] = True
    else:
        Bc = np.ones([3] * nd, bool)
    is_min = bool(q['is_min'])
    marks = (mh.locmin if is_min else mh.locmax)(f, Bc).ravel()
    real = (mh.regmin if is_min else mh.regmax)(f, Bc).ravel()
    nb = _neigh([3] * nd, [int(x) for x in Bc.ravel()])
    # NOTE the witness depends on the CURRENT marks (earlier floods clear marks): it is evaluated lazily by replaying the scan here
    av = [int(x) for x in marks]
    wit = [0] * len(av)
    fl = f.ravel()
    for i, p in enumerate(itertools.product(*[range(d) for d in shape])):
        if not av[i]:
            continue
        w = False
        for k in nb:
            qq = [a + b for a, b in zip(p, k)]
            if all(0 <= x < d for x, d in zip(qq, shape)):
                j = _ravelz(shape, qq)
                if not av[j] and ((is_min and fl[j] <= fl[i]) or (not is_min and fl[j] >= fl[i])):
                    w = True
                    break
        if w:
            wit[i] = 1
            av[i] = 0
            st = [list(p)]
            while st:
                c = st.pop()
                for k in nb:
                    qq = [a + b for a, b in zip(c, k)]
                    if all(0 <= x < d for x, d in zip(qq, shape)):
                        j = _ravelz(shape, qq)
                        if av[j]:
                            av[j] = 0
                            st.append(qq)
    line = line_for('regscan', dict(shape=shape, marks=[int(x) for x in marks], wit=wit, bshape=[3] * nd, bimg=[int(x) for x in Bc.ravel()]))
    d = core.drive([line])[0]
    fnd = []
    if d.get('ok') != '1':
        fnd.append(dict(kind='property', key='index-out-of-bounds:regmin_max', detail=dict(line=line, answer=d)))
    elif d.get('left') != str(int(real.sum())):
        fnd.append(dict(kind='model', key='flood-real:regmin_max', detail=dict(line=line, answer=d, real=int(real.sum()))))
    return dict(findings=fnd, nontrivial=True, sig=line, tags=dict(kind=REAL_KIND, which='regminmax', outcome='agree' if not fnd else 'differ'))


def eval_real(case, SRC):
    import mahotas as mh
    q = case['p']
    if case['which'] == 'regminmax':
        return _eval_real_reg(q)
    shape = q['shape']
    ref = np.array(q['img'], bool).reshape(shape)
    a = ref
    if q['layout'] == 'F':
        a = np.asfortranarray(ref)
    elif q['layout'] == 'neg':
        a = ref[::-1, ::-1].copy()[::-1, ::-1]
    Bc = np.array(q['bimg'], bool).reshape(3, 3)
    real = mh.close_holes(a, Bc)
    holes = int((real & ~ref).sum())
    # the seeds the C++ takes: background pixels among the seeding positions, in order, each once
    pos, ok = py_chseed(shape)
    avail = [int(not v) for v in q['img']]
    stack = []
    for p in pos:
        i = _ravelz(shape, p)
        if avail[i]:
            avail[i] = 0
            stack.append(p)
    line = line_for('flood', dict(shape=shape, avail=avail, stack=stack, bshape=[3, 3], bimg=q['bimg'], fuel=None))
    d = core.drive([line])[0]
    fnd = []
    if not ok or d.get('ok') != '1' or d.get('term') != '1':
        fnd.append(dict(kind='property', key='index-out-of-bounds:close_holes', detail=dict(line=line, answer=d)))
    elif d.get('left') != str(holes):
        fnd.append(dict(kind='model', key='flood-real:close_holes', detail=dict(line=line, answer=d, holes=holes)))
    return dict(findings=fnd, nontrivial=True, sig=line, tags=dict(kind=REAL_KIND, which='closeholes', layout=q['layout'],
                                                                outcome='agree' if not fnd else 'differ'))
