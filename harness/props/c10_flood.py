"""C10, round 4 — `_morph.cpp` flood/queue kernels (close_holes, regmin_max, locmin_max, distance_multi position_queue, subm, disk_2d, majority_filter) and the `_thin` full pass.

Same interface as c10_misc.py: `KINDS` (the model2 kinds answered by lean/Mahotas/Model/C10Flood.lean),
`line_and_direct(w, q)` -> (line, [(index, size)], term, extra) with a DIRECT Python re-evaluation of the C++ index
expressions, `model_cases(rng, n)`; `REAL_KIND` cases compare what the model computes with the real binary.
"""
from __future__ import annotations
import json
import numpy as np
from .. import core, iso

KINDS = ()
REAL_KIND = 'floodreal'


def line_and_direct(w, q):
    raise core.Infra(f'unknown flood kind {w}')


def model_cases(rng, n):
    return []


def real_cases(rng, n):
    return []


def eval_real(case, SRC):
    raise core.Infra('no floodreal cases yet')
