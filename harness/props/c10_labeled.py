"""C10, round 4 — `_labeled.cpp` (label union-find, borders, slic, is_same_labeling), `_center_of_mass` label path, `_bbox` labeled n-D path.

Same interface as c10_misc.py: `KINDS` (the model2 kinds answered by lean/Mahotas/Model/C10Labeled.lean),
`line_and_direct(w, q)` -> (line, [(index, size)], term, extra) with a DIRECT Python re-evaluation of the C++ index
expressions, `model_cases(rng, n)`; `REAL_KIND` cases compare what the model computes with the real binary.
"""
from __future__ import annotations
import json
import numpy as np
from .. import core, iso

KINDS = ()
REAL_KIND = 'labeledreal'


def line_and_direct(w, q):
    raise core.Infra(f'unknown labeled kind {w}')


def model_cases(rng, n):
    return []


def real_cases(rng, n):
    return []


def eval_real(case, SRC):
    raise core.Infra('no labeledreal cases yet')
