"""C10, round 4 — the union–find array of `_labeled.cpp: label` (lean/Mahotas/Model/C10Labeled.lean).

model2: the driver's trace of `data[·]` indices (verdict, number, sum, termination, parents after compression) against a DIRECT
Python re-evaluation of `find` / `join` / `compress` / the scan loop of `label` (recursive `find` written from the C++ text, with
an explicit array and a recursion counter); `finduf` cases run one `find` on arbitrary arrays (cycles, out-of-range parents:
out of the domain, model and direct evaluation must agree on ok=0 / term=0).
labeledreal: the partition the traced parents induce against the REAL `mahotas.label` (1–3 D, random Bc): two foreground pixels
have the same root in the model's parent array iff the binary gives them the same label; number of roots = number of objects.
"""
from __future__ import annotations
import itertools, json
import numpy as np
from .. import core, iso

KINDS = ('labeluf', 'finduf', 'slicwin', 'sliccover')
REAL_KIND = 'labeledreal'


def _csv(v):
    return ','.join(str(int(x)) for x in v) or '-'


class _OutOfFuel(Exception):
    pass


def _find(data, i, acc, fuel):
    """int find(It data, int i) { if (data[i] == i) return i; int j = find(data, data[i]); data[i] = j; return j; }"""
    if fuel[0] == 0:
        acc.append(i)
        raise _OutOfFuel()
    fuel[0] -= 1
    acc.append(i)
    if not (0 <= i < len(data)):
        return None
    if data[i] == i:
        return i
    saved = fuel[0]
    try:
        j = _find(data, data[i], acc, fuel)
    except _OutOfFuel:
        acc.append(i)                    # the trace convention of the Lean definition: every started call is closed
        raise
    fuel[0] = saved                      # the bound is on the DEPTH of one recursion (as `fuel` of the Lean definition)
    acc.append(i)
    if j is not None:
        data[i] = j
    return j


def py_finduf(par, i, fuel):
    data, acc = list(par), []
    try:
        _find(data, i, acc, [fuel])
        term = True
    except _OutOfFuel:
        term = False
    return [(x, len(par)) for x in acc], term, {}


def _offsets(bshape, bc):
    centre = [s // 2 for s in bshape]
    return [[a - c for a, c in zip(k, centre)] for k, b in zip(itertools.product(*[range(s) for s in bshape]), bc) if b]


def py_labeluf(shape, data0, bshape, bc, fuel):
    N = len(data0)
    data = [i if v else -1 for i, v in enumerate(data0)]
    offs = _offsets(bshape, bc)
    acc, term = [], True
    strides = [int(np.prod(shape[d + 1:])) for d in range(len(shape))]
    pos_of = list(itertools.product(*[range(s) for s in shape]))
    try:
        for i in range(N):
            if data[i] == -1:
                continue
            for k in offs:
                q = [a + b for a, b in zip(pos_of[i], k)]
                if not all(0 <= x < s for x, s in zip(q, shape)):
                    continue                                   # ExtendConstant: retrieve() returns false
                v = data[sum(x * st for x, st in zip(q, strides))]
                if v == -1:
                    continue
                ri = _find(data, i, acc, [fuel])               # join(data, i, arr_val)
                rj = _find(data, v, acc, [fuel])
                acc.append(ri)
                data[ri] = rj
        for i in range(N):
            if data[i] != -1:
                _find(data, i, acc, [fuel])
    except _OutOfFuel:
        term = False
    return [(x, N) for x in acc], term, dict(parents=_csv(data)) if term else {}


def _seeds(S, N):
    """for (y = S/2; y < N; y += S)"""
    out, y = [], S // 2
    while y < N:
        out.append(y)
        y += S
    return out


def py_slicwin(ny, nx, S, cy, cx):
    """the window loops of slic for a centroid at the truncated position (cy, cx); C++ float->int conversions of max/min"""
    sy, sx = int(max(0.0, float(cy - 2 * S))), int(max(0.0, float(cx - 2 * S)))
    ey, ex = int(min(float(ny), float(cy + 2 * S))), int(min(float(nx), float(cx + 2 * S)))
    extra = dict(lo=f'{sy},{sx}', hi=f'{ey},{ex}')
    if sy > ey or sx > ex:
        return None, extra                       # `for (y = start; y != end; ++y)` does not end
    acc = []
    y = sy
    while y != ey:
        x = sx
        while x != ex:
            acc.append((y * nx + x, ny * nx))
            x += 1
        y += 1
    return acc, extra


def py_sliccover(ny, nx, S):
    cs = [(y, x) for y in _seeds(S, ny) for x in _seeds(S, nx)]
    acc, seen = [], set()
    for cy, cx in cs:
        a, _ = py_slicwin(ny, nx, S, cy, cx)
        acc += a
        seen |= {i for i, _ in a}
    return acc, dict(k=str(len(cs)), covered=str(int(seen == set(range(ny * nx)))))


def line_for(w, q):
    if w == 'slicwin':
        return f"c10 kind=slicwin ny={q['ny']} nx={q['nx']} s={q['s']} cy={q['cy']} cx={q['cx']}"
    if w == 'sliccover':
        return f"c10 kind=sliccover ny={q['ny']} nx={q['nx']} s={q['s']}"
    if w == 'finduf':
        return f"c10 kind=finduf par={_csv(q['par'])} i={q['i']}" + (f" fuel={q['fuel']}" if q.get('fuel') is not None else '')
    return (f"c10 kind=labeluf shape={_csv(q['shape'])} data={_csv(q['data'])} bshape={_csv(q['bshape'])} bc={_csv(q['bc'])}"
            + (f" fuel={q['fuel']}" if q.get('fuel') is not None else ''))


def line_and_direct(w, q):
    line = line_for(w, q)
    if w == 'slicwin':
        acc, extra = py_slicwin(q['ny'], q['nx'], q['s'], q['cy'], q['cx'])
        if acc is None:
            return line, [], False, extra
        return line, acc, True, extra
    if w == 'sliccover':
        acc, extra = py_sliccover(q['ny'], q['nx'], q['s'])
        return line, acc, True, extra
    if w == 'finduf':
        fuel = q['fuel'] if q.get('fuel') is not None else len(q['par']) + 1
        return (line,) + py_finduf(q['par'], q['i'], fuel)
    fuel = q['fuel'] if q.get('fuel') is not None else len(q['data']) + 1
    return (line,) + py_labeluf(q['shape'], q['data'], q['bshape'], q['bc'], fuel)


def _img_case(rng):
    R = rng.randint
    nd = rng.choice([1, 2, 2, 3])
    shape = [R(1, {1: 14, 2: 6, 3: 4}[nd]) for _ in range(nd)]
    p = rng.choice([0.3, 0.6, 0.9, 1.0])
    data = [int(rng.random() < p) * R(1, 5) for _ in range(int(np.prod(shape)))]
    bshape = [rng.choice([1, 3, 3, 3, 2, 5]) for _ in range(nd)]
    bc = [int(rng.random() < rng.choice([0.4, 0.8, 1.0])) for _ in range(int(np.prod(bshape)))]
    return dict(shape=shape, data=data, bshape=bshape, bc=bc, fuel=None)


def model_cases(rng, n):
    out, R = [], rng.randint
    for _ in range(n):
        u = rng.random()
        if u < 0.15:
            ny, nx, S = R(1, 12), R(1, 12), R(1, 9)
            q = dict(ny=ny, nx=nx, s=S, cy=R(0, ny - 1), cx=R(0, nx - 1))
            dom = True
            if rng.random() < 0.2:               # a centroid outside the image: the `!=` loop may run away (agreement only)
                q.update(cy=R(-30, 40), cx=R(-30, 40))
                dom = 0 <= q['cy'] < ny and 0 <= q['cx'] < nx
            out.append(dict(kind='model2', which='slicwin', p=q, domain=dom))
        elif u < 0.3:
            ny, nx, S = R(1, 14), R(1, 14), R(1, 12)
            out.append(dict(kind='model2', which='sliccover', p=dict(ny=ny, nx=nx, s=S), domain=True))
        elif u < 0.8:
            out.append(dict(kind='model2', which='labeluf', p=_img_case(rng), domain=True))
        else:
            # one find: a forest (domain) or an arbitrary array (cycles, -1, out-of-range parents)
            n0 = R(1, 12)
            if rng.random() < 0.6:
                par = [rng.choice([i, R(0, i)]) for i in range(n0)]      # parents point to smaller-or-equal indices: a forest
                q, dom = dict(par=par, i=R(0, n0 - 1), fuel=None), True
            else:
                par = [R(-1, n0) for _ in range(n0)]
                q, dom = dict(par=par, i=R(0, n0 - 1), fuel=rng.choice([None, R(1, 5)])), False
            out.append(dict(kind='model2', which='finduf', p=q, domain=dom))
    return out


def real_cases(rng, n):
    out = []
    for _ in range(n):
        if rng.random() < 0.25:
            ny, nx = rng.randint(2, 24), rng.randint(2, 24)
            S = rng.randint(1, 2 * min(ny, nx) - 1)              # S // 2 < min(ny, nx): accepted by the wrapper
            out.append(dict(kind=REAL_KIND, which='slic', p=dict(ny=ny, nx=nx, s=S, seed=rng.randrange(1 << 30), iters=rng.choice([1, 3, 128]))))
        else:
            out.append(dict(kind=REAL_KIND, which='label', p=_img_case(rng)))
    return out


def _eval_real_slic(q):
    """the real `segmentation.slic`: the number of superpixels it reports is the model's number of seed centroids, the model says
    the first iteration covers the image, and every label of the result is a centroid index (1..K)"""
    from mahotas import segmentation
    line = line_for('sliccover', q)
    d = core.drive([line])[0]
    r = np.random.RandomState(q['seed'])
    img = (r.rand(q['ny'], q['nx'], 3) * 255).astype(np.uint8)
    labels, n = segmentation.slic(img, q['s'], 1.0, q['iters'])
    fnd = []
    if d.get('ok') != '1' or d.get('covered') != '1':
        fnd.append(dict(kind='property', key='index-out-of-bounds:slic', detail=dict(line=line, answer=d)))
    elif str(int(n)) != d.get('k') or labels.min() < 1 or labels.max() > int(n):
        fnd.append(dict(kind='model', key='labeled-real:slic', detail=dict(line=line, answer=d, n=int(n), lo=int(labels.min()), hi=int(labels.max()))))
    return dict(findings=fnd, nontrivial=True, sig=line, tags=dict(kind=REAL_KIND, which='slic', outcome='agree' if not fnd else 'differ'))


def eval_real(case, SRC):
    import mahotas as mh
    q = case['p']
    if case['which'] == 'slic':
        return _eval_real_slic(q)
    line = line_for('labeluf', q)
    d = core.drive([line])[0]
    tags = dict(kind=REAL_KIND, which='label', ndim=len(q['shape']))
    if d.get('ok') != '1':
        return dict(findings=[dict(kind='property', key='index-out-of-bounds:label-union-find', detail=dict(line=line, answer=d))],
                    nontrivial=True, sig=line, tags=tags)
    par = core.ints(d['parents'])
    img = np.array(q['data']).reshape(q['shape'])
    Bc = np.array(q['bc'], bool).reshape(q['bshape'])
    fnd = []
    try:
        lab, nobj = mh.label(img, Bc)
    except ValueError as e:                                       # e.g. a structuring element the wrapper rejects
        return dict(findings=[], nontrivial=False, sig=line, tags=dict(tags, outcome='rejected'))
    lab = lab.ravel()

    def root(i):
        while par[i] != i:
            i = par[i]
        return i
    roots = {}
    ok = True
    for i, v in enumerate(par):
        if v == -1:
            ok &= lab[i] == 0
        else:
            r = root(i)
            ok &= lab[i] != 0 and roots.setdefault(r, int(lab[i])) == int(lab[i])
    ok &= len(set(roots.values())) == len(roots) == int(nobj)
    if not ok:
        fnd.append(dict(kind='model', key='labeled-real:label', detail=dict(line=line, parents=par, real=[int(x) for x in lab], nobj=int(nobj))))
    return dict(findings=fnd, nontrivial=True, sig=line, tags=dict(tags, outcome='agree' if ok else 'differ'))
