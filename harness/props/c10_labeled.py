"""C10, round 4 — the union–find array of `_labeled.cpp: label` (lean/Mahotas/Model/C10Labeled.lean).

model2: the driver's trace of `data[·]` indices (verdict, number, sum, termination, parents after compression) against a DIRECT
Python re-evaluation of `find` / `join` / `compress` / the scan loop of `label` (recursive `find` written from the C++ text, with
an explicit array and a recursion counter); `finduf` cases run one `find` on arbitrary arrays (cycles, out-of-range parents:
out of the domain, model and direct evaluation must agree on ok=0 / term=0).
labeledreal: the partition the traced parents induce against the REAL `mahotas.label` (1–3 D, random Bc): two foreground pixels
have the same root in the model's parent array iff the binary gives them the same label; number of roots = number of objects.
"""
from __future__ import annotations
import itertools, json
import numpy as np
from .. import core, iso

KINDS = ('labeluf', 'finduf')
REAL_KIND = 'labeledreal'


def _csv(v):
    return ','.join(str(int(x)) for x in v) or '-'


class _OutOfFuel(Exception):
    pass


def _find(data, i, acc, fuel):
    """int find(It data, int i) { if (data[i] == i) return i; int j = find(data, data[i]); data[i] = j; return j; }"""
    if fuel[0] == 0:
        acc.append(i)
        raise _OutOfFuel()
    fuel[0] -= 1
    acc.append(i)
    if not (0 <= i < len(data)):
        return None
    if data[i] == i:
        return i
    saved = fuel[0]
    try:
        j = _find(data, data[i], acc, fuel)
    except _OutOfFuel:
        acc.append(i)                    # the trace convention of the Lean definition: every started call is closed
        raise
    fuel[0] = saved                      # the bound is on the DEPTH of one recursion (as `fuel` of the Lean definition)
    acc.append(i)
    if j is not None:
        data[i] = j
    return j


def py_finduf(par, i, fuel):
    data, acc = list(par), []
    try:
        _find(data, i, acc, [fuel])
        term = True
    except _OutOfFuel:
        term = False
    return [(x, len(par)) for x in acc], term, {}


def _offsets(bshape, bc):
    centre = [s // 2 for s in bshape]
    return [[a - c for a, c in zip(k, centre)] for k, b in zip(itertools.product(*[range(s) for s in bshape]), bc) if b]


def py_labeluf(shape, data0, bshape, bc, fuel):
    N = len(data0)
    data = [i if v else -1 for i, v in enumerate(data0)]
    offs = _offsets(bshape, bc)
    acc, term = [], True
    strides = [int(np.prod(shape[d + 1:])) for d in range(len(shape))]
    pos_of = list(itertools.product(*[range(s) for s in shape]))
    try:
        for i in range(N):
            if data[i] == -1:
                continue
            for k in offs:
                q = [a + b for a, b in zip(pos_of[i], k)]
                if not all(0 <= x < s for x, s in zip(q, shape)):
                    continue                                   # ExtendConstant: retrieve() returns false
                v = data[sum(x * st for x, st in zip(q, strides))]
                if v == -1:
                    continue
                ri = _find(data, i, acc, [fuel])               # join(data, i, arr_val)
                rj = _find(data, v, acc, [fuel])
                acc.append(ri)
                data[ri] = rj
        for i in range(N):
            if data[i] != -1:
                _find(data, i, acc, [fuel])
    except _OutOfFuel:
        term = False
    return [(x, N) for x in acc], term, dict(parents=_csv(data)) if term else {}


def line_for(w, q):
    if w == 'finduf':
        return f"c10 kind=finduf par={_csv(q['par'])} i={q['i']}" + (f" fuel={q['fuel']}" if q.get('fuel') is not None else '')
    return (f"c10 kind=labeluf shape={_csv(q['shape'])} data={_csv(q['data'])} bshape={_csv(q['bshape'])} bc={_csv(q['bc'])}"
            + (f" fuel={q['fuel']}" if q.get('fuel') is not None else ''))


def line_and_direct(w, q):
    line = line_for(w, q)
    if w == 'finduf':
        fuel = q['fuel'] if q.get('fuel') is not None else len(q['par']) + 1
        return (line,) + py_finduf(q['par'], q['i'], fuel)
    fuel = q['fuel'] if q.get('fuel') is not None else len(q['data']) + 1
    return (line,) + py_labeluf(q['shape'], q['data'], q['bshape'], q['bc'], fuel)


def _img_case(rng):
    R = rng.randint
    nd = rng.choice([1, 2, 2, 3])
    shape = [R(1, {1: 14, 2: 6, 3: 4}[nd]) for _ in range(nd)]
    p = rng.choice([0.3, 0.6, 0.9, 1.0])
    data = [int(rng.random() < p) * R(1, 5) for _ in range(int(np.prod(shape)))]
    bshape = [rng.choice([1, 3, 3, 3, 2, 5]) for _ in range(nd)]
    bc = [int(rng.random() < rng.choice([0.4, 0.8, 1.0])) for _ in range(int(np.prod(bshape)))]
    return dict(shape=shape, data=data, bshape=bshape, bc=bc, fuel=None)


def model_cases(rng, n):
    out, R = [], rng.randint
    for _ in range(n):
        if rng.random() < 0.7:
            out.append(dict(kind='model2', which='labeluf', p=_img_case(rng), domain=True))
        else:
            # one find: a forest (domain) or an arbitrary array (cycles, -1, out-of-range parents)
            n0 = R(1, 12)
            if rng.random() < 0.6:
                par = [rng.choice([i, R(0, i)]) for i in range(n0)]      # parents point to smaller-or-equal indices: a forest
                q, dom = dict(par=par, i=R(0, n0 - 1), fuel=None), True
            else:
                par = [R(-1, n0) for _ in range(n0)]
                q, dom = dict(par=par, i=R(0, n0 - 1), fuel=rng.choice([None, R(1, 5)])), False
            out.append(dict(kind='model2', which='finduf', p=q, domain=dom))
    return out


def real_cases(rng, n):
    return [dict(kind=REAL_KIND, which='label', p=_img_case(rng)) for _ in range(n)]


def eval_real(case, SRC):
    import mahotas as mh
    q = case['p']
    line = line_for('labeluf', q)
    d = core.drive([line])[0]
    tags = dict(kind=REAL_KIND, which='label', ndim=len(q['shape']))
    if d.get('ok') != '1':
        return dict(findings=[dict(kind='property', key='index-out-of-bounds:label-union-find', detail=dict(line=line, answer=d))],
                    nontrivial=True, sig=line, tags=tags)
    par = core.ints(d['parents'])
    img = np.array(q['data']).reshape(q['shape'])
    Bc = np.array(q['bc'], bool).reshape(q['bshape'])
    fnd = []
    try:
        lab, nobj = mh.label(img, Bc)
    except ValueError as e:                                       # e.g. a structuring element the wrapper rejects
        return dict(findings=[], nontrivial=False, sig=line, tags=dict(tags, outcome='rejected'))
    lab = lab.ravel()

    def root(i):
        while par[i] != i:
            i = par[i]
        return i
    roots = {}
    ok = True
    for i, v in enumerate(par):
        if v == -1:
            ok &= lab[i] == 0
        else:
            r = root(i)
            ok &= lab[i] != 0 and roots.setdefault(r, int(lab[i])) == int(lab[i])
    ok &= len(set(roots.values())) == len(roots) == int(nobj)
    if not ok:
        fnd.append(dict(kind='model', key='labeled-real:label', detail=dict(line=line, parents=par, real=[int(x) for x in lab], nobj=int(nobj))))
    return dict(findings=fnd, nontrivial=True, sig=line, tags=dict(tags, outcome='agree' if ok else 'differ'))
