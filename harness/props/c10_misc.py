"""C10, round 3 — histogram, lbp map, bbox fast path, relabel / remove_regions, distance_multi.

Two kinds of ties for the index models of lean/Mahotas/Model/C10Misc.lean:
  * model2 (delegated from c10.py): the driver's verdict / number / sum of indices / termination / results against the
    functions `py_*` below, which re-evaluate the C++ loops DIRECTLY (written from the C++ text, independently of the
    Lean text), on parameters of the documented domain (must give ok=1) and outside it (signed histogram input,
    `points` > 32, `extrema[3]` above the row length, no `validposition`, a structuring element without neighbours:
    model and direct evaluation must agree on ok=0 — non-vacuity of the checkers);
  * miscreal: the RESULTS the model computes along the way (bin counts, mapped codes, the four/2·nd extrema, the labels
    after remove_regions / relabel, the distances after distance_multi) against the REAL binary on the same input; for
    a structuring element without neighbours the model says `neighbours_delta` reads `rs[0]` of an empty vector — the
    real entry point is run in an isolated ASan worker and must indeed die there.
"""
from __future__ import annotations
import json
import numpy as np
from .. import core, iso

KINDS = ('histogram', 'lbpmap', 'bboxfast', 'bboxgen', 'removeregions', 'relabel', 'distmulti')


def _csv(v):
    return ','.join(str(int(x)) for x in v) or '-'


# ---- direct evaluation of the C++ index expressions ---------------------------------------------------------------

def py_histogram(vals, typ, guard, hsize):
    """_histogram.cpp: py_histogram's switch + compute_histogram; histogram.py: np.zeros(int(img.max()) + 1)"""
    if guard and typ not in (2, 4, 6, 8, 10):          # NPY_UBYTE, NPY_USHORT, NPY_UINT, NPY_ULONG, NPY_ULONGLONG
        return [], True, dict(rejected='1', hsize='-', hist='-')
    if hsize is None:
        hsize = int(max(vals)) + 1
    n = len(vals)
    hist = [0] * max(hsize, 0)
    acc = []
    data = 0
    i = 0
    while i != n:
        acc.append((data, n))
        v = vals[data]
        acc.append((v, hsize))
        if 0 <= v < hsize:
            hist[v] += 1
        data += 1
        i += 1
    return acc, True, dict(rejected='0', hsize=str(hsize), hist=_csv(hist))


M32 = 0xFFFFFFFF


def _roll_right(v, points):
    # (v >> 1) | ((v & 1) << (points-1)) on npy_uint32; a count outside [0,32) is undefined: x86 takes it modulo 32
    return ((v >> 1) | (((v & 1) << ((points - 1) & 31)) & M32)) & M32


def py_lbpmap(points, codes):
    """_lbp.cpp: py_map / map / roll_right"""
    size = len(codes)
    acc, out = [], []
    term = points >= 0                          # for (int i = 0; i != points; ++i)
    for i in range(size):
        acc.append((i, size))
        v = codes[i]
        mn = v
        for _ in range(max(points, 0)):
            acc.append((points - 1, 32))        # the shift count against the word size
            v = _roll_right(v, points)
            if v < mn:
                mn = v
        acc.append((i, size))
        acc.append((mn, 2 ** max(points, 0)))   # lbp.py: pivots / np.arange(2**points) indexed by the code
        out.append(mn)
    return acc, term, dict(map=_csv(out))


def py_bboxfast(n0, n1, img, e3):
    """_bbox.cpp: py_bbox (initialisation, final fill) + carray2_bbox; `array` is the offset of the running pointer"""
    size = n0 * n1
    ext = [n0, 0, n1, e3]
    acc = []
    array = 0
    term = True
    for y in range(n0):
        x = 0
        steps = 0
        while x < n1:
            steps += 1
            if steps > n1 + 1:
                term = False
                break
            acc += [(array, size), (x, n1)]
            if 0 <= array < len(img) and img[array]:
                acc += [(0, 4), (1, 4), (2, 4), (3, 4)]
                ext[0] = min(ext[0], y)
                ext[1] = max(ext[1], y + 1)
                ext[2] = min(ext[2], x)
                if x + 1 < ext[3]:
                    step = ext[3] - x - 1
                    x += step
                    array += step
                else:
                    ext[3] = x + 1
            x += 1
            array += 1
    if ext[1] == 0:
        ext = [0, 0, 0, 0]
    return acc, term, dict(ext=_csv(ext))


def py_bboxgen(shape, img):
    """_bbox.cpp: py_bbox + bbox (generic path)"""
    nd = len(shape)
    ext = []
    acc = []
    for j in range(nd):
        acc += [(j, nd), (2 * j, 2 * nd), (2 * j + 1, 2 * nd)]
        ext += [shape[j], 0]
    for i, b in enumerate(img):
        if b:
            where = np.unravel_index(i, shape) if nd else ()
            for j in range(nd):
                acc += [(j, nd), (2 * j, 2 * nd), (2 * j + 1, 2 * nd)]
                ext[2 * j] = min(ext[2 * j], int(where[j]))
                ext[2 * j + 1] = max(ext[2 * j + 1], int(where[j]) + 1)
    if nd >= 1 and ext[1] == 0:
        ext = [0] * (2 * nd)
    return acc, True, dict(ext=_csv(ext))


def py_removeregions(regions, labeled):
    """_labeled.cpp: remove_regions with libstdc++'s std::binary_search / std::lower_bound"""
    n, nr = len(labeled), len(regions)
    acc, out = [], list(labeled)
    term = True
    for i in range(n):
        acc.append((i, n))
        val = labeled[i]
        if not val:
            continue
        first, ln = 0, nr
        steps = 0
        while ln > 0:
            steps += 1
            if steps > nr + 1:
                term = False
                break
            half = ln >> 1
            middle = first + half
            acc.append((middle, nr))
            if regions[middle] < val:
                first = middle + 1
                ln = ln - half - 1
            else:
                ln = half
        found = False
        if first != nr:
            acc.append((first, nr))
            found = not (val < regions[first])
        if found:
            acc.append((i, n))
            out[i] = 0
    return acc, term, dict(out=_csv(out))


def py_relabel(labeled):
    """_labeled.cpp: relabel"""
    n = len(labeled)
    seen = {0: 0}
    nxt = 1
    acc, out = [], []
    for i in range(n):
        acc += [(i, n), (i, n)]
        val = labeled[i]
        if val not in seen:
            out.append(nxt)
            seen[val] = nxt
            nxt += 1
        else:
            out.append(seen[val])
    return acc, True, dict(out=_csv(out), count=str(nxt - 1))


def _neighbours_delta(bshape, bimg):
    """_morph.cpp: neighbours + neighbours_delta; returns (rs[0] readable?, number of vector accesses, deltas)"""
    centre = tuple(d // 2 for d in bshape)
    rs = []
    for i, b in enumerate(bimg):
        pos = tuple(int(v) for v in np.unravel_index(i, bshape)) if bshape else ()
        if b and pos != centre:
            rs.append([p - c for p, c in zip(pos, centre)])
    if not rs:
        return False, 1, []
    accumulated = list(rs[0])
    for i in range(1, len(rs)):
        rs[i] = [a - b for a, b in zip(rs[i], accumulated)]
        accumulated = [a + b for a, b in zip(accumulated, rs[i])]
    return True, len(rs), rs


def py_distmulti(shape, img, res, bshape, bimg, guard, fuel):
    """_morph.cpp: distance_multi. Positions are lists; every dereference is recorded as the position."""
    okn, nacc, deltas = _neighbours_delta(bshape, bimg)
    if not okn:
        return None, nacc
    nd = len(shape)
    strides = [int(np.prod(shape[r + 1:])) for r in range(nd)]
    n = int(np.prod(shape)) if nd else 1
    res = list(res)
    acc = []

    def valid(p):
        return len(p) == nd and all(0 <= p[d] < shape[d] for d in range(nd))

    def flat(p):
        return sum(max(c, 0) * s for c, s in zip(p, strides))      # the index the model's lists are read at

    def add(a, b):
        return [a[d] + (b[d] if d < len(b) else 0) for d in range(len(a))]

    def euc2(a, b):
        return sum((x - y) ** 2 for x, y in zip(a, b))

    def rd(lst, k, dflt):
        return lst[k] if 0 <= k < len(lst) else dflt

    queue = []

    def scan(first, start, orig):
        nxt = list(start)
        for d in deltas:
            nxt = add(nxt, d)
            if guard and not valid(nxt):
                continue
            k = flat(nxt)
            if first:
                acc.append(list(nxt))
                if not rd(img, k, 0):
                    continue
            dist = euc2(nxt, orig)
            acc.append(list(nxt))
            if rd(res, k, 0) > dist:
                acc.append(list(nxt))
                if 0 <= k < len(res):
                    res[k] = dist
                queue.append((list(nxt), list(orig), dist))

    for i in range(n):
        p = [int(v) for v in np.unravel_index(i, shape)] if nd else []
        acc.append(p)
        if not rd(img, i, 0):
            acc.append(p)
            if i < len(res):
                res[i] = 0
            scan(True, p, p)
    head = 0
    while head < len(queue) and fuel > 0:
        fuel -= 1
        cur, orig, dist = queue[head]
        head += 1
        acc.append(list(cur))
        if rd(res, flat(cur), 0) < dist:
            continue
        scan(False, cur, orig)
    term = head == len(queue)

    def inside(p):
        return len(p) == nd and all(0 <= p[d] < shape[d] for d in range(nd))

    ok = all(inside(p) for p in acc) and term
    sm = sum(sum(c * s for c, s in zip(p, strides)) for p in acc)
    return dict(ok=str(int(ok)), n=str(len(acc)), term=str(int(term)), sum=str(sm), nbok='1', out=_csv(res)), None


# ---- model2 delegation --------------------------------------------------------------------------------------------

def line_for(w, q):
    if w == 'histogram':
        return (f"c10 kind=histogram vals={_csv(q['vals'])} type={q['type']} guard={q['guard']}"
                + (f" hsize={q['hsize']}" if q.get('hsize') is not None else ''))
    if w == 'lbpmap':
        return f"c10 kind=lbpmap points={q['points']} codes={_csv(q['codes'])}"
    if w == 'bboxfast':
        return f"c10 kind=bboxfast n0={q['n0']} n1={q['n1']} img={_csv(q['img'])} e3={q.get('e3', 0)}"
    if w == 'bboxgen':
        return f"c10 kind=bboxgen shape={_csv(q['shape'])} img={_csv(q['img'])}"
    if w == 'removeregions':
        return f"c10 kind=removeregions regions={_csv(q['regions'])} labeled={_csv(q['labeled'])}"
    if w == 'relabel':
        return f"c10 kind=relabel labeled={_csv(q['labeled'])}"
    if w == 'distmulti':
        return (f"c10 kind=distmulti shape={_csv(q['shape'])} img={_csv(q['img'])} res={_csv(q['res'])} "
                f"bshape={_csv(q['bshape'])} bimg={_csv(q['bimg'])} guard={q.get('guard', 1)} fuel={q.get('fuel', 100000)}")
    raise core.Infra(f'unknown misc kind {w}')


class Verbatim(dict):
    """direct evaluation that already is the complete expected answer (no (index, size) list)"""


def line_and_direct(w, q):
    """-> (line, [(index, size)], term, extra) as `_model2_line_and_direct` of c10.py; for `distmulti` the accesses are
    positions, so the expected answer is returned complete in `extra` (marked by the key `_verbatim`)."""
    line = line_for(w, q)
    if w == 'histogram':
        return (line,) + py_histogram(q['vals'], q['type'], q['guard'], q.get('hsize'))
    if w == 'lbpmap':
        return (line,) + py_lbpmap(q['points'], q['codes'])
    if w == 'bboxfast':
        return (line,) + py_bboxfast(q['n0'], q['n1'], q['img'], q.get('e3', 0))
    if w == 'bboxgen':
        return (line,) + py_bboxgen(q['shape'], q['img'])
    if w == 'removeregions':
        return (line,) + py_removeregions(q['regions'], q['labeled'])
    if w == 'relabel':
        return (line,) + py_relabel(q['labeled'])
    if w == 'distmulti':
        want, nacc = py_distmulti(q['shape'], q['img'], q['res'], q['bshape'], q['bimg'], q.get('guard', 1), q.get('fuel', 100000))
        if want is None:
            # rs[0] of an empty vector: one failing access, nothing else runs
            return line, [(0, 0)], True, dict(nbok='0', out='-')
        return line, None, True, Verbatim(want)
    raise core.Infra(f'unknown misc kind {w}')


def _rand_img(rng, n, p=None):
    p = rng.choice([0.1, 0.5, 0.9]) if p is None else p
    return [int(rng.random() < p) for _ in range(n)]


def _bc(rng, nd):
    bshape = [rng.choice([1, 2, 3, 3, 3, 5]) for _ in range(nd)]
    n = int(np.prod(bshape))
    bimg = _rand_img(rng, n, rng.choice([0.4, 0.8, 1.0]))
    return bshape, bimg


def _has_neighbour(bshape, bimg):
    c = int(np.ravel_multi_index(tuple(d // 2 for d in bshape), bshape)) if bshape else 0
    return any(b and i != c for i, b in enumerate(bimg))


def model_cases(rng, n):
    """parameters for the round-3 models; `domain=False` = outside the documented domain (only agreement is required)"""
    out = []
    R = rng.randint
    for _ in range(n):
        w = rng.choice(KINDS)
        dom = True
        if w == 'histogram':
            typ = rng.choice([2, 4, 6, 8, 10])
            hi = {2: 255, 4: 65535}.get(typ, 1 << 20)
            vals = [rng.choice([R(0, 7), R(0, 40), 0, R(0, hi) if typ == 2 else R(0, 300)]) for _ in range(R(1, 30))]
            q = dict(vals=vals, type=typ, guard=1)
            u = rng.random()
            if u < 0.15:                          # a signed dtype: rejected by the switch of py_histogram
                q.update(type=rng.choice([1, 3, 5, 7, 9, 11, 12, 0]), vals=[R(-5, 9) for _ in range(R(1, 12))])
            elif u < 0.35:                        # outside: the switch removed and a negative value present
                vals = [R(-6, 9) for _ in range(R(1, 12))]
                vals[R(0, len(vals) - 1)] = -R(1, 6)
                q.update(type=rng.choice([1, 3, 5, 7]), vals=vals, guard=0)
                dom = False
            elif u < 0.45:                        # outside: fewer bins than max+1 (not what the wrapper allocates)
                q['hsize'] = max(vals) - R(0, 2)
                dom = False
        elif w == 'lbpmap':
            P = rng.choice([1, 2, 3, 4, 6, 8, 12, 16, 24, 31, 32, R(1, 32)])
            q = dict(points=P, codes=[rng.choice([R(0, (1 << P) - 1), 0, (1 << P) - 1, 1 << R(0, P - 1)]) for _ in range(R(0, 8))])
            u = rng.random()
            if u < 0.12:                          # outside: shift count 32 and above / a code with more than P bits
                q['points'] = rng.choice([33, 34, 40, 64])
                q['codes'] = [R(0, M32) for _ in range(R(1, 4))]
                dom = False
            elif u < 0.22:
                P = R(1, 12)
                q = dict(points=P, codes=[(1 << P) << R(0, 3) for _ in range(R(1, 4))])
                dom = False
            elif u < 0.27:
                q = dict(points=0, codes=[0] * R(0, 3))
            elif u < 0.30:
                q = dict(points=-R(1, 3), codes=[R(0, 9)])
                dom = False
        elif w == 'bboxfast':
            n0, n1 = R(0, 7), R(0, 9)
            q = dict(n0=n0, n1=n1, img=_rand_img(rng, n0 * n1, rng.choice([0.05, 0.3, 0.9, 1.0])))
            if rng.random() < 0.15 and n0 * n1 > 0 and any(q['img']):
                q['e3'] = n1 + R(1, 4)            # outside: an initial extrema[3] beyond the row (py_bbox writes 0)
                dom = False
        elif w == 'bboxgen':
            nd = R(0, 4)
            shape = [R(1, 4) for _ in range(nd)]
            q = dict(shape=shape, img=_rand_img(rng, int(np.prod(shape)) if nd else 1))
        elif w == 'removeregions':
            regions = sorted(set(R(-3, 25) for _ in range(R(0, 14))))       # np.unique
            labeled = [rng.choice([0, R(-3, 27), rng.choice(regions) if regions else 1]) for _ in range(R(0, 20))]
            q = dict(regions=regions, labeled=labeled)
            if rng.random() < 0.2:                # unsorted / repeated regions (direct call): indices still in range
                q['regions'] = [R(-3, 25) for _ in range(R(1, 14))]
        elif w == 'relabel':
            q = dict(labeled=[rng.choice([0, R(-4, 9), R(0, 3)]) for _ in range(R(0, 25))])
        else:
            nd = rng.choice([1, 2, 2, 3])
            shape = [R(1, {1: 9, 2: 5, 3: 3}[nd]) for _ in range(nd)]
            nn = int(np.prod(shape))
            bshape, bimg = _bc(rng, nd)
            q = dict(shape=shape, img=_rand_img(rng, nn), res=[rng.choice([10 ** 9, 10 ** 9, R(0, 30)]) for _ in range(nn)],
                     bshape=bshape, bimg=bimg, guard=1)
            u = rng.random()
            if u < 0.12:                          # outside: a structuring element without any neighbour
                q['bimg'] = [0] * len(bimg)
                if rng.random() < 0.5:
                    q['bimg'][int(np.ravel_multi_index(tuple(d // 2 for d in bshape), bshape))] = 1
                dom = False
            elif u < 0.27 and _has_neighbour(bshape, bimg):
                q['guard'] = 0                    # outside: no validposition
                dom = False
            elif u < 0.37:                        # a structuring element of another rank (direct call): the guard still holds
                q['bshape'], q['bimg'] = _bc(rng, rng.choice([r for r in (1, 2, 3) if r != nd]))
            if not _has_neighbour(q['bshape'], q['bimg']):
                dom = False
        out.append(dict(kind='model2', which=w, p=q, domain=dom))
    return out


# ---- ties to the real binary ---------------------------------------------------------------------------------------

UDT = {2: np.uint8, 4: np.uint16, 6: np.uintc, 8: np.uint64, 10: np.ulonglong}


def real_cases(rng, n):
    out = []
    R = rng.randint
    for _ in range(n):
        w = rng.choice(['histogram', 'lbpmap', 'bboxfast', 'bboxgen', 'removeregions', 'relabel', 'distmulti', 'distmulti'])
        if w == 'histogram':
            typ = rng.choice([2, 4, 6, 8, 10])
            q = dict(vals=[rng.choice([R(0, 7), R(0, 200)]) for _ in range(R(1, 40))], type=typ, guard=1)
        elif w == 'lbpmap':
            P = rng.choice([1, 2, 5, 8, 13, 16, 24, 31, 32, R(1, 32)])
            q = dict(points=P, codes=[rng.choice([R(0, (1 << P) - 1), (1 << P) - 1, 1 << R(0, P - 1)]) for _ in range(R(1, 12))])
        elif w == 'bboxfast':
            n0, n1 = R(1, 8), R(1, 12)
            q = dict(n0=n0, n1=n1, img=_rand_img(rng, n0 * n1, rng.choice([0.0, 0.05, 0.3, 0.9, 1.0])), dtype=rng.choice(['bool', 'uint8', 'int32', 'float64']))
        elif w == 'bboxgen':
            nd = rng.choice([1, 3, 4, 2])
            shape = [R(1, 5) for _ in range(nd)]
            q = dict(shape=shape, img=_rand_img(rng, int(np.prod(shape)), rng.choice([0.0, 0.1, 0.5])), dtype=rng.choice(['bool', 'uint8', 'float64']),
                     layout='F' if nd == 2 else rng.choice(['C', 'F']))      # a 2-D C array takes the fast path
        elif w == 'removeregions':
            regions = sorted(set(R(-3, 40) for _ in range(R(0, 20))))
            q = dict(regions=regions, labeled=[rng.choice([0, R(-3, 42), rng.choice(regions) if regions else 1]) for _ in range(R(1, 30))])
        elif w == 'relabel':
            q = dict(labeled=[rng.choice([0, R(-4, 9), R(0, 3)]) for _ in range(R(1, 30))])
        else:
            nd = rng.choice([1, 2, 2, 3])
            shape = [R(1, {1: 12, 2: 6, 3: 4}[nd]) for _ in range(nd)]
            nn = int(np.prod(shape))
            bshape, bimg = _bc(rng, nd)
            q = dict(shape=shape, img=_rand_img(rng, nn), res=[10 ** 9] * nn, bshape=bshape, bimg=bimg, guard=1,
                     layout=rng.choice(['C', 'C', 'F']))
            if rng.random() < 0.06:
                q['bimg'] = [0] * len(bimg)
        out.append(dict(kind='miscreal', which=w, p=q))
    return out


def _real(w, q, src):
    """the observable of the real binary for the case, as the strings the driver prints"""
    import mahotas as mh
    from mahotas import _bbox, _labeled, _morph
    from mahotas.features import _lbp
    if w == 'histogram':
        h = mh.fullhistogram(np.array(q['vals'], UDT[q['type']]))
        return dict(hsize=str(len(h)), hist=_csv(h))
    if w == 'lbpmap':
        return dict(map=_csv(_lbp.map(np.array(q['codes'], np.uint32), q['points'])))
    if w == 'bboxfast':
        a = np.array(q['img']).reshape(q['n0'], q['n1']).astype(q['dtype'])
        assert a.flags.c_contiguous
        return dict(ext=_csv(_bbox.bbox(a)))
    if w == 'bboxgen':
        a = np.array(q['img']).reshape(q['shape']).astype(q['dtype'])
        if q.get('layout') == 'F':
            a = np.asfortranarray(a)
        if a.ndim == 2 and a.flags.c_contiguous:       # would take the fast path (also a Fortran array with a unit axis)
            return None
        return dict(ext=_csv(_bbox.bbox(a)))
    if w == 'removeregions':
        lab = np.array(q['labeled'], np.intc)
        _labeled.remove_regions(lab, np.array(q['regions'], np.intc))
        return dict(out=_csv(lab))
    if w == 'relabel':
        lab = np.array(q['labeled'], np.intc)
        n = _labeled.relabel(lab)
        return dict(out=_csv(lab), count=str(n))
    if w == 'distmulti':
        order = q.get('layout', 'C')
        res = np.array(q['res'], np.float64).reshape(q['shape']).copy(order=order)
        arr = np.array(q['img'], bool).reshape(q['shape']).copy(order=order)
        _morph.distance_multi(res, arr, np.array(q['bimg'], bool).reshape(q['bshape']))
        return dict(out=_csv(res.ravel(order='C')))
    raise core.Infra(w)


def eval_real(case, SRC):
    w, q = case['which'], case['p']
    line = line_for(w, q)
    drv = core.drive([line])[0]
    tags = dict(kind='miscreal', which=w)
    fnd = []
    if 'error' in drv:
        return dict(findings=[dict(kind='model', key='driver:' + w, detail=dict(line=line, answer=drv))], nontrivial=False, sig=line, tags=tags)
    if w == 'distmulti' and drv.get('nbok') == '0':
        # the model: `accumulated = rs[0]` on an empty vector. Run the real entry point isolated under ASan: it must die.
        spec = dict(fn='mahotas._morph.distance_multi', kw={}, args=[
            {'e': f"np.full({tuple(q['shape'])!r}, 1e9)"}, {'e': f"np.array({q['img']!r}, bool).reshape({tuple(q['shape'])!r})"},
            {'e': f"np.array({q['bimg']!r}, bool).reshape({tuple(q['bshape'])!r})"}])
        out = iso.get_worker(SRC['asan'], True).call(spec, 60.0)
        tags['outcome'] = 'empty-Bc:' + out['st']
        if out['st'] not in ('asan', 'signal'):
            fnd.append(dict(kind='model', key='distmulti:empty-neighbourhood-survives',
                            detail=dict(line=line, what='the model reads rs[0] of an empty vector in neighbours_delta, the real call returned', outcome=out.get('st'))))
        return dict(findings=fnd, nontrivial=True, sig=line, tags=tags)
    if drv.get('ok') != '1':
        fnd.append(dict(kind='property', key='index-out-of-bounds:' + w, detail=dict(line=line, answer=drv)))
        return dict(findings=fnd, nontrivial=True, sig=line, tags=tags)
    real = _real(w, q, SRC)
    if real is None:
        return dict(findings=[], nontrivial=False, sig=line, tags=dict(tags, outcome='skipped'))
    bad = {k: (drv.get(k), v) for k, v in real.items() if drv.get(k) != v}
    if bad:
        fnd.append(dict(kind='model', key='misc-real:' + w, detail=dict(line=line, differ=bad)))
    return dict(findings=fnd, nontrivial=True, sig=line, tags=dict(tags, outcome='agree' if not bad else 'differ'))
