"""C10 / B9 — SURF (`mahotas/features/_surf.cpp`): ties of the Lean index models of Model/C10Surf.lean.

  * model2 cases (`which` in KINDS): the driver's verdict / number / sum of indices (+ guard, allocated dims, written
    coordinates, largest int, sample position) against a DIRECT Python re-evaluation of the C++ index expressions below
    (written from the C++ text: floats where the C++ uses doubles, Fractions where the model uses exact rationals);
    parameters of the documented domain must give ok=1 — since the repair 6faa5ae of `sum_rect` (two-sided clamps, empty
    image not read) that is EVERY sum_rect / csum_rect / haar / descriptor-sample parameter, windows before or beyond the
    image, INT_MIN and small descriptor scales included —, parameters outside it (negative border, step 0) only have to
    agree (non-vacuity of the checkers).
  * surfreal cases: the REAL binary. `_surf.sum_rect(integral, y0, x0, y1, x1)` on ARBITRARY int arguments (windows that
    leave the image on any side, empty images) against `(D - B) - (C - A)` at the model's clamped coordinates (0 for an
    empty image); `_surf.pyramid(...)`: the allocated shapes against the model's `dims`, and the support of the written
    values inside the set of coordinates the model writes; `surf.interest_points`: every point inside the image.
"""
from __future__ import annotations
import json, math
from fractions import Fraction
import numpy as np
from .. import core

KINDS = ('sumrect', 'csumrect', 'surfhaar', 'surfpyramid', 'ipscan', 'surfdesc', 'descsample')
INT_MAX = 2 ** 31 - 1


def _csv(v):
    return ','.join(str(int(x)) for x in v) or '-'


def _cdiv(a, b):
    q = abs(a) // abs(b)
    return q if (a >= 0) == (b >= 0) else -q


def _i32(v):
    """C int arithmetic as compiled with -fno-strict-overflow"""
    return (v + 2 ** 31) % 2 ** 32 - 2 ** 31


# ---- direct re-evaluation of the C++ index expressions --------------------------------------------------------

def _py_sum_rect(n0, n1, y0, x0, y1, x1, wrap=False):
    """sum_rect as repaired by 6faa5ae: an empty image is not read, all four corners are clamped into the image"""
    w = _i32 if wrap else (lambda v: v)
    if n0 <= 0 or n1 <= 0:
        return []
    y0 = min(max(w(y0 - 1), 0), n0 - 1)
    x0 = min(max(w(x0 - 1), 0), n1 - 1)
    y1 = min(max(w(y1 - 1), 0), n0 - 1)
    x1 = min(max(w(x1 - 1), 0), n1 - 1)
    return [(y0, n0), (x0, n1), (y0, n0), (x1, n1), (y1, n0), (x0, n1), (y1, n0), (x1, n1)]


def _py_csum_rect(n0, n1, y, x, dy, dx, h, w):
    y0 = y + dy - _cdiv(h, 2)
    x0 = x + dx - _cdiv(w, 2)
    return _py_sum_rect(n0, n1, y0, x0, y0 + h, x0 + w)


def _py_haar_x(n0, n1, y, x, w):
    return (_py_sum_rect(n0, n1, y - _cdiv(w, 2), x - _cdiv(w, 2), (y - _cdiv(w, 2)) + w, x) +
            _py_sum_rect(n0, n1, y - _cdiv(w, 2), x, (y - _cdiv(w, 2)) + w, (x - _cdiv(w, 2)) + w))


def _py_haar_y(n0, n1, y, x, w):
    return (_py_sum_rect(n0, n1, y - _cdiv(w, 2), x - _cdiv(w, 2), y, (x - _cdiv(w, 2)) + w) +
            _py_sum_rect(n0, n1, y, x - _cdiv(w, 2), (y - _cdiv(w, 2)) + w, (x - _cdiv(w, 2)) + w))


def _get_border_size(octave, nr_intervals):
    lobe_size = math.pow(2.0, octave + 1.0) * (nr_intervals + 1) + 1
    filter_size = 3 * lobe_size
    return int(math.ceil(filter_size / 2.0))


def _get_step_size(initial_step_size, octave):
    return initial_step_size * int(math.pow(2.0, float(octave)) + 0.5)


def _check_pyramid_parameters(nr_octaves, nr_intervals, initial_step_size):
    ok = nr_octaves > 0 and nr_octaves <= 30 and nr_intervals > 0 and initial_step_size > 0
    if ok:
        max_step = initial_step_size * math.pow(2.0, nr_octaves - 1.0)
        max_border = 1.5 * (math.pow(2.0, float(nr_octaves)) * (nr_intervals + 1.0) + 1) + 1
        ok = max_step * max_border < INT_MAX
    return ok


def _py_pyramid(n0, n1, noct, nint, init, noguard):
    """-> (accesses, term, extra, written) ; written = set of (o, i, r, c)"""
    guard = _check_pyramid_parameters(noct, nint, init)
    if not guard and not noguard:
        return [], True, dict(guard='0', dims='-', wsum='0', imax='0', imin='1'), set()
    acc, dims, written, term = [], [], set(), True
    wsum, imax, imin = 0, 0, 1
    for o in range(max(noct, 0)):
        step_size = _get_step_size(init, o)
        d1 = _cdiv(n0, step_size) if step_size else 0        # the model's division by zero is 0 (real code: SIGFPE)
        d2 = _cdiv(n1, step_size) if step_size else 0
        dims += [d1, d2]
        if step_size <= 0:
            term = False
    for o in range(max(noct, 0)):
        acc.append((o, noct))
        step_size = _get_step_size(init, o)
        bs = _get_border_size(o, nint)
        border_size = bs * step_size
        d1 = _cdiv(n0, step_size) if step_size else 0
        d2 = _cdiv(n1, step_size) if step_size else 0
        for i in range(max(nint, 0)):
            lobe_size = int(math.pow(2.0, o + 1.0) + 0.5) * (i + 1) + 1
            lobe_offset = _cdiv(lobe_size, 2) + 1
            for v in (step_size, bs, border_size, lobe_size, lobe_offset):
                imax, imin = max(imax, v), min(imin, v)
            if step_size <= 0:
                continue
            for y in range(border_size, n0 - border_size, step_size):
                for x in range(border_size, n1 - border_size, step_size):
                    acc += _py_csum_rect(n0, n1, y, x, 0, 0, 2 * lobe_size - 1, 3 * lobe_size)
                    acc += _py_csum_rect(n0, n1, y, x, 0, 0, 2 * lobe_size - 1, lobe_size)
                    acc += _py_csum_rect(n0, n1, y, x, 0, 0, 3 * lobe_size, 2 * lobe_size - 1)
                    acc += _py_csum_rect(n0, n1, y, x, 0, 0, lobe_size, 2 * lobe_size - 1)
                    acc += _py_csum_rect(n0, n1, y, x, -lobe_offset, +lobe_offset, lobe_size, lobe_size)
                    acc += _py_csum_rect(n0, n1, y, x, +lobe_offset, -lobe_offset, lobe_size, lobe_size)
                    acc += _py_csum_rect(n0, n1, y, x, +lobe_offset, +lobe_offset, lobe_size, lobe_size)
                    acc += _py_csum_rect(n0, n1, y, x, -lobe_offset, -lobe_offset, lobe_size, lobe_size)
                    r, c = _cdiv(y, step_size), _cdiv(x, step_size)
                    acc += [(i, nint), (r, d1), (c, d2)]
                    wsum += i + r + c
                    written.add((o, i, r, c))
    return acc, term, dict(guard=str(int(guard)), dims=_csv(dims), wsum=str(wsum), imax=str(imax), imin=str(imin)), written


def _py_ipscan(nint, nr, nc, bs):
    acc = []

    def get_value(i, r, c):
        acc.extend([(i, nint), (r, nr), (c, nc)])

    def candidate(i, r, c):
        # is_maximum_in_region
        if i <= 0 or i + 1 >= nint:
            return
        get_value(i, r, c)
        for ii in range(i - 1, i + 2):
            for rr in range(r - 1, r + 2):
                for cc in range(c - 1, c + 2):
                    get_value(ii, rr, cc)
        # interpolate_point
        get_value(i, r, c)
        get_value(i, r, c + 1); get_value(i, r, c - 1)
        get_value(i, r + 1, c); get_value(i, r - 1, c)
        get_value(i + 1, r, c); get_value(i - 1, r, c)
        get_value(i, r + 1, c + 1); get_value(i, r - 1, c - 1); get_value(i, r - 1, c + 1); get_value(i, r + 1, c - 1)
        get_value(i + 1, r, c + 1); get_value(i - 1, r, c - 1); get_value(i - 1, r, c + 1); get_value(i + 1, r, c - 1)
        get_value(i + 1, r + 1, c); get_value(i - 1, r - 1, c); get_value(i - 1, r + 1, c); get_value(i + 1, r - 1, c)
        get_value(i, r + 1, c); get_value(i, r - 1, c)
        get_value(i, r, c + 1); get_value(i, r, c - 1)
        get_value(i + 1, r, c); get_value(i - 1, r, c)
        get_value(i, r, c); get_value(i, r, c)          # score, laplacian

    for i in range(1, nint - 1, 3):
        for r in range(bs + 1, nr - bs - 1, 3):
            for c in range(bs + 1, nc - bs - 1, 3):
                get_value(i, r, c)
                for ii in range(i, min(i + 3, nint - 1)):
                    for rr in range(r, min(r + 3, nr - bs - 1)):
                        for cc in range(c, min(c + 3, nc - bs - 1)):
                            get_value(ii, rr, cc)
                            candidate(ii, rr, cc)       # every block element may become (max_i, max_r, max_c)
    return acc


def _py_surfdesc():
    acc, count = [], 0
    for r in range(-10, 10, 5):
        for c in range(-10, 10, 5):
            for _ in range(4):
                acc.append((count, 64))
                count += 1
    nangle = sum(1 for r in range(-6, 7) for c in range(-6, 7) if r * r + c * c < 36)
    return acc, nangle


def _ctrunc(q):
    return math.floor(q) if q >= 0 else -math.floor(-q)


def _py_descsample(n0, n1, cy, cx, s, sn, cs, x, y):
    border_size = math.floor(31 * s) // 2
    guard = border_size <= cy and cy + border_size < n0 and border_size <= cx and cx + border_size < n1
    # p = rotate_point(double_v2(x*scale, y*scale), sin, cos) + center   [double_v2(a, b): .y() = a, .x() = b]
    p_y, p_x = x * s, y * s
    q_y = cs * p_x - sn * p_y + cy
    q_x = sn * p_x + cs * p_y + cx
    iy, ix, w = _ctrunc(q_y), _ctrunc(q_x), _ctrunc(2 * s + Fraction(1, 2))
    return _py_haar_x(n0, n1, iy, ix, w) + _py_haar_y(n0, n1, iy, ix, w), dict(guard=str(int(guard)), py=str(iy), px=str(ix), w=str(w))


def _fr(p):
    return Fraction(int(p[0]), int(p[1]))


def line_and_direct(w, q):
    """-> (driver line, [(index, size)], term, extra)"""
    if w == 'sumrect':
        return (f"c10 kind=sumrect n0={q['n0']} n1={q['n1']} y0={q['y0']} x0={q['x0']} y1={q['y1']} x1={q['x1']}",
                _py_sum_rect(q['n0'], q['n1'], q['y0'], q['x0'], q['y1'], q['x1'], wrap=True), True, {})
    if w == 'csumrect':
        return (f"c10 kind=csumrect n0={q['n0']} n1={q['n1']} y={q['y']} x={q['x']} dy={q['dy']} dx={q['dx']} h={q['h']} w={q['w']}",
                _py_csum_rect(q['n0'], q['n1'], q['y'], q['x'], q['dy'], q['dx'], q['h'], q['w']), True, {})
    if w == 'surfhaar':
        return (f"c10 kind=surfhaar n0={q['n0']} n1={q['n1']} y={q['y']} x={q['x']} w={q['w']}",
                _py_haar_x(q['n0'], q['n1'], q['y'], q['x'], q['w']) + _py_haar_y(q['n0'], q['n1'], q['y'], q['x'], q['w']), True, {})
    if w == 'surfpyramid':
        acc, term, extra, _ = _py_pyramid(q['n0'], q['n1'], q['noct'], q['nint'], q['init'], q.get('noguard', 0))
        return (f"c10 kind=surfpyramid n0={q['n0']} n1={q['n1']} noct={q['noct']} nint={q['nint']} init={q['init']} noguard={q.get('noguard', 0)}",
                acc, term, extra)
    if w == 'ipscan':
        return (f"c10 kind=ipscan nint={q['nint']} nr={q['nr']} nc={q['nc']} bs={q['bs']}", _py_ipscan(q['nint'], q['nr'], q['nc'], q['bs']), True, {})
    if w == 'surfdesc':
        acc, nangle = _py_surfdesc()
        return 'c10 kind=surfdesc', acc, True, dict(nangle=str(nangle))
    if w == 'descsample':
        acc, extra = _py_descsample(q['n0'], q['n1'], _fr(q['cy']), _fr(q['cx']), _fr(q['s']), _fr(q['sn']), _fr(q['cs']), q['x'], q['y'])
        return (f"c10 kind=descsample n0={q['n0']} n1={q['n1']} cy={_csv(q['cy'])} cx={_csv(q['cx'])} s={_csv(q['s'])} sn={_csv(q['sn'])} "
                f"cs={_csv(q['cs'])} x={q['x']} y={q['y']}", acc, True, extra)
    raise core.Infra(f'unknown SURF model kind {w}')


# ---- the REAL binary -------------------------------------------------------------------------------------------

def _img(seed, n0, n1):
    return np.random.RandomState(seed).randint(0, 255, size=(n0, n1)).astype(np.float64)


def evaluate_real(case):
    from mahotas.features import surf, _surf
    what = case['what']
    fnd = []
    if what == 'sum_rect':
        n0, n1 = case['shape']
        fi = surf.integral(_img(case['seed'], n0, n1))
        lines = [f"c10 kind=sumrect n0={n0} n1={n1} y0={a[0]} x0={a[1]} y1={a[2]} x1={a[3]}" for a in case['args']]
        drv = core.drive(lines)
        nn = 0
        for a, d, ln in zip(case['args'], drv, lines):
            acc = _py_sum_rect(n0, n1, *a, wrap=True)
            ok = all(0 <= i < n for i, n in acc)
            if 'error' in d or d.get('ok') != str(int(ok)):
                fnd.append(dict(kind='model', key='bounds-model2:sumrect', detail=dict(line=ln, answer=d, direct_ok=ok)))
                break
            if not ok:                   # cannot happen any more (two-sided clamps): the model and the re-evaluation would be wrong
                fnd.append(dict(kind='model', key='bounds-model2:sumrect-not-ok', detail=dict(line=ln, answer=d)))
                break
            if acc:
                (ya, _), (xa, _), _, (xb, _), (yb, _) = acc[0], acc[1], acc[2], acc[3], acc[4]
                want = (fi[yb, xb] - fi[ya, xb]) - (fi[yb, xa] - fi[ya, xa])
            else:
                want = 0.0               # empty image: `return 0.` before any read
            got = _surf.sum_rect(fi, *a)
            nn += 1
            if got != want:
                fnd.append(dict(kind='model', key='surf:sum_rect-value', detail=dict(shape=[n0, n1], args=a, real=got, at_model_coordinates=want)))
                break
        return dict(findings=fnd, nontrivial=nn > 0, sig=json.dumps(case, sort_keys=True), n=nn, tags=dict(kind='surfreal', what=what))
    if what == 'pyramid':
        n0, n1 = case['shape']
        noct, nint, init = case['noct'], case['nint'], case['init']
        f = _img(case['seed'], n0, n1)
        acc, term, extra, written = _py_pyramid(n0, n1, noct, nint, init, 0)
        line = f"c10 kind=surfpyramid n0={n0} n1={n1} noct={noct} nint={nint} init={init} noguard=0"
        d = core.drive([line])[0]
        okm = all(0 <= i < n for i, n in acc) and term
        want = dict(ok=str(int(okm)), n=str(len(acc)), sum=str(sum(i for i, _ in acc)), **extra)
        bad = {k: (d.get(k), v) for k, v in want.items() if d.get(k) != v}
        if 'error' in d or bad:
            fnd.append(dict(kind='model', key='bounds-model2:surfpyramid', detail=dict(line=line, differ=bad)))
        try:
            pyr = _surf.pyramid(surf.integral(f), noct, nint, init)
        except ValueError:
            pyr = None
        if (pyr is None) != (extra['guard'] == '0'):
            fnd.append(dict(kind='model', key='surf:pyramid-guard', detail=dict(case=case, model_guard=extra['guard'], real_raised=pyr is None)))
        elif pyr is not None:
            shapes = [list(p.shape) for p in pyr]
            dims = core.ints(extra['dims']) if extra['dims'] != '-' else []
            wantshapes = [[nint, dims[2 * o], dims[2 * o + 1]] for o in range(noct)]
            if shapes != wantshapes:
                fnd.append(dict(kind='model', key='surf:pyramid-shape', detail=dict(case=case, real=shapes, model=wantshapes)))
            else:
                for o, p in enumerate(pyr):
                    sup = {(o, int(i), int(r), int(c)) for i, r, c in zip(*np.nonzero(p))}
                    if not sup <= written:
                        fnd.append(dict(kind='property', key='surf:pyramid-write-outside-model',
                                        detail=dict(case=case, octave=o, extra=sorted(sup - written)[:5])))
                        break
        return dict(findings=fnd, nontrivial=pyr is not None and len(written) > 0, sig=json.dumps(case, sort_keys=True), n=len(acc),
                    tags=dict(kind='surfreal', what=what, guard=extra['guard'], written=min(len(written), 1) and 'some' or 'none'))
    if what == 'interest_points':
        n0, n1 = case['shape']
        f = _img(case['seed'], n0, n1)
        pts = surf.interest_points(f, case['noct'], case['nint'], case['init'], threshold=case['threshold'], max_points=None)
        # every reported point stems from a pyramid coordinate (r + |inter| < .5) * step inside the scanned region
        badp = [list(map(float, p[:3])) for p in pts if not (0 <= p[0] < n0 and 0 <= p[1] < n1 and p[2] > 1.6)]
        if badp:
            fnd.append(dict(kind='model', key='surf:interest-point-outside', detail=dict(case=case, points=badp[:5])))
        return dict(findings=fnd, nontrivial=len(pts) > 0, sig=json.dumps(case, sort_keys=True), n=len(pts),
                    tags=dict(kind='surfreal', what=what, points='some' if len(pts) else 'none'))
    raise core.Infra(f'unknown surfreal case {what}')


# ---- cases -----------------------------------------------------------------------------------------------------

_TRIPLES = [(0, 1, 1), (3, 4, 5), (5, 12, 13), (8, 15, 17), (7, 24, 25), (20, 21, 29), (12, 35, 37), (119, 120, 169)]


def _rot(rng):
    a, b, c = rng.choice(_TRIPLES)
    if rng.random() < 0.5:
        a, b = b, a
    return [rng.choice([-1, 1]) * a, c], [rng.choice([-1, 1]) * b, c]


def _sumrect_args(rng, n0, n1):
    R = rng.randint
    lo = [-2 ** 31 + 1, -10 ** 6, -60]            # fine for y0/x0 (clamped to 0)
    hi = [2 ** 31 - 1, 10 ** 6, 60, -2 ** 31]     # fine for y1/x1 (clamped to N-1; INT_MIN wraps to INT_MAX)
    if rng.random() < 0.6:                        # windows meeting the image (the pinned domain), also far outside on the sides the pinned clamps covered
        y0 = rng.choice([R(-5, n0), R(-5, n0), rng.choice(lo), n0])
        x0 = rng.choice([R(-5, n1), R(-5, n1), rng.choice(lo), n1])
        y1 = rng.choice([max(1, y0 + R(0, 9)), R(1, n0 + 3), rng.choice(hi), 1])
        x1 = rng.choice([max(1, x0 + R(0, 9)), R(1, n1 + 3), rng.choice(hi), 1])
    else:
        far = [-2 ** 31, -2 ** 31 + 1, 2 ** 31 - 1, -10 ** 6, 10 ** 6]
        y0 = rng.choice([R(-5, n0 + 3), R(-60, 60), rng.choice(far), 0, n0, n0 + 1])
        x0 = rng.choice([R(-5, n1 + 3), R(-60, 60), rng.choice(far), 0, n1, n1 + 1])
        y1 = rng.choice([y0 + R(0, 9), R(-5, n0 + 3), R(-60, 60), rng.choice(far), 0, 1])
        x1 = rng.choice([x0 + R(0, 9), R(-5, n1 + 3), R(-60, 60), rng.choice(far), 0, 1])
    return [max(-2 ** 31, min(2 ** 31 - 1, v)) for v in (y0, x0, y1, x1)]


def _pyr_samples(n0, n1, noct, nint, init):
    """number of (i, y, x) samples the fill loops visit"""
    tot = 0
    for o in range(noct):
        st = _get_step_size(init, o)
        b = _get_border_size(o, nint) * st
        tot += nint * len(range(b, n0 - b, st)) * len(range(b, n1 - b, st))
    return tot


def _pyr_shape(rng, noct, nint, init):
    """image sizes around twice the border of some octave (where the loops begin to run), at most ~3000 samples"""
    R = rng.randint
    o = rng.randrange(noct)
    b = _get_border_size(o, nint) * _get_step_size(init, o)
    n0, n1 = rng.choice([R(0, 12), 2 * b + R(-2, 6), 2 * b + R(1, 12)]), rng.choice([R(0, 12), 2 * b + R(-2, 6), 2 * b + R(1, 12)])
    n0, n1 = max(n0, 0), max(n1, 0)
    while _pyr_samples(n0, n1, noct, nint, init) > 3000:
        n0, n1 = (n0 - max(1, n0 // 8), n1) if n0 >= n1 else (n0, n1 - max(1, n1 // 8))
    return n0, n1


def cases(rng, tier):
    nmodel = dict(quick=200, thorough=2000, search=0)[tier]
    nreal = dict(quick=40, thorough=400, search=0)[tier]
    R = rng.randint
    out = []
    kinds = ['sumrect', 'sumrect', 'csumrect', 'surfhaar', 'surfpyramid', 'surfpyramid', 'ipscan', 'descsample', 'descsample']
    out.append(dict(kind='model2', which='surfdesc', p={}, domain=True))
    for _ in range(nmodel):
        w = rng.choice(kinds)
        dom = True
        if w == 'sumrect':
            n0, n1 = rng.choice([0, 1, 1, R(1, 12), R(1, 40)]), rng.choice([0, 1, R(1, 12), R(1, 40), R(1, 40)])
            y0, x0, y1, x1 = _sumrect_args(rng, n0, n1)
            q = dict(n0=n0, n1=n1, y0=y0, x0=x0, y1=y1, x1=x1)
            dom = True            # C10_surf_sum_rect_entry_in_bounds: every window, every image size
        elif w == 'csumrect':
            n0, n1 = rng.choice([0, R(1, 30), R(1, 30), R(1, 30)]), R(0, 30)
            q = dict(n0=n0, n1=n1, y=R(-3, n0 + 2), x=R(-3, n1 + 2), dy=R(-6, 6), dx=R(-6, 6), h=R(-2, 15), w=R(-2, 15))
            dom = True            # C10_surf_csum_rect_in_bounds
        elif w == 'surfhaar':
            n0, n1 = R(0, 30), rng.choice([0, R(1, 30), R(1, 30), R(1, 30)])
            q = dict(n0=n0, n1=n1, y=R(-2, n0 + 2), x=R(-2, n1 + 2), w=rng.choice([0, 0, 1, 2, 2, 4, 6, R(0, 40), -2]))
            dom = True            # C10_surf_haar_in_bounds: rows / columns 0 and negative windows included
        elif w == 'surfpyramid':
            noct, nint, init = rng.choice([1, 1, 2, 3]), rng.choice([1, 2, 3]), rng.choice([1, 1, 2, 3])
            n0, n1 = _pyr_shape(rng, noct, nint, init)
            q = dict(n0=n0, n1=n1, noct=noct, nint=nint, init=init)
            z = rng.random()
            if z < 0.12:          # rejected by check_pyramid_parameters: nothing may be accessed
                q.update(rng.choice([dict(noct=0), dict(nint=0), dict(init=0), dict(noct=31), dict(init=-1), dict(noct=30, nint=6),
                                     dict(noct=1, nint=2 ** 30), dict(init=2 ** 28, noct=2)]))
                q['n0'], q['n1'] = R(0, 9), R(0, 9)
            elif z < 0.2:         # outside the domain, guard ignored: a step of 0 never terminates (term=0)
                q.update(init=0, noguard=1)
                dom = False
            elif z < 0.3:         # extreme but accepted parameters on a tiny image: no int may overflow (imax)
                q.update(rng.choice([dict(noct=1, nint=7 * 10 ** 8, init=1), dict(noct=1, nint=1, init=10 ** 8), dict(noct=27, nint=1, init=1),
                                     dict(noct=12, nint=50, init=3)]))
                q['n0'], q['n1'] = R(0, 9), R(0, 9)
                if q['nint'] > 1000:
                    q['nint'] = 1000 if q['noct'] == 1 else q['nint']      # the model enumerates the intervals
        elif w == 'ipscan':
            nint = rng.choice([0, 1, 2, 3, 3, 4, 5, 6, 7, 8])
            bs = rng.choice([0, 1, 2, 8, 8])
            q = dict(nint=nint, nr=rng.choice([R(0, 8), 2 * bs + R(3, 11), 2 * bs + R(3, 11)]), nc=rng.choice([R(0, 8), 2 * bs + R(3, 11), 2 * bs + R(3, 11)]), bs=bs)
            if rng.random() < 0.15:
                q['bs'] = -R(1, 3)
                dom = False
        else:
            s = rng.choice([[1, 1], [3, 2], [3, 2], [2, 1], [8, 5], [1, 2], [1, 20], [3, 25], [7, 5], [5, 2], [R(1, 40), 10]])
            bsz = (31 * s[0] // s[1]) // 2
            n0, n1 = rng.choice([R(1, 70), 2 * bsz + R(1, 30), 2 * bsz + R(1, 30)]), rng.choice([R(1, 70), 2 * bsz + R(1, 30), 2 * bsz + R(1, 30)])
            cy = rng.choice([[bsz, 1], [R(0, n0), 1], [2 * R(0, n0) + 1, 2], [max(n0 - bsz - 1, 0), 1]])
            cx = rng.choice([[bsz, 1], [R(0, n1), 1], [2 * R(0, n1) + 1, 2], [max(n1 - bsz - 1, 0), 1]])
            sn, cs = _rot(rng)
            q = dict(n0=n0, n1=n1, cy=cy, cx=cx, s=s, sn=sn, cs=cs, x=rng.choice([-10, -10, 9, R(-10, 9)]), y=rng.choice([-10, -10, 9, R(-10, 9)]))
            _, ex = _py_descsample(n0, n1, _fr(cy), _fr(cx), _fr(s), _fr(sn), _fr(cs), q['x'], q['y'])
            # every sample is safe since 6faa5ae, whatever the border test says and for every scale
            # (C10_surf_descriptor_windows_in_bounds; on the pinned clamps only scale >= 3/2 behind the border test was)
            dom = True
        out.append(dict(kind='model2', which=w, p=q, domain=bool(dom)))
    for k in range(nreal):
        z = k % 4
        if z < 2:
            n0, n1 = rng.choice([0, R(1, 25), R(1, 25), R(1, 25), R(1, 25)]), rng.choice([0, R(1, 25), R(1, 25), R(1, 25), R(1, 25), R(1, 25)])
            out.append(dict(kind='surfreal', what='sum_rect', shape=[n0, n1], seed=rng.randrange(1 << 30),
                            args=[_sumrect_args(rng, n0, n1) for _ in range(40)]))
        elif z == 2:
            noct, nint, init = rng.choice([1, 1, 2]), rng.choice([1, 2, 3]), rng.choice([1, 1, 2, 3])
            n0, n1 = _pyr_shape(rng, noct, nint, init)
            c = dict(kind='surfreal', what='pyramid', shape=[max(n0, 1), max(n1, 1)], seed=rng.randrange(1 << 30), noct=noct, nint=nint, init=init)
            if rng.random() < 0.15:
                c.update(rng.choice([dict(noct=0), dict(nint=0), dict(init=0), dict(noct=31), dict(noct=30, nint=6)]))
            out.append(c)
        else:
            out.append(dict(kind='surfreal', what='interest_points', shape=[R(50, 110), R(50, 110)], seed=rng.randrange(1 << 30),
                            noct=rng.choice([1, 2, 3]), nint=rng.choice([3, 4, 6]), init=rng.choice([1, 2]), threshold=rng.choice([0.0, 0.0, 0.1, 10.0])))
    return out
