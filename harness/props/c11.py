"""C11 — invalid or degenerate arguments fail well: an exception, never a crash or hang.

Level `other`: the LOGIC part — the argument guards of the Python wrappers and native entry points, extracted from the
current source by translator/guards.py into Generated/Guards.lean, imply the kernels' preconditions (Properties/C11.lean)
— is proved in Lean; the RUNTIME part is validated here: every public function x argument tuples from the degenerate
grammar of harness/catalog.py, each executed in an isolated worker (ASan build of the current tree) with a wall-clock
limit. Outcome `value` or `exception` is fine; signal / AddressSanitizer report / timeout / an interpreter that no longer
answers a reference call is a violation and the call that was running is the replay.
The guard model is tied to the code by `guards` cases: the Lean interpreter of the extracted guards is run on the
descriptor of the actual arguments; when it rejects, the real call must raise."""
from __future__ import annotations
import inspect, json
import numpy as np
from .. import core, iso, catalog, specs

ID = 'C11'
LEVEL = 'other'
RULE = ('corpus; then every public function of harness/catalog.py (all of mahotas.__all__ + submodule APIs) x argument tuples of the degenerate '
        'grammar: a valid call in which 1-3 arguments are replaced by ndim 0-5 arrays, zero-length axes, mismatched shapes/ranks between paired '
        'arguments, dtypes float16/complex/object/str/datetime/structured/longdouble, non-arrays, and extreme scalars (0, -1, +-2^31, 2^63, 2^64+1, '
        'nan, inf, 1e300, None, str, list); plus, directed, every array argument of every function in turn in the dtypes no kernel is instantiated for '
        '(rest of the call valid); isolated ASan workers, 20 s limit. Non-trivial = the call was rejected by an exception or returned; '
        'distinct = distinct (function, mutation classes, argument specs).')
ASSUMPTIONS = ['array VALUES are finite and moderate (the statement quantifies over dimensionality, dtype, size and scalar parameters, not over NaN/huge pixel values)',
               'legitimately expensive calls are excluded by the cost model `too_expensive` (documented per parameter), not by the timeout',
               'allocations above 1 GiB fail with MemoryError in the workers (ASan max_allocation_size_mb / RLIMIT_AS) — treated as an exception outcome',
               'an AddressSanitizer report counts as "can crash or corrupt the interpreter" even when the plain build happens to survive the access']
TRUSTED = ['clang 14 AddressSanitizer runtime', 'harness/iso.py worker isolation and wall-clock limit', 'translator/guards.py (guard extraction)']
EXPLANATION = ('proved in Lean: wrapper and native guards extracted from the current source imply the kernel preconditions and, composed with C10, in-bounds accesses of the index models; '
               'every extracted guard exit is an exception or an early successful return (decided over the generated table); '
               'validated only: that no degenerate call crashes, hangs or corrupts the interpreter (isolated ASan workers)')

SRC = {}
TIMEOUT = 20.0

# (function, argument class) pairs whose cost is legitimately unbounded: excluded from generation, never by the timeout.
#   cdilate n: the wrapper runs n dilations; thin max_iter / slic max_iters converge early and are NOT excluded.
COST_LINEAR = {('mahotas.cdilate', 'n'): 64, ('mahotas.features.lbp.lbp', 'points'): 4096, ('mahotas.features.lbp.lbp_transform', 'points'): 4096,
               ('mahotas.features.zernike.zernike_moments', 'degree'): 64, ('mahotas.disk', 'radius'): 2000,
               ('mahotas.thresholding.bernsen', 'radius'): 2000, ('mahotas.labeled.remove_bordering', 'rsize'): 10 ** 9}


def setup(src):
    SRC['plain'] = src
    SRC['asan'] = core.stage_build(asan=True)


def _short(fn):
    return fn.split('.')[-1]


_names = {}


def param_names(fn):
    """positional parameter names and optional parameter names of a public function (from the staged build)"""
    if fn not in _names:
        import importlib
        parts = fn.split('.')
        obj = None
        for i in range(len(parts) - 1, 0, -1):
            try:
                obj = importlib.import_module('.'.join(parts[:i]))
            except ImportError:
                continue
            for p in parts[i:]:
                obj = getattr(obj, p)
            break
        try:
            ps = list(inspect.signature(obj).parameters.values())
            names = [p.name for p in ps]
            opt = [p.name for p in ps if p.default is not inspect._empty and p.name not in ('output',)]
        except Exception:
            names, opt = [], []
        _names[fn] = (names, opt)
    return _names[fn]


def _value_of(a):
    if 'v' in a:
        return a['v']
    if 'e' in a:
        try:
            return specs.build(a)
        except Exception:
            return None
    return None


def too_expensive(spec):
    """cost model: parameters that legitimately multiply the running time"""
    names, _ = param_names(spec['fn'])
    bound = dict(zip(names, spec['args']))
    bound.update(spec['kw'])
    for (fn, p), cap in COST_LINEAR.items():
        if fn == spec['fn'] and p in bound:
            v = _value_of(bound[p])
            if isinstance(v, (int, float)) and not isinstance(v, bool) and v == v and abs(v) > cap:
                return f'{p}>{cap}'
    return None


# the keys under which the defects found at design time were filed (DESIGN.md section 6); everything else gets the generic key
def _alias(fn, muts, sig):
    short = _short(fn)
    cls = {c for _, c in muts}
    base = {c.split(':')[-1] if c.startswith('was-none:') else c for c in cls}
    nd = any(c.startswith('ndim') for c in base)
    if short == 'distance' and 'zero-size' in base:
        return 'distance:zero-size-SIGFPE'
    if short == 'distance' and '0d' in base:
        return 'distance:0d-SIGSEGV'
    if short in ('template_match', 'find', 'hitmiss') and (nd or '0d' in base):
        return f'{short}:ndim-mismatch'
    if short == 'cooccurence' and any(n in ('output', 'out') for n, _ in muts):
        return 'cooccurence:output-size'
    if short == 'is_same_labeling':
        return 'is_same_labeling:shape-mismatch'
    if short == 'gvoronoi' and 'zero-size' in base:
        return 'gvoronoi:zero-size-SIGFPE'
    if short == 'wavelet_center' and any(n == 'border' for n, _ in muts) and sig == 'timeout':
        return 'wavelet_center:border-huge:timeout'
    if short in MORPH_BC and any(n == 'Bc' and c.split(':')[-1] == 'zero-size' for n, c in muts):
        return 'morph:Bc-zero-size'
    if short == 'majority_filter' and (nd or '0d' in base):
        return 'majority_filter:ndim-not-2'
    if short == 'disk' and any(n == 'dim' for n, _ in muts) and sig == 'timeout':
        return 'disk:dim-huge:timeout'
    return None


MORPH_BC = ('erode', 'dilate', 'open', 'close', 'cerode', 'cdilate', 'tophat_open', 'tophat_close', 'close_holes', 'bwperim', 'perimeter',
            'locmax', 'locmin', 'regmax', 'regmin', 'label', 'borders', 'border', 'cwatershed')


def key_of(spec, muts, out):
    if out['st'] == 'asan':
        sig = {'SEGV': 'SIGSEGV', 'FPE': 'SIGFPE'}.get(out.get('kind'), out.get('kind'))
    elif out['st'] == 'signal':
        sig = out.get('signal')
    else:
        sig = out['st']
    if not muts:                  # the valid call fails: same keys as C10's sweep
        from . import c10
        return c10.classify(spec, out)
    if out['st'] == 'asan' and any(f.startswith('locmin_max@') for f in out.get('frames') or []):
        from . import c10
        if (c10._arg0(spec).get('layout') or 'C') in c10.NONC:      # the degenerate argument is irrelevant: C10's layout defect
            return 'locminmax:layout'
    a = _alias(spec['fn'], muts, sig)
    if a:
        return a
    return f"{_short(spec['fn'])}:" + '+'.join(sorted(f'{n}={c}' for n, c in muts)) + f':{sig}'


def _run(spec):
    w = iso.get_worker(SRC['asan'], True)
    out = w.call(spec, TIMEOUT)
    if out['st'] == 'asan' and out.get('kind') in ('allocator', 'allocation-size-too-big', 'out-of-memory', 'calloc-overflow'):
        # ASan's allocator aborts where operator new throws bad_alloc: decide on the plain build (address space capped at 8 GiB)
        out2 = iso.get_worker(SRC['plain'], False).call(spec, TIMEOUT)
        out2['asan_allocator_report'] = True
        return out2
    return out


BAD = ('asan', 'signal', 'timeout', 'corrupt', 'garbled')


def _minimise(case, out):
    """revert mutations one at a time while the crash persists: the key names a minimal set of degenerate arguments.
    When the VALID call itself fails, the degenerate argument is irrelevant (a C10 defect): no mutation is left."""
    muts = [tuple(m) for m in case['muts']]
    if 'valid' not in case:
        return case, out
    if muts:
        o = _run(case['valid'])
        if o['st'] in BAD:
            return dict(case, call=case['valid'], muts=[]), o
    if len(muts) <= 1:
        return case, out
    cur, cur_out = case, out
    for m in list(muts):
        if len(cur['muts']) <= 1:
            break
        cand = _revert(cur, m[0])
        if cand is None:
            continue
        o = _run(cand['call'])
        if o['st'] in BAD:
            cur, cur_out = cand, o
    return cur, cur_out


def _revert(case, name):
    names, _ = param_names(case['call']['fn'])
    call = json.loads(json.dumps(case['call']))
    valid = case['valid']
    if name in call['kw']:
        if name in valid['kw']:
            call['kw'][name] = valid['kw'][name]
        else:
            del call['kw'][name]
    elif name in names and names.index(name) < len(call['args']) and names.index(name) < len(valid['args']):
        i = names.index(name)
        call['args'][i] = valid['args'][i]
    else:
        return None
    return dict(case, call=call, muts=[m for m in case['muts'] if m[0] != name])


def _eval_call(case):
    spec = case['call']
    out = _run(spec)
    f = []
    st = out['st']
    if st in BAD:
        c2, o2 = _minimise(case, out)
        detail = {k: o2.get(k) for k in ('st', 'kind', 'access', 'frames', 'signal', 'rc', 'why', 'wall') if o2.get(k) is not None}
        detail['report'] = (o2.get('report') or o2.get('stderr') or '')[:1200]
        detail['mutations'] = c2['muts']
        f.append(dict(kind='property', key=key_of(c2['call'], [tuple(m) for m in c2['muts']], o2), detail=detail, case=c2))
    tags = dict(kind='call', fn=_short(spec['fn']), outcome=st if st != 'exc' else 'exc:' + out.get('type', '?'), nmut=len(case['muts']))
    for _, c in case['muts']:
        tags_c = c.split(':')[0] if not c.startswith('was-none') else 'was-none'
        tags['mut'] = tags_c
    return dict(findings=f, nontrivial=st in ('ok', 'exc'), sig=json.dumps(spec, sort_keys=True), tags=tags)


# ---- guard model vs. code ---------------------------------------------------------------------------------------

DT_CLASS = {'b': 1, 'u': 2, 'i': 2, 'f': 3}


def _clip(x):
    return max(-2 ** 62, min(2 ** 62, int(x)))


def describe(v):
    """argument descriptor understood by Model/C11.lean: kind,ndim,dtypeclass,flags,intvalue,shape…
    kind 0 none, 1 array, 2 integer scalar, 3 other; dtype class 0 other,1 bool,2 integer,3 float32/64(/128),4 float16;
    flags bit0 C-contiguous, bit1 writeable, bit2 aligned, bit3 byte-swapped, bit4 some element negative, bit5 some element
    not finite; intvalue: the integer, or the largest element of an integer/bool array (0 when empty)"""
    if v is None:
        return [0, 0, 0, 0, 0]
    if isinstance(v, np.ndarray):
        k = v.dtype.kind
        cls = 4 if v.dtype == np.float16 else DT_CLASS.get(k, 0)
        fl = (1 if v.flags.c_contiguous else 0) | (2 if v.flags.writeable else 0) | (4 if v.flags.aligned else 0)
        mx = 0
        try:
            if not v.dtype.isnative:
                fl |= 8
            if k in 'iuf' and v.size and bool(v.min() < 0):
                fl |= 16
            if k in 'fc' and not bool(np.all(np.isfinite(v))):
                fl |= 32
            if k in 'iub' and v.size:
                mx = _clip(v.max())
        except Exception:
            pass
        return [1, v.ndim, cls, fl, mx] + [int(s) for s in v.shape]
    if isinstance(v, (bool, np.bool_)):
        return [2, 0, 1, 0, int(v)]
    if isinstance(v, (int, np.integer)):
        return [2, 0, 2, 0, _clip(v)]
    fl = 0
    if isinstance(v, (float, np.floating, list, tuple)):
        try:
            if not bool(np.all(np.isfinite(np.asarray(v, dtype=np.float64)))):
                fl = 32
        except Exception:
            pass
    return [3, 0, 0, fl, 0]


def describe_x(v):
    """the optional `<param>.x=<numpy type number>,<number of non-zero elements>` of an array"""
    if not isinstance(v, np.ndarray):
        return None
    try:
        nnz = int(np.count_nonzero(v))
    except Exception:
        nnz = 0
    return [int(v.dtype.num), nnz]


def _desc_tokens(name, v):
    toks = [f'{name}=' + ','.join(str(x) for x in describe(v))]
    x = describe_x(v)
    if x is not None:
        toks.append(f'{name}.x=' + ','.join(str(i) for i in x))
    return toks


def _eval_guards(case):
    """the Lean guard interpreter on the descriptor of the actual arguments; reject ⇒ the real call raises"""
    spec = case['call']
    names, _ = param_names(spec['fn'])
    try:
        args = [specs.build(a) for a in spec['args']]
        kw = {k: specs.build(v) for k, v in spec['kw'].items()}
    except Exception:
        return dict(findings=[], nontrivial=False, sig=None, tags=dict(kind='guards', outcome='unbuildable'))
    bound = dict(zip(names, args))
    bound.update(kw)
    import numpy as _np
    if any(isinstance(v, _np.ndarray) and v.ndim == 0 for v in bound.values()):
        # np.ascontiguousarray / np.asfortranarray promote a 0-d array to 1-d before some guards run; the guard DSL
        # treats those conversions as rank preserving, which is exact for every rank >= 1 only: not compared for 0-d
        # arguments (they stay in the crash/hang sweep)
        return dict(findings=[], nontrivial=False, sig=None, tags=dict(kind='guards', outcome='skipped-0d'))
    toks = [f'c11 kind=guards fn={_short(spec["fn"])}']
    for n in names:
        if n in bound:
            toks += _desc_tokens(n, bound[n])
    line = ' '.join(toks)
    drv = core.drive([line])[0]
    fnd = []
    verdict = drv.get('verdict', 'error')
    tags = dict(kind='guards', fn=_short(spec['fn']), verdict=verdict)
    if 'error' in drv:
        fnd.append(dict(kind='model', key='driver:guards:' + drv.get('error', '?'), detail=dict(line=line, answer=drv)))
    elif verdict == 'reject':
        out = _run(spec)
        tags['outcome'] = out['st']
        if out['st'] == 'ok':
            fnd.append(dict(kind='model', key=f'guards:{_short(spec["fn"])}:model-rejects-code-accepts',
                            detail=dict(line=line, answer=drv, outcome={k: out.get(k) for k in ('st', 'summary')})))
    return dict(findings=fnd, nontrivial=verdict in ('accept', 'reject'), sig=line, tags=tags)


# ---- native guard model vs. direct calls of native entry points ------------------------------------------------------
#
# `nguards` cases: a direct call of a native entry point (documented as dangerous: the kernels trust their callers beyond
# what the entry point checks). The Lean interpreter of the extracted NATIVE guards is run on the descriptors of the
# arguments; the real call is executed only when the model says `reject` (then it must raise) or when the argument tuple is
# the unmutated valid one (then it must not crash, and the model must accept it). Mutated tuples the model accepts are
# never executed.

def native_table():
    """{'_module.name': [C parameter names]} from the `-- native:` lines the translator writes"""
    p = core.LEAN / 'Mahotas' / 'Generated' / 'Guards.lean'
    import re
    out = {}
    if p.exists():
        for m in re.finditer(r'^-- native: (\S+) cfn=(\S+) params=(\S*) fmt=(\S*)$', p.read_text(), re.M):
            out[m.group(1)] = m.group(3).split(',') if m.group(3) else []
    return out


def _arr(dtype, shape, fill='rand', layout=None, seed=0, **kw):
    d = dict(dtype=dtype, shape=list(shape), fill=fill, seed=seed)
    if layout:
        d['layout'] = layout
    d.update(kw)
    return {'a': d}


def _native_valid(rng, target):
    """a valid argument tuple (inside the kernel's domain) of a native entry point, in the order of its C parameters"""
    sd = rng.randrange(10 ** 6)
    if target == '_convolve.find2d':
        dt = rng.choice(['uint8', 'int32', 'float64', 'bool'])
        sh = (rng.randint(1, 6), rng.randint(1, 6))
        return [_arr(dt, sh, seed=sd), _arr(dt, (rng.randint(1, 3), rng.randint(1, 3)), seed=sd + 1), _arr('bool', sh, 'zeros')]
    if target == '_convolve.template_match':
        dt = rng.choice(['uint8', 'int32', 'float64'])
        nd = rng.randint(1, 3)
        sh = tuple(rng.randint(1, 5) for _ in range(nd))
        return [_arr(dt, sh, seed=sd), _arr(dt, tuple(rng.randint(1, 3) for _ in range(nd)), seed=sd + 1), _arr(dt, sh, 'zeros'),
                {'v': rng.choice([0, 1, 2, 3, 4])}, {'v': 0}]
    if target == '_morph.hitmiss':
        dt = rng.choice(['uint8', 'int32', 'uint16'])
        nd = rng.randint(1, 3)
        sh = tuple(rng.randint(1, 6) for _ in range(nd))
        return [_arr(dt, sh, hi=1, seed=sd), _arr(dt, tuple(rng.randint(1, 3) for _ in range(nd)), hi=2, seed=sd + 1), _arr(dt, sh, 'zeros')]
    if target == '_morph.majority_filter':
        sh = (rng.randint(1, 7), rng.randint(1, 7))
        return [_arr('bool', sh, 'bool', seed=sd), {'v': rng.randint(2, 5)}, _arr('bool', sh, 'zeros')]
    if target == '_center_of_mass.center_of_mass':
        dt = rng.choice(['uint8', 'float64', 'int32'])
        sh = tuple(rng.randint(1, 5) for _ in range(rng.randint(1, 3)))
        return [_arr(dt, sh, seed=sd), rng.choice([{'v': None}, _arr('int32', sh, 'labels', hi=3, seed=sd + 1)])]
    if target == '_thin.thin':
        # the kernel relies on the zero frame thin.py adds: an all-False image is inside its domain for every shape
        sh = (rng.randint(3, 7), rng.randint(3, 7))
        return [_arr('bool', sh, 'zeros'), _arr('bool', sh, 'zeros'), {'v': rng.choice([-1, 1, 3])}]
    if target == '_interpolate.zoom_shift':
        nd = rng.randint(1, 3)
        sh = tuple(rng.randint(2, 5) for _ in range(nd))
        return [_arr('float64', sh, 'unit', seed=sd), {'v': None}, _arr('float64', (nd,), 'unit', seed=sd + 1), _arr('float64', sh, 'zeros'),
                {'v': rng.choice([0, 1, 3])}, {'v': rng.choice([0, 1, 2, 4])}, {'v': 0.0}]
    # round 4: entry points whose C10 models are new (subm, disk_2d, otsu, close_holes)
    if target == '_morph.subm':
        dt = rng.choice(['uint8', 'int32', 'uint16', 'int64'])
        sh = tuple(rng.randint(1, 5) for _ in range(rng.randint(1, 3)))
        return [_arr(dt, sh, seed=sd), _arr(dt, sh, seed=sd + 1)]
    if target == '_morph.disk_2d':
        return [_arr('bool', (rng.randint(1, 9), rng.randint(1, 9)), 'zeros'), {'v': rng.randint(0, 6)}]
    if target == '_histogram.otsu':
        return [_arr('float64', (rng.randint(1, 40),), 'unit', seed=sd)]
    if target == '_morph.close_holes':
        return [_arr('bool', (rng.randint(1, 7), rng.randint(1, 7)), 'bool', seed=sd), _arr('bool', (3, 3), 'ones')]
    raise KeyError(target)


NATIVE_TARGETS = ['_convolve.find2d', '_convolve.template_match', '_morph.hitmiss', '_morph.majority_filter',
                  '_center_of_mass.center_of_mass', '_thin.thin', '_interpolate.zoom_shift',
                  '_morph.subm', '_morph.disk_2d', '_histogram.otsu', '_morph.close_holes']
_OTHER_DTYPES = ['uint8', 'int32', 'int64', 'float64', 'float32', 'bool', 'uint16', 'complex128', 'float16']


def _native_mutate(rng, args):
    """replace 1-2 array arguments by: another rank, another dtype, another shape, a non-contiguous / read-only layout,
    a zero-length axis, or a non-array"""
    args = json.loads(json.dumps(args))
    idx = [i for i, a in enumerate(args) if 'a' in a]
    muts = []
    for i in rng.sample(idx, min(len(idx), rng.choice([1, 1, 2]))):
        d = args[i]['a']
        sh = list(d['shape'])
        kind = rng.choice(['rank+', 'rank-', 'dtype', 'shape', 'layout', 'readonly', 'zero', 'nonarray', 'none'])
        if kind == 'rank+':
            d['shape'] = sh + [rng.randint(1, 3)]
        elif kind == 'rank-':
            d['shape'] = sh[:-1]
        elif kind == 'dtype':
            d['dtype'] = rng.choice([t for t in _OTHER_DTYPES if t != d['dtype']])
        elif kind == 'shape':
            if sh:
                sh[rng.randrange(len(sh))] += rng.randint(1, 2)
            d['shape'] = sh
        elif kind == 'layout':
            d['layout'] = rng.choice(['F', 'strided', 'transposed', 'negstride'])
        elif kind == 'readonly':
            d['layout'] = 'readonly'
        elif kind == 'zero':
            if sh:
                sh[rng.randrange(len(sh))] = 0
            d['shape'] = sh
        elif kind == 'nonarray':
            args[i] = rng.choice([{'v': 3}, {'v': 'x'}, {'l': [{'v': 1}, {'v': 2}]}, {'v': 2.5}])
        else:
            args[i] = {'v': None}
        muts.append([str(i), kind])
    return args, muts


def _eval_nguards(case):
    spec = case['call']
    target = spec['fn'][len('mahotas.'):]
    if target.startswith('features.'):
        target = target[len('features.'):]
    params = native_table().get(target)
    if params is None:
        return dict(findings=[dict(kind='model', key=f'nguards:{target}:not-in-generated-table', detail=dict(target=target))],
                    nontrivial=False, sig=None, tags=dict(kind='nguards', fn=target, verdict='unknown-fn'))
    try:
        args = [specs.build(a) for a in spec['args']]
    except Exception:
        return dict(findings=[], nontrivial=False, sig=None, tags=dict(kind='nguards', outcome='unbuildable'))
    toks = [f'c11 kind=nguards fn={target}']
    for n, v in zip(params, args):
        toks += _desc_tokens(n, v)
    line = ' '.join(toks)
    drv = core.drive([line])[0]
    verdict = drv.get('verdict', 'error')
    action = str(drv.get('action', '-1'))
    tags = dict(kind='nguards', fn=target, verdict=verdict, mutated=bool(case['muts']))
    fnd = []
    if 'error' in drv or verdict not in ('accept', 'reject'):
        fnd.append(dict(kind='model', key='driver:nguards:' + str(drv.get('error', verdict)), detail=dict(line=line, answer=drv)))
    elif verdict == 'reject' or not case['muts']:
        out = _run(spec)
        tags['outcome'] = out['st'] if out['st'] != 'exc' else 'exc:' + out.get('type', '?')
        if out['st'] in BAD:
            detail = {k: out.get(k) for k in ('st', 'kind', 'access', 'frames', 'signal', 'rc', 'why', 'wall') if out.get(k) is not None}
            detail.update(report=(out.get('report') or out.get('stderr') or '')[:1200], line=line, answer=drv)
            what = 'rejected-by-model' if verdict == 'reject' else 'valid-call'
            fnd.append(dict(kind='property', key=f'native:{target}:{what}:{out["st"]}', detail=detail))
        elif verdict == 'reject' and action != '4' and out['st'] == 'ok':
            fnd.append(dict(kind='model', key=f'nguards:{target}:model-rejects-code-accepts',
                            detail=dict(line=line, answer=drv, outcome={k: out.get(k) for k in ('st', 'summary')})))
        elif verdict == 'reject' and action == '4' and out['st'] != 'ok':
            fnd.append(dict(kind='model', key=f'nguards:{target}:early-return-raised', detail=dict(line=line, answer=drv, outcome=out)))
        elif verdict == 'reject' and out['st'] == 'exc' and out.get('type') not in ('RuntimeError', 'ValueError', 'TypeError'):
            fnd.append(dict(kind='model', key=f'nguards:{target}:unexpected-{out.get("type")}', detail=dict(line=line, answer=drv, outcome=out)))
        elif verdict == 'accept' and out['st'] == 'exc':
            pass            # a valid tuple refused after the guards (e.g. a later check): not a claim of the model
    else:
        tags['outcome'] = 'accepted-not-run'
    return dict(findings=fnd, nontrivial=verdict in ('accept', 'reject'), sig=line, tags=tags)


# ---- argument links (round 3): what the REAL wrappers hand to the native entry points ----------------------------------
#
# `links` cases: a valid call of a public wrapper is executed in this process with the native entry point of one extracted
# call site replaced by a recorder (the native code itself is NOT run: the recorder raises after noting its arguments). The
# descriptors of the caller's arguments (`W.`) and of the recorded native arguments (`N.`) go to the Lean driver, which
# evaluates `Link.holds` for every link of `Generated.argLinkTable` (the definition the theorems use): a link that does not
# hold on a real call is a broken tie (`model` finding). For the sites with a row in `Generated.checkFlowTable` the guard
# helper is recorded as well and `Flows` is evaluated on (helper arguments, native arguments).

class _Captured(Exception):
    pass


def link_sites():
    """[(wrapper 'module.function', native '_module.name', index)] and {(w, h, n, i)} from the generated tables"""
    import re
    p = core.LEAN / 'Mahotas' / 'Generated' / 'Guards.lean'
    txt = p.read_text() if p.exists() else ''
    m = re.search(r'def argLinkTable .*?:= \[(.*?)\n\]', txt, re.S)
    sites = [(a, b, int(i)) for a, b, i in re.findall(r'\("([\w.]+)", "([\w.]+)", (\d+), links_', m.group(1))] if m else []
    m = re.search(r'def checkFlowTable .*?:= \[(.*?)\n\]', txt, re.S)
    flows = [(a, h, b, int(i)) for a, h, b, i in re.findall(r'\("([\w.]+)", "(\w+)", "([\w.]+)", (\d+), \[', m.group(1))] if m else []
    return sites, flows


# wrapper (as in the link table) -> catalogue entry that reaches it with a valid call
LINK_WRAPPERS = {
    'convolve.find': 'mahotas.find', 'convolve.convolve': 'mahotas.convolve', 'convolve.template_match': 'mahotas.template_match',
    'convolve.rank_filter': 'mahotas.rank_filter', 'convolve.median_filter': 'mahotas.median_filter', 'convolve.mean_filter': 'mahotas.mean_filter',
    'morph.erode': 'mahotas.erode', 'morph.dilate': 'mahotas.dilate', 'morph.hitmiss': 'mahotas.hitmiss',
    'morph.majority_filter': 'mahotas.majority_filter', 'morph.cwatershed': 'mahotas.cwatershed', 'morph.close_holes': 'mahotas.close_holes',
    'morph.locmax': 'mahotas.locmax', 'morph.regmin': 'mahotas.regmin', 'labeled.label': 'mahotas.label', 'labeled.borders': 'mahotas.labeled.borders',
    'labeled.border': 'mahotas.labeled.border', 'labeled.relabel': 'mahotas.labeled.relabel', 'labeled.labeled_sum': 'mahotas.labeled.labeled_sum',
    'interpolate.shift': 'mahotas.interpolate.shift', 'interpolate.zoom': 'mahotas.interpolate.zoom',
    'interpolate.spline_filter1d': 'mahotas.interpolate.spline_filter1d', 'thin.thin': 'mahotas.thin.thin',
    'features_texture.cooccurence': 'mahotas.features.texture.cooccurence', 'center_of_mass.center_of_mass': 'mahotas.center_of_mass.center_of_mass',
    'labeled.bbox': 'mahotas.labeled.bbox', 'histogram.fullhistogram': 'mahotas.histogram.fullhistogram', 'polygon.convexhull': 'mahotas.polygon.convexhull',
    'convolve.haar': 'mahotas.haar', 'convolve.daubechies': 'mahotas.daubechies', 'segmentation.slic': 'mahotas.segmentation.slic',
    'features_surf.integral': 'mahotas.features.surf.integral', 'features_surf.descriptors': 'mahotas.features.surf.descriptors',
    'morph.subm': 'mahotas.morph.subm', 'bbox.bbox': 'mahotas.bbox.bbox',
}


def _resolve(dotted):
    import importlib
    parts = dotted.split('.')
    for i in range(len(parts) - 1, 0, -1):
        try:
            obj = importlib.import_module('.'.join(parts[:i]))
        except ImportError:
            continue
        for p_ in parts[i:]:
            obj = getattr(obj, p_)
        return obj
    raise KeyError(dotted)


def _eval_links(case):
    import importlib
    w, n, idx = case['site']
    spec = case['call']
    names, _ = param_names(spec['fn'])
    try:
        args = [specs.build(a) for a in spec['args']]
        kw = {k: specs.build(v) for k, v in spec['kw'].items()}
    except Exception:
        return dict(findings=[], nontrivial=False, sig=None, tags=dict(kind='links', outcome='unbuildable'))
    bound = dict(zip(names, args))
    bound.update(kw)
    try:                                    # parameters left at their defaults are arguments too
        ba = inspect.signature(_resolve(spec['fn'])).bind(*args, **kw)
        ba.apply_defaults()
        bound = dict(ba.arguments)
    except Exception:
        pass
    wmod = importlib.import_module('mahotas.' + w.rsplit('.', 1)[0].replace('features_', 'features.'))
    nmodname, nfn = n.split('.')
    alias = '_thin' if n == '_thin.thin' else nmodname
    cparams = native_table().get(n)
    seen = []
    helper_seen = []
    # the name the wrapper module uses for the native module / function
    holder, attr, orig = None, None, None
    if n == '_thin.thin':
        nm = importlib.import_module('mahotas._thin')
        holder, attr = nm, 'thin'
    elif hasattr(wmod, alias):
        holder, attr = getattr(wmod, alias), nfn
    else:
        import mahotas
        holder, attr = importlib.import_module(('mahotas.features.' if nmodname in ('_lbp', '_surf', '_texture', '_zernike') else 'mahotas.') + nmodname), nfn
    orig = getattr(holder, attr)

    def recorder(*a):
        seen.append(a)
        if len(seen) > idx:
            raise _Captured()
        return orig(*a)
    hname = case.get('helper')
    horig = getattr(wmod, hname, None) if hname else None
    if hname and horig is None and w.startswith('interpolate'):
        horig = getattr(wmod, hname, None)

    def hrecorder(*a, **k):
        helper_seen.append((a, k))
        return horig(*a, **k)
    # a module object cannot be patched attribute-wise for builtins of extension modules in all cases: wrap the module in a proxy
    class _Proxy:
        def __init__(self, m, at, fn):
            self.__dict__.update(_m=m, _at=at, _fn=fn)

        def __getattr__(self, k):
            return self._fn if k == self._at else getattr(self._m, k)
    patched = []
    try:
        if n == '_thin.thin':
            import mahotas._thin as tm
            patched.append((tm, 'thin', tm.thin))
            tm.thin = recorder
        else:
            for name_, val in list(vars(wmod).items()):
                if val is holder:
                    patched.append((wmod, name_, val))
                    setattr(wmod, name_, _Proxy(holder, attr, recorder))
            if not patched:          # `import mahotas._bbox` inside the function: patch the package attribute
                import mahotas
                pkg = importlib.import_module('mahotas.features') if nmodname in ('_lbp', '_surf', '_texture', '_zernike') else mahotas
                patched.append((pkg, nmodname, getattr(pkg, nmodname)))
                setattr(pkg, nmodname, _Proxy(holder, attr, recorder))
        if horig is not None:
            patched.append((wmod, hname, horig))
            setattr(wmod, hname, hrecorder)
        out = 'returned'
        try:
            import warnings
            fn = _resolve(spec['fn'])
            with warnings.catch_warnings(), np.errstate(all='ignore'):
                warnings.simplefilter('ignore')
                fn(*args, **kw)
        except _Captured:
            out = 'captured'
        except Exception as e:
            out = 'exc:' + type(e).__name__
    finally:
        for m_, k_, v_ in reversed(patched):
            setattr(m_, k_, v_)
    tags = dict(kind='links', site=f'{w}->{n}#{idx}', outcome=out)
    if out != 'captured' or cparams is None or len(seen) <= idx or len(seen[idx]) != len(cparams):
        return dict(findings=[], nontrivial=False, sig=None, tags=tags)
    toks = [f'c11 kind=links w={w} n={n} i={idx}']
    for nm_, v in bound.items():
        toks += _desc_tokens('W.' + nm_, v)
    for nm_, v in zip(cparams, seen[idx]):
        toks += _desc_tokens('N.' + nm_, v)
    lines = [' '.join(toks)]
    if hname and helper_seen:
        import inspect as _i
        hp = list(_i.signature(horig).parameters)
        ha, hk = helper_seen[0]
        hb = dict(zip(hp, ha))
        hb.update(hk)
        toks = [f'c11 kind=flows w={w} h={hname} n={n} i={idx}']
        for nm_, v in hb.items():
            toks += _desc_tokens('H.' + nm_, v)
        for nm_, v in zip(cparams, seen[idx]):
            toks += _desc_tokens('N.' + nm_, v)
        lines.append(' '.join(toks))
    drv = core.drive(lines)
    fnd = []
    v0 = drv[0].get('verdict', 'error')
    tags['verdict'] = v0
    if v0 != 'linked':
        fnd.append(dict(kind='model', key=f'links:{w}->{n}#{idx}:{v0}', detail=dict(line=lines[0], answer=drv[0])))
    if len(drv) > 1:
        v1 = drv[1].get('verdict', 'error')
        tags['flows'] = v1
        if v1 != 'flows':
            fnd.append(dict(kind='model', key=f'flows:{w}:{hname}->{n}:{v1}', detail=dict(line=lines[1], answer=drv[1])))
    return dict(findings=fnd, nontrivial=True, sig=lines[0], tags=tags)


def evaluate(cases):
    out = []
    for c in cases:
        k = c.get('kind')
        out.append(_eval_guards(c) if k == 'guards' else _eval_nguards(c) if k == 'nguards' else _eval_links(c) if k == 'links' else _eval_call(c))
    return out


# ---------------------------------------------------------------------------------------------------------------

def _corpus():
    d = core.VERIF / 'corpus' / ID
    return [json.loads(p.read_text())['case'] for p in sorted(d.glob('*.json'))] if d.exists() else []


def guard_functions():
    """public functions for which Generated/Guards.lean has a wrapper guard list (the translator reports them)"""
    p = core.LEAN / 'Mahotas' / 'Generated' / 'Guards.lean'
    if not p.exists():
        return []
    import re
    return sorted(set(re.findall(r'-- wrapper: (\S+)', p.read_text())))


def cases(rng, tier):
    out = list(_corpus()) if tier != 'search' else []
    n = dict(quick=3500, thorough=150000, search=20000)[tier]
    ng = dict(quick=600, thorough=8000, search=0)[tier]
    fns = sorted(catalog.ENTRIES)
    skipped = 0
    i = 0
    while len(out) < n + len(_corpus()) and i < 3 * n:
        fn = fns[i % len(fns)] if i < 20 * len(fns) else rng.choice(fns)
        i += 1
        valid = catalog.valid_call(rng, fn, maxlen=12, cap=600)
        names, opt = param_names(fn)
        call, muts = catalog.mutate(rng, valid, names, opt)
        if too_expensive(call):
            skipped += 1
            continue
        out.append(dict(kind='call', call=call, muts=[list(m) for m in muts], valid=valid))
    # directed: every array argument of every function, in turn, in dtypes no kernel is instantiated for, the rest of
    # the call valid (optional arguments present or absent as the valid-call generator draws them): the "type not
    # understood" exits of the native code are error paths of their own, with their own clean-up
    reps, ndt = dict(quick=(2, 3), thorough=(4, len(catalog.DEGENERATE_DTYPES)), search=(2, 4))[tier]
    for fn in fns:
        names, opt = param_names(fn)
        for _ in range(reps):
            valid = catalog.valid_call(rng, fn, maxlen=8, cap=300)
            slots = [('args', i_) for i_, a in enumerate(valid['args']) if 'a' in a] + \
                    [('kw', k_) for k_, a in valid['kw'].items() if 'a' in a]
            for where, key in slots:
                for dt in rng.sample(catalog.DEGENERATE_DTYPES, ndt):
                    call = json.loads(json.dumps(valid))
                    d = call[where][key]['a']
                    d['dtype'] = dt
                    if d.get('fill') in ('limits', 'float', 'unit', 'signed', 'labels', 'bool'):
                        d['fill'] = 'rand'
                    d.pop('hi', None)
                    pname = key if where == 'kw' else (names[key] if key < len(names) else 'arg%d' % key)
                    if too_expensive(call):
                        continue
                    out.append(dict(kind='call', call=call, valid=valid,
                                    muts=[[pname, 'dtype:' + (dt if isinstance(dt, str) else 'structured')]]))
    # valid calls at the corners of the documented domain (no mutation): they must not crash either
    for call in catalog.directed_extreme_calls(rng):
        out.append(dict(kind='call', call=call, muts=[], valid=call))
    gf = guard_functions()
    full = {f.split('.')[-1]: f for f in fns}
    gf = [full[g] for g in gf if g in full]
    for j in range(ng if gf else 0):
        fn = gf[j % len(gf)]
        valid = catalog.valid_call(rng, fn, maxlen=8, cap=300)
        names, opt = param_names(fn)
        if rng.random() < 0.75:
            call, muts = catalog.mutate(rng, valid, names, opt)
        else:
            call, muts = valid, []
        if too_expensive(call):
            continue
        out.append(dict(kind='guards', call=call, muts=[list(m) for m in muts]))
    nn = dict(quick=550, thorough=10000, search=0)[tier]
    for j in range(nn):
        target = NATIVE_TARGETS[j % len(NATIVE_TARGETS)]
        valid = _native_valid(rng, target)
        if rng.random() < 0.8:
            args, muts = _native_mutate(rng, valid)
        else:
            args, muts = valid, []
        mod = 'mahotas.features.' if target.split('.')[0] in ('_lbp', '_surf', '_texture', '_zernike') else 'mahotas.'
        out.append(dict(kind='nguards', call=dict(fn=mod + target, args=args, kw={}), muts=muts))
    # argument links: valid calls of the wrappers that have a catalogue entry, every extracted call site in turn
    nl = dict(quick=320, thorough=6000, search=0)[tier]
    sites, flows = link_sites()
    sites = [s_ for s_ in sites if s_[0] in LINK_WRAPPERS and LINK_WRAPPERS[s_[0]] in catalog.ENTRIES]
    helper_of = {(w_, n_, i_): h_ for w_, h_, n_, i_ in flows}
    for j in range(nl if sites else 0):
        w_, n_, i_ = sites[j % len(sites)]
        valid = catalog.valid_call(rng, LINK_WRAPPERS[w_], maxlen=8, cap=300)
        c = dict(kind='links', site=[w_, n_, i_], call=valid, muts=[])
        if (w_, n_, i_) in helper_of:
            c['helper'] = helper_of[(w_, n_, i_)]
        out.append(c)
    # round 4 (appended last: the stream above is unchanged): directed calls at the corners the C10 index models point at —
    # valid ones (must not crash) and degenerate ones (must raise or return, never crash or hang)
    from .. import directed4
    for call in directed4.valid_calls(rng):
        if not too_expensive(call):
            out.append(dict(kind='call', call=call, muts=[], valid=call))
    for call, muts in directed4.degenerate_calls(rng):
        out.append(dict(kind='call', call=call, muts=muts, valid=call))
    return out


def shrink(case):
    if case.get('kind') in ('guards', 'nguards', 'links'):
        return
    # first: fewer mutations; then smaller arrays
    for m in case.get('muts', []):
        if len(case['muts']) > 1 and 'valid' in case:
            c = _revert(case, m[0])
            if c is not None:
                yield c
    spec = case['call']
    slots = [(('p', i), a) for i, a in enumerate(spec['args'])] + [(('k', k), a) for k, a in spec['kw'].items()]
    for path, a in slots:
        if 'a' in a:
            d = a['a']
            for ax, nlen in enumerate(d.get('shape', [])):
                for new in sorted({nlen // 2, nlen - 1}):
                    if 1 <= new < nlen:
                        s = json.loads(json.dumps(spec))
                        tgt = s['args'][path[1]] if path[0] == 'p' else s['kw'][path[1]]
                        tgt['a']['shape'][ax] = new
                        yield dict(case, call=s)
            if (d.get('layout') or 'C') != 'C':
                s = json.loads(json.dumps(spec))
                tgt = s['args'][path[1]] if path[0] == 'p' else s['kw'][path[1]]
                tgt['a']['layout'] = 'C'
                yield dict(case, call=s)
    mutated = {m[0] for m in case.get('muts', [])}
    for k in list(spec['kw']):
        if k not in mutated:
            s = json.loads(json.dumps(spec))
            del s['kw'][k]
            yield dict(case, call=s)


def coverage_extra():
    return dict(public_functions=len(catalog.ENTRIES), proved_vs_validated=EXPLANATION,
                cost_model={f'{f}:{p}': cap for (f, p), cap in COST_LINEAR.items()})
